import BreezyVerif.Lemmas.C30Serve
/-!
C30 — a smart server never waits for bytes beyond the current request.

For each decoder (state machines of Model/C29.lean, `nextReadSize` = `next_read_size()`):

* `*_hint_bound` (encoder independent, EVERY resting state `s`, EVERY continuation `q`):
  if feeding `q` completes the message, then `1 ≤ nextReadSize s` and
  `nextReadSize s + |unused_data afterwards| ≤ |q|` — the hint never reaches past
  the end of the current message, whatever the message is;
* `*_no_overread`: while a well-formed message is delivered in arbitrary reads, in
  every state reached, hint ∈ [1, bytes of the message not yet delivered], and the
  loop's exit test (`finished_reading` / hint = 0) is false;
* `*_done_exactly_at_end`: the exit test is true once the whole message has arrived;
* `*_loop_consumes_exactly`: the reading loop (`_serve_one_request_unguarded`,
  `_read_more`, `read_body_bytes`, `read_streamed_body`) under EVERY short-read
  schedule never blocks, terminates, and has consumed exactly the message.

Unbounded: all messages, all read patterns, all schedules.
-/
namespace BreezyVerif.C30
open BreezyVerif.C29

/-! ## LengthPrefixedBodyDecoder (client `read_body_bytes`, v1/v2 request bodies) -/

theorem lp_hint_bound (s : LP) (q : Bytes) (hwf : lpWf s) (hnf : s.finished = false)
    (hfin : (s.feed q).finished = true) :
    1 ≤ s.nextReadSize ∧ s.nextReadSize + ((s.feed q).unused.length : Int) ≤ q.length :=
  (lpLaws.hint s q hwf hnf hfin).2

theorem lp_feed_encode (body : Bytes) : LP.feed LP.init (lpEncode body) = .done body [] := by
  have := LP.feed_init_encode body []
  simpa using this

theorem lp_no_overread (body : Bytes) (segs : List Bytes) (q : Bytes)
    (hw : segs.flatten ++ q = lpEncode body) (hq : q ≠ []) :
    (feedAll LP.feed LP.init segs).finished = false ∧
    1 ≤ (feedAll LP.feed LP.init segs).nextReadSize ∧
    (feedAll LP.feed LP.init segs).nextReadSize ≤ q.length :=
  lpLaws.no_overread LP.init _ lpWf_init (by show (LP.feed LP.init _).finished = true; rw [lp_feed_encode]; rfl) (by show (LP.feed LP.init _).unused = []; rw [lp_feed_encode]; rfl)
    segs q hw hq

theorem lp_done_exactly_at_end (body : Bytes) (segs : List Bytes) (hne : segs ≠ [])
    (hw : segs.flatten = lpEncode body) : (feedAll LP.feed LP.init segs).finished = true :=
  lpLaws.stops_at_end LP.init _ (by show (LP.feed LP.init _).finished = true; rw [lp_feed_encode]; rfl) segs hne hw

theorem lp_loop_consumes_exactly (body : Bytes) (sched : Nat → Nat) (i : Nat)
    (segs : List Bytes) (q : Bytes) (hw : segs.flatten ++ q = lpEncode body) (hq : q ≠ []) :
    pipeLoop lpMachine sched (q.length + 1) i (feedAll LP.feed LP.init segs) q
      = .finished (.done body []) [] := by
  have := lpLaws.loop_from_reads LP.init _ lpWf_init (by show (LP.feed LP.init _).finished = true; rw [lp_feed_encode]; rfl)
    (by show (LP.feed LP.init _).unused = []; rw [lp_feed_encode]; rfl) sched i segs q hw hq
  have e : lpMachine.feed LP.init (lpEncode body) = .done body [] := lp_feed_encode body
  rw [e] at this
  exact this

example : lpWf (.readingBody 3 [1]) ∧ (LP.readingBody 3 [1]).finished = false ∧
    ((LP.readingBody 3 [1]).feed [7, 8, 9, 100, 111, 110, 101, 10, 55]).finished = true :=
  ⟨by simp [lpWf], by decide, by decide⟩

/-! ## ChunkedBodyDecoder (client `read_streamed_body`) -/

theorem ck_hint_bound (s : CK) (q : Bytes) (hwf : ckWf s) (hnf : s.finished = false)
    (hfin : (s.feed q).finished = true) :
    1 ≤ s.nextReadSize ∧ s.nextReadSize + ((s.feed q).unused.length : Int) ≤ q.length :=
  (ckLaws.hint s q hwf hnf hfin).2

theorem ck_feed_encode (chunks : List Bytes) (err : Option (List Bytes)) :
    CK.feed CK.init (ckEncode chunks err) = .done (ckExpected chunks err) [] := by
  have := CK.feed_init_encode chunks err []
  simpa using this

theorem ck_no_overread (chunks : List Bytes) (err : Option (List Bytes)) (segs : List Bytes)
    (q : Bytes) (hw : segs.flatten ++ q = ckEncode chunks err) (hq : q ≠ []) :
    (feedAll CK.feed CK.init segs).finished = false ∧
    1 ≤ (feedAll CK.feed CK.init segs).nextReadSize ∧
    (feedAll CK.feed CK.init segs).nextReadSize ≤ q.length :=
  ckLaws.no_overread CK.init _ ckWf_init (by simp only [ckMachine]; rw [ck_feed_encode]; rfl) (by simp only [ckMachine]; rw [ck_feed_encode]; rfl)
    segs q hw hq

theorem ck_done_exactly_at_end (chunks : List Bytes) (err : Option (List Bytes))
    (segs : List Bytes) (hne : segs ≠ []) (hw : segs.flatten = ckEncode chunks err) :
    (feedAll CK.feed CK.init segs).finished = true :=
  ckLaws.stops_at_end CK.init _ (by simp only [ckMachine]; rw [ck_feed_encode]; rfl) segs hne hw

theorem ck_loop_consumes_exactly (chunks : List Bytes) (err : Option (List Bytes))
    (sched : Nat → Nat) (i : Nat) (segs : List Bytes) (q : Bytes)
    (hw : segs.flatten ++ q = ckEncode chunks err) (hq : q ≠ []) :
    pipeLoop ckMachine sched (q.length + 1) i (feedAll CK.feed CK.init segs) q
      = .finished (.done (ckExpected chunks err) []) [] := by
  have := ckLaws.loop_from_reads CK.init _ ckWf_init (by simp only [ckMachine]; rw [ck_feed_encode]; rfl)
    (by simp only [ckMachine]; rw [ck_feed_encode]; rfl) sched i segs q hw hq
  have e : ckMachine.feed CK.init (ckEncode chunks err) = .done (ckExpected chunks err) [] :=
    ck_feed_encode chunks err
  rw [e] at this
  exact this

example : ckWf (.expectingLength [49] .empty) ∧
    ((CK.expectingLength [49] .empty).feed [10, 97, 69, 78, 68, 10]).finished = true :=
  ⟨by simp [ckWf], by decide +kernel⟩

/-! ## ProtocolThreeDecoder (server pipe medium; client `_read_more`)

`v3_hint_bound` is the framing-level bound.  The server's decoder additionally gives up
(`decoding_failed`, hint 0) when a header / structure payload does not bdecode (`okH`, `okS`
— arbitrary predicates here, instantiated with a model of fastbencode in the driver); on
the client the message handler raising (`isSeq`, `Resp.run`) ends the loop as well.  The
theorems below are about those guarded machines and state the conditions explicitly. -/

theorem v3_hint_bound (s : V3) (q : Bytes) (hwf : v3Wf s) (hnf : s.finished = false)
    (hfin : (s.feed q).finished = true) :
    1 ≤ s.nextReadSize ∧ s.nextReadSize + ((s.feed q).unused.length : Int) ≤ q.length :=
  (v3Laws.hint s q hwf hnf hfin).2

/-- server: whatever state the decoder rests in and whatever continuation `q` completes the
message with all checks passing, the hint is ≥ 1 and stays inside the message -/
theorem v3s_hint_bound (okH okS : Bytes → Bool) (s : V3) (q : Bytes) (hwf : v3Wf s)
    (hnf : (v3gMachine okH okS).fin s = false)
    (hfin : (v3gMachine okH okS).fin (s.feed q) = true) :
    1 ≤ (v3gMachine okH okS).nrs s ∧
      (v3gMachine okH okS).nrs s + ((s.feed q).unused.length : Int) ≤ q.length :=
  ((v3gLaws okH okS).hint s q hwf hnf hfin).2

theorem v3s_complete (okH okS : Bytes → Bool) (headers : Bytes) (parts : List Part)
    (hh : headers.length < 4294967296) (hp : V3.partsOk parts = true)
    (hH : okH headers = true) (hS : parts.all (fun p => evOk okH okS p.ev) = true) :
    (v3gMachine okH okS).fin ((v3gMachine okH okS).feed (V3.init false) (v3EncodeBody headers parts)) = true ∧
    (v3gMachine okH okS).unused ((v3gMachine okH okS).feed (V3.init false) (v3EncodeBody headers parts)) = [] := by
  simp only [v3gMachine, guardMachine, v3Machine, v3g_feed_encode okH okS headers parts hh hp,
    v3Ok_done okH okS headers parts [] hH hS, V3.finished, V3.unused, Bool.and_self, and_self]

/-- server side (the medium has consumed the version marker) -/
theorem v3s_no_overread (okH okS : Bytes → Bool) (headers : Bytes) (parts : List Part)
    (hh : headers.length < 4294967296) (hp : V3.partsOk parts = true)
    (hH : okH headers = true) (hS : parts.all (fun p => evOk okH okS p.ev) = true)
    (segs : List Bytes) (q : Bytes) (hw : segs.flatten ++ q = v3EncodeBody headers parts)
    (hq : q ≠ []) :
    (v3gMachine okH okS).nrs (feedAll V3.feed (V3.init false) segs) ≠ 0 ∧
    1 ≤ (v3gMachine okH okS).nrs (feedAll V3.feed (V3.init false) segs) ∧
    (v3gMachine okH okS).nrs (feedAll V3.feed (V3.init false) segs) ≤ q.length := by
  obtain ⟨c1, c2⟩ := v3s_complete okH okS headers parts hh hp hH hS
  have := (v3gLaws okH okS).no_overread (V3.init false) _ (v3Wf_init false) c1 c2 segs q hw hq
  obtain ⟨_, h1, h2⟩ := this
  exact ⟨by intro h; rw [show (v3gMachine okH okS).feed = V3.feed from rfl] at h1; omega, h1, h2⟩

theorem v3s_zero_exactly_at_end (okH okS : Bytes → Bool) (headers : Bytes) (parts : List Part)
    (hh : headers.length < 4294967296) (hp : V3.partsOk parts = true)
    (hH : okH headers = true) (hS : parts.all (fun p => evOk okH okS p.ev) = true)
    (segs : List Bytes) (hne : segs ≠ []) (hw : segs.flatten = v3EncodeBody headers parts) :
    (v3gMachine okH okS).nrs (feedAll V3.feed (V3.init false) segs) = 0 := by
  obtain ⟨c1, _⟩ := v3s_complete okH okS headers parts hh hp hH hS
  have hfin := (v3gLaws okH okS).fin_of_all (V3.init false) _ c1 segs hne hw
  simp only [v3gMachine, guardMachine, v3Machine, Bool.and_eq_true] at hfin ⊢
  rw [hfin.2]
  cases hs : feedAll V3.feed (V3.init false) segs with
  | done evs u => rfl
  | run t b e n => rw [hs] at hfin; simp [V3.finished] at hfin
  | failed e x => rw [hs] at hfin; simp [V3.finished] at hfin

theorem v3s_loop_consumes_exactly (okH okS : Bytes → Bool) (headers : Bytes) (parts : List Part)
    (hh : headers.length < 4294967296) (hp : V3.partsOk parts = true)
    (hH : okH headers = true) (hS : parts.all (fun p => evOk okH okS p.ev) = true)
    (sched : Nat → Nat) (i : Nat) (segs : List Bytes) (q : Bytes)
    (hw : segs.flatten ++ q = v3EncodeBody headers parts) (hq : q ≠ []) :
    pipeLoop (v3gMachine okH okS) sched (q.length + 1) i (feedAll V3.feed (V3.init false) segs) q
      = .finished (.done (.headers headers :: (parts.map Part.ev ++ [.end_])) []) [] := by
  obtain ⟨c1, c2⟩ := v3s_complete okH okS headers parts hh hp hH hS
  have := (v3gLaws okH okS).loop_from_reads (V3.init false) _ (v3Wf_init false) c1 c2 sched i segs q hw hq
  rw [show (v3gMachine okH okS).feed (V3.init false) (v3EncodeBody headers parts) = _ from
    v3g_feed_encode okH okS headers parts hh hp] at this
  exact this

/-- WHY the conditions are needed (model = code): a structure part whose payload does not
bdecode makes the server's decoder give up as soon as that part has arrived — the hint is
0 and the loop returns with the rest `r` of the message unread, for every `r`. -/
theorem v3s_undecodable_stops_early (okH okS : Bytes → Bool) (headers raw : Bytes)
    (parts : List Part) (hh : headers.length < 4294967296) (hp : V3.partsOk parts = true)
    (hr : raw.length < 4294967296) (hbad : okS raw = false)
    (sched : Nat → Nat) (fuel i : Nat) (r : Bytes) :
    let s := V3.feed (V3.init false)
      (be32 headers.length ++ headers ++ encodeParts (parts ++ [Part.struct raw]))
    (v3gMachine okH okS).nrs s = 0 ∧
      pipeLoop (v3gMachine okH okS) sched (fuel + 1) i s r = .finished s r := by
  intro s
  have hs : s = .run .part [] (.headers headers :: (parts ++ [Part.struct raw]).map Part.ev) 1 := by
    have hp' : V3.partsOk (parts ++ [Part.struct raw]) = true := by
      simp only [V3.partsOk, List.all_append, List.all_cons, List.all_nil, Bool.and_true,
        Bool.and_eq_true, decide_eq_true_eq] at hp ⊢
      exact ⟨hp, hr⟩
    show V3.feed (V3.init false) _ = _
    simp only [V3.init, Bool.false_eq_true, if_false, V3.feed_run, List.nil_append,
      List.append_assoc]
    rw [V3.proc_lp_inr (tag := .headers) rfl _ (V3.extractLP_encode headers _ hh)]
    have := V3.proc_parts (parts ++ [Part.struct raw]) [] ([] ++ [V3.lpEv .headers headers]) hp'
    rw [List.append_nil] at this
    rw [this, V3.proc_part_nil]
    rfl
  have hok : v3Ok okH okS s = false := by
    rw [hs]
    simp [v3Ok, V3.events, Part.ev, evOk, hbad]
  obtain ⟨h1, h2, _⟩ := guard_stops v3Machine (v3Ok okH okS) s hok
  refine ⟨h1, ?_⟩
  unfold pipeLoop
  rw [show (v3gMachine okH okS).stop s = true from h2]
  rfl

/-- client side: the decoder expects the version marker itself; the response handler must
accept the parts (`Resp.run`) and every structure must be a sequence -/
theorem v3c_complete (okH okS isSeq : Bytes → Bool) (fx : Bool) (headers : Bytes) (parts : List Part)
    (hh : headers.length < 4294967296) (hp : V3.partsOk parts = true)
    (hH : okH headers = true) (hS : parts.all (fun p => evOk okH okS p.ev) = true)
    (hQ : parts.all (fun p => evOk (fun _ => true) isSeq p.ev) = true)
    (hR : (Resp.run fx {} (.headers headers :: (parts.map Part.ev ++ [.end_]))).toBool = true) :
    (v3cMachine okH okS isSeq fx).fin (V3.feed (V3.init true) (v3Encode headers parts)) = true ∧
    (V3.feed (V3.init true) (v3Encode headers parts)).unused = [] := by
  have e : V3.feed (V3.init true) (v3Encode headers parts)
      = .done (.headers headers :: (parts.map Part.ev ++ [.end_])) [] := by
    have := V3.proc_version_encode headers parts [] hh hp
    simp only [List.append_nil] at this
    simp only [V3.init, if_true, V3.feed_run, List.nil_append]
    exact this
  rw [e]
  refine ⟨?_, rfl⟩
  simp only [v3cMachine, guardMachine, v3Machine, V3.finished, Bool.true_and, v3cOk,
    v3Ok_done okH okS headers parts [] hH hS, v3Ok_done (fun _ => true) isSeq headers parts [] rfl hQ,
    V3.events]
  revert hR
  cases Resp.run fx {} (.headers headers :: (parts.map Part.ev ++ [.end_])) <;> simp [Except.toBool]

theorem v3c_no_overread (okH okS isSeq : Bytes → Bool) (fx : Bool) (headers : Bytes) (parts : List Part)
    (hh : headers.length < 4294967296) (hp : V3.partsOk parts = true)
    (hH : okH headers = true) (hS : parts.all (fun p => evOk okH okS p.ev) = true)
    (hQ : parts.all (fun p => evOk (fun _ => true) isSeq p.ev) = true)
    (hR : (Resp.run fx {} (.headers headers :: (parts.map Part.ev ++ [.end_]))).toBool = true)
    (segs : List Bytes) (q : Bytes) (hw : segs.flatten ++ q = v3Encode headers parts)
    (hq : q ≠ []) :
    (v3cMachine okH okS isSeq fx).stop (feedAll V3.feed (V3.init true) segs) = false ∧
    1 ≤ (v3cMachine okH okS isSeq fx).nrs (feedAll V3.feed (V3.init true) segs) ∧
    (v3cMachine okH okS isSeq fx).nrs (feedAll V3.feed (V3.init true) segs) ≤ q.length := by
  obtain ⟨c1, c2⟩ := v3c_complete okH okS isSeq fx headers parts hh hp hH hS hQ hR
  exact (v3cLaws okH okS isSeq fx).no_overread (V3.init true) _ (v3Wf_init true) c1 c2 segs q hw hq

theorem v3c_zero_exactly_at_end (okH okS isSeq : Bytes → Bool) (fx : Bool) (headers : Bytes) (parts : List Part)
    (hh : headers.length < 4294967296) (hp : V3.partsOk parts = true)
    (hH : okH headers = true) (hS : parts.all (fun p => evOk okH okS p.ev) = true)
    (hQ : parts.all (fun p => evOk (fun _ => true) isSeq p.ev) = true)
    (hR : (Resp.run fx {} (.headers headers :: (parts.map Part.ev ++ [.end_]))).toBool = true)
    (segs : List Bytes) (hne : segs ≠ []) (hw : segs.flatten = v3Encode headers parts) :
    (v3cMachine okH okS isSeq fx).stop (feedAll V3.feed (V3.init true) segs) = true ∧
    (v3cMachine okH okS isSeq fx).fin (feedAll V3.feed (V3.init true) segs) = true := by
  obtain ⟨c1, _⟩ := v3c_complete okH okS isSeq fx headers parts hh hp hH hS hQ hR
  exact ⟨(v3cLaws okH okS isSeq fx).stops_at_end (V3.init true) _ c1 segs hne hw,
    (v3cLaws okH okS isSeq fx).fin_of_all (V3.init true) _ c1 segs hne hw⟩

theorem v3c_loop_consumes_exactly (okH okS isSeq : Bytes → Bool) (fx : Bool) (headers : Bytes) (parts : List Part)
    (hh : headers.length < 4294967296) (hp : V3.partsOk parts = true)
    (hH : okH headers = true) (hS : parts.all (fun p => evOk okH okS p.ev) = true)
    (hQ : parts.all (fun p => evOk (fun _ => true) isSeq p.ev) = true)
    (hR : (Resp.run fx {} (.headers headers :: (parts.map Part.ev ++ [.end_]))).toBool = true)
    (sched : Nat → Nat) (i : Nat) (segs : List Bytes) (q : Bytes)
    (hw : segs.flatten ++ q = v3Encode headers parts) (hq : q ≠ []) :
    pipeLoop (v3cMachine okH okS isSeq fx) sched (q.length + 1) i (feedAll V3.feed (V3.init true) segs) q
      = .finished (V3.feed (V3.init true) (v3Encode headers parts)) [] := by
  obtain ⟨c1, c2⟩ := v3c_complete okH okS isSeq fx headers parts hh hp hH hS hQ hR
  exact (v3cLaws okH okS isSeq fx).loop_from_reads (V3.init true) _ (v3Wf_init true) c1 c2 sched i segs q hw hq

/-- WHY the handler conditions are needed on the client: in whatever state the response
handler has rejected the parts seen so far (`protocol_error` re-raises out of `_read_more`),
the loop is over, with everything not yet read (`r`) left on the pipe. -/
theorem v3c_rejected_stops_early (okH okS isSeq : Bytes → Bool) (fx : Bool) (s : V3)
    (hbad : (Resp.run fx {} s.events).toBool = false)
    (sched : Nat → Nat) (fuel i : Nat) (r : Bytes) :
    pipeLoop (v3cMachine okH okS isSeq fx) sched (fuel + 1) i s r = .finished s r ∧
      (v3cMachine okH okS isSeq fx).fin s = false := by
  have hok : v3cOk okH okS isSeq fx s = false := by simp [v3cOk, hbad]
  obtain ⟨_, h2, h3⟩ := guard_stops v3Machine (v3cOk okH okS isSeq fx) s hok
  refine ⟨?_, h3⟩
  unfold pipeLoop
  rw [show (v3cMachine okH okS isSeq fx).stop s = true from h2]
  rfl

/-- such a state is reachable: a response with two status bytes (`oS oS`) -/
example : (Resp.run true {} (V3.feed (V3.init true)
    (marker3 ++ [0, 0, 0, 2, 100, 101, 111, 83, 111, 83])).events).toBool = false := by decide +kernel

example : v3Wf (.run .bytes [0, 0, 0, 2, 9] [] 6) ∧
    ((V3.run .bytes [0, 0, 0, 2, 9] [] 6).feed [9, 101]).finished = true :=
  ⟨by show extractLP _ = _; decide, by decide +kernel⟩

/-- the conditions are satisfiable with the driver's bencode model: headers `de`, a success
response `oS` + `l2:oke` + one body part -/
example : bencIsDict [100, 101] = true ∧
    ([Part.byte 83, .struct [108, 50, 58, 111, 107, 101], .bytes [1, 2]].all
      (fun p => evOk bencIsDict bencValid p.ev) = true) ∧
    ([Part.byte 83, .struct [108, 50, 58, 111, 107, 101], .bytes [1, 2]].all
      (fun p => evOk (fun _ => true) bencIsList p.ev) = true) ∧
    (Resp.run true {} (.headers [100, 101] ::
      ([Part.byte 83, .struct [108, 50, 58, 111, 107, 101], .bytes [1, 2]].map Part.ev ++ [.end_]))).toBool = true :=
  ⟨by decide +kernel, by decide +kernel, by decide +kernel, by decide +kernel⟩

/-- … and can fail: `x` is not bencode, so `v3s_undecodable_stops_early` applies -/
example : bencValid [120] = false := by decide +kernel

/-! ## protocol 1 / 2 server (`SmartServerRequestProtocolOne.next_read_size`) -/

theorem req_hint_bound (w : List Bytes → Bool) (s : Req) (q : Bytes) (hwf : reqWf s)
    (hnf : s.finished = false) (hfin : (s.feed w q).finished = true) :
    1 ≤ s.nextReadSize ∧ s.nextReadSize + ((s.feed w q).unused.length : Int) ≤ q.length :=
  ((reqLaws w).hint s q hwf hnf hfin).2

theorem req_feed_encode (w : List Bytes → Bool) (args : List Bytes) (body : Option Bytes)
    (hok : Req.argsOk args = true) (hw : w args = body.isSome) :
    Req.feed w (.line []) (reqEncode args body) = .done args body [] := by
  have := Req.feed_init_encode w args body [] hok hw
  simpa using this

theorem req_no_overread (w : List Bytes → Bool) (args : List Bytes) (body : Option Bytes)
    (hok : Req.argsOk args = true) (hwb : w args = body.isSome)
    (segs : List Bytes) (q : Bytes) (hw : segs.flatten ++ q = reqEncode args body) (hq : q ≠ []) :
    (feedAll (Req.feed w) (.line []) segs).nextReadSize ≠ 0 ∧
    1 ≤ (feedAll (Req.feed w) (.line []) segs).nextReadSize ∧
    (feedAll (Req.feed w) (.line []) segs).nextReadSize ≤ q.length := by
  have := (reqLaws w).no_overread (.line []) _ reqWf_init
    (by show (Req.feed w (.line []) _).finished = true; rw [req_feed_encode w _ _ hok hwb]; rfl)
    (by show (Req.feed w (.line []) _).unused = []; rw [req_feed_encode w _ _ hok hwb]; rfl) segs q hw hq
  simpa [reqMachine] using this

theorem req_zero_exactly_at_end (w : List Bytes → Bool) (args : List Bytes) (body : Option Bytes)
    (hok : Req.argsOk args = true) (hwb : w args = body.isSome)
    (segs : List Bytes) (hne : segs ≠ []) (hw : segs.flatten = reqEncode args body) :
    (feedAll (Req.feed w) (.line []) segs).nextReadSize = 0 := by
  have := (reqLaws w).stops_at_end (.line []) _
    (by show (Req.feed w (.line []) _).finished = true; rw [req_feed_encode w _ _ hok hwb]; rfl) segs hne hw
  simpa [reqMachine] using this

theorem req_loop_consumes_exactly (w : List Bytes → Bool) (args : List Bytes) (body : Option Bytes)
    (hok : Req.argsOk args = true) (hwb : w args = body.isSome)
    (sched : Nat → Nat) (i : Nat) (segs : List Bytes) (q : Bytes)
    (hw : segs.flatten ++ q = reqEncode args body) (hq : q ≠ []) :
    pipeLoop (reqMachine w) sched (q.length + 1) i (feedAll (Req.feed w) (.line []) segs) q
      = .finished (.done args body []) [] := by
  have := (reqLaws w).loop_from_reads (.line []) _ reqWf_init
    (by show (Req.feed w (.line []) _).finished = true; rw [req_feed_encode w _ _ hok hwb]; rfl)
    (by show (Req.feed w (.line []) _).unused = []; rw [req_feed_encode w _ _ hok hwb]; rfl) sched i segs q hw hq
  have e : (reqMachine w).feed (.line []) _ = _ := req_feed_encode w args body hok hwb
  rw [e] at this
  exact this

example : reqWf (.line [104]) ∧ ((Req.line [104]).feed (fun _ => false) [105, 10]).finished = true :=
  ⟨by simp [reqWf], by decide⟩

/-! ## a whole request on the server's pipe: `_build_protocol` + `_serve_one_request_unguarded`

`serveMachine`: `_get_line` (`read_bytes(1)` until the newline), dispatch on the line
(v3 marker / v2 marker / a protocol 1 argument line, which is re-fed to the decoder), then
the loop on the chosen decoder.  `WellFormedRequest` (Lemmas/C30Serve.lean) = what the real
client encoders of the three protocol versions write. -/

theorem serve_no_overread (w : List Bytes → Bool) (okH okS : Bytes → Bool) (msg : Bytes)
    (hm : WellFormedRequest w okH okS msg)
    (segs : List Bytes) (q : Bytes) (hw : segs.flatten ++ q = msg) (hq : q ≠ []) :
    let s := feedAll (serveMachine w okH okS).feed serveInit segs
    (serveMachine w okH okS).stop s = false ∧ 1 ≤ (serveMachine w okH okS).nrs s ∧
      (serveMachine w okH okS).nrs s ≤ q.length :=
  let ⟨c1, c2⟩ := serve_complete hm
  (serveLaws w okH okS).no_overread serveInit msg serveWf_init c1 c2 segs q hw hq

theorem serve_done_exactly_at_end (w : List Bytes → Bool) (okH okS : Bytes → Bool) (msg : Bytes)
    (hm : WellFormedRequest w okH okS msg)
    (segs : List Bytes) (hne : segs ≠ []) (hw : segs.flatten = msg) :
    (serveMachine w okH okS).stop (feedAll (serveMachine w okH okS).feed serveInit segs) = true ∧
    (serveMachine w okH okS).fin (feedAll (serveMachine w okH okS).feed serveInit segs) = true :=
  ⟨(serveLaws w okH okS).stops_at_end serveInit msg (serve_complete hm).1 segs hne hw,
   (serveLaws w okH okS).fin_of_all serveInit msg (serve_complete hm).1 segs hne hw⟩

/-- the server reads exactly the request, whatever the version, under every short-read
schedule, starting from the very first byte (the line reader included); nothing is left to
push back, so the next request on the same pipe starts on its own first byte -/
theorem serve_loop_consumes_exactly (w : List Bytes → Bool) (okH okS : Bytes → Bool) (msg : Bytes)
    (hm : WellFormedRequest w okH okS msg)
    (sched : Nat → Nat) (i : Nat) (segs : List Bytes) (q : Bytes)
    (hw : segs.flatten ++ q = msg) (hq : q ≠ []) :
    pipeLoop (serveMachine w okH okS) sched (q.length + 1) i
        (feedAll (serveMachine w okH okS).feed serveInit segs) q
      = .finished ((serveMachine w okH okS).feed serveInit msg) [] ∧
    (serveMachine w okH okS).fin ((serveMachine w okH okS).feed serveInit msg) = true ∧
    (serveMachine w okH okS).unused ((serveMachine w okH okS).feed serveInit msg) = [] :=
  let ⟨c1, c2⟩ := serve_complete hm
  ⟨(serveLaws w okH okS).loop_from_reads serveInit msg serveWf_init c1 c2 sched i segs q hw hq, c1, c2⟩

/-- the same with the medium's cap on every read (`min(hint, _MAX_READ_SIZE)`), any cap ≥ 1 -/
theorem serve_capped_loop_consumes_exactly (w : List Bytes → Bool) (okH okS : Bytes → Bool)
    (cap : Nat) (hc : 1 ≤ cap) (msg : Bytes) (hm : WellFormedRequest w okH okS msg)
    (sched : Nat → Nat) (i : Nat) (segs : List Bytes) (q : Bytes)
    (hw : segs.flatten ++ q = msg) (hq : q ≠ []) :
    pipeLoop (capMachine (serveMachine w okH okS) cap) sched (q.length + 1) i
        (feedAll (serveMachine w okH okS).feed serveInit segs) q
      = .finished ((serveMachine w okH okS).feed serveInit msg) [] :=
  let ⟨c1, c2⟩ := serve_complete hm
  ((serveLaws w okH okS).cap cap hc).loop_from_reads serveInit msg serveWf_init c1 c2 sched i segs q hw hq

/-- the client hangs up inside a request: the server reads what was sent, gets EOF, and has
not reported completion at any point (no request is dispatched twice / half) -/
theorem serve_truncated_eof (w : List Bytes → Bool) (okH okS : Bytes → Bool) (msg : Bytes)
    (hm : WellFormedRequest w okH okS msg)
    (sched : Nat → Nat) (i : Nat) (segs : List Bytes) (avail q : Bytes)
    (hw : segs.flatten ++ (avail ++ q) = msg) (hq : q ≠ []) :
    ∃ s', pipeLoopEof (serveMachine w okH okS) sched (avail.length + 1) i
        (feedAll (serveMachine w okH okS).feed serveInit segs) avail = .eof s' ∧
      (serveMachine w okH okS).stop s' = false ∧ (serveMachine w okH okS).fin s' = false :=
  let ⟨c1, c2⟩ := serve_complete hm
  (serveLaws w okH okS).eof_from_reads serveInit msg serveWf_init c1 c2 sched i segs avail q hw hq

example : WellFormedRequest (fun _ => false) bencIsDict bencValid
    (v3Encode [100, 101] [.struct [108, 53, 58, 104, 101, 108, 108, 111, 101]]) :=
  .v3 _ _ (by decide) (by decide) (by decide +kernel) (by decide +kernel)
example : WellFormedRequest (fun _ => true) bencIsDict bencValid
    (request2 ++ reqEncode [[104, 105]] (some [1, 2, 3])) :=
  .v2 _ _ (by decide) rfl
example : WellFormedRequest (fun _ => false) bencIsDict bencValid (reqEncode [[104, 105]] none) :=
  .v1 _ _ (by decide) rfl (by decide) (by decide)

/-! ## client, protocol 1 / 2: `read_response_tuple` (`read_line`s) then the body reader -/

theorem client1_no_overread (bk : BodyKind) (msg : Bytes) (hm : WellFormedResponse1 bk msg)
    (segs : List Bytes) (q : Bytes) (hw : segs.flatten ++ q = msg) (hq : q ≠ []) :
    let s := feedAll (client1 bk).feed client1Init segs
    (client1 bk).stop s = false ∧ 1 ≤ (client1 bk).nrs s ∧ (client1 bk).nrs s ≤ q.length :=
  let ⟨c1, c2⟩ := client1_complete hm
  (client1Laws bk).no_overread client1Init msg client1Wf_init c1 c2 segs q hw hq

theorem client1_loop_consumes_exactly (bk : BodyKind) (cap : Nat) (hc : 1 ≤ cap) (msg : Bytes)
    (hm : WellFormedResponse1 bk msg)
    (sched : Nat → Nat) (i : Nat) (segs : List Bytes) (q : Bytes)
    (hw : segs.flatten ++ q = msg) (hq : q ≠ []) :
    pipeLoop (client1 bk) sched (q.length + 1) i (feedAll (client1 bk).feed client1Init segs) q
      = .finished ((client1 bk).feed client1Init msg) [] ∧
    pipeLoop (capMachine (client1 bk) cap) sched (q.length + 1) i
        (feedAll (client1 bk).feed client1Init segs) q
      = .finished ((client1 bk).feed client1Init msg) [] ∧
    (client1 bk).fin ((client1 bk).feed client1Init msg) = true :=
  let ⟨c1, c2⟩ := client1_complete hm
  ⟨(client1Laws bk).loop_from_reads client1Init msg client1Wf_init c1 c2 sched i segs q hw hq,
   ((client1Laws bk).cap cap hc).loop_from_reads client1Init msg client1Wf_init c1 c2 sched i segs q hw hq,
   c1⟩

theorem client2_no_overread (bk : BodyKind) (msg : Bytes) (hm : WellFormedResponse2 bk msg)
    (segs : List Bytes) (q : Bytes) (hw : segs.flatten ++ q = msg) (hq : q ≠ []) :
    let s := feedAll (client2 bk).feed client2Init segs
    (client2 bk).stop s = false ∧ 1 ≤ (client2 bk).nrs s ∧ (client2 bk).nrs s ≤ q.length :=
  let ⟨c1, c2⟩ := client2_complete hm
  (client2Laws bk).no_overread client2Init msg client2Wf_init c1 c2 segs q hw hq

theorem client2_loop_consumes_exactly (bk : BodyKind) (cap : Nat) (hc : 1 ≤ cap) (msg : Bytes)
    (hm : WellFormedResponse2 bk msg)
    (sched : Nat → Nat) (i : Nat) (segs : List Bytes) (q : Bytes)
    (hw : segs.flatten ++ q = msg) (hq : q ≠ []) :
    pipeLoop (client2 bk) sched (q.length + 1) i (feedAll (client2 bk).feed client2Init segs) q
      = .finished ((client2 bk).feed client2Init msg) [] ∧
    pipeLoop (capMachine (client2 bk) cap) sched (q.length + 1) i
        (feedAll (client2 bk).feed client2Init segs) q
      = .finished ((client2 bk).feed client2Init msg) [] ∧
    (client2 bk).fin ((client2 bk).feed client2Init msg) = true :=
  let ⟨c1, c2⟩ := client2_complete hm
  ⟨(client2Laws bk).loop_from_reads client2Init msg client2Wf_init c1 c2 sched i segs q hw hq,
   ((client2Laws bk).cap cap hc).loop_from_reads client2Init msg client2Wf_init c1 c2 sched i segs q hw hq,
   c1⟩

/-- the server dies inside a response: the client's loop ends in EOF (`ConnectionResetError`)
without having reported a complete response -/
theorem client_truncated_eof (bk : BodyKind) (msg : Bytes)
    (sched : Nat → Nat) (i : Nat) (avail q : Bytes) (hw : avail ++ q = msg) (hq : q ≠ []) :
    (WellFormedResponse1 bk msg →
      ∃ s', pipeLoopEof (client1 bk) sched (avail.length + 1) i client1Init avail = .eof s' ∧
        (client1 bk).fin s' = false) ∧
    (WellFormedResponse2 bk msg →
      ∃ s', pipeLoopEof (client2 bk) sched (avail.length + 1) i client2Init avail = .eof s' ∧
        (client2 bk).fin s' = false) := by
  constructor
  · intro hm
    obtain ⟨c1, c2⟩ := client1_complete hm
    obtain ⟨s', h1, _, h3⟩ := (client1Laws bk).eof_from_reads client1Init msg client1Wf_init c1 c2
      sched i [] avail q (by simpa using hw) hq
    exact ⟨s', h1, h3⟩
  · intro hm
    obtain ⟨c1, c2⟩ := client2_complete hm
    obtain ⟨s', h1, _, h3⟩ := (client2Laws bk).eof_from_reads client2Init msg client2Wf_init c1 c2
      sched i [] avail q (by simpa using hw) hq
    exact ⟨s', h1, h3⟩

example : WellFormedResponse2 .bulk
    (response2 ++ ([115, 117, 99, 99, 101, 115, 115] ++ 10 :: ([111, 107] ++ 10 :: lpEncode [7, 7]))) :=
  .mk _ _ _ (by decide) (by decide) (.bulk _)
example : WellFormedResponse1 .none ([111, 107] ++ 10 :: []) := .mk _ _ (by decide) .none

/-! ## the peer closes the pipe inside a message: the body / v3 readers never report completion -/

theorem lp_truncated_eof (body : Bytes) (sched : Nat → Nat) (i : Nat) (segs : List Bytes)
    (avail q : Bytes) (hw : segs.flatten ++ (avail ++ q) = lpEncode body) (hq : q ≠ []) :
    ∃ s', pipeLoopEof lpMachine sched (avail.length + 1) i (feedAll LP.feed LP.init segs) avail
        = .eof s' ∧ s'.finished = false := by
  obtain ⟨s', h1, _, h3⟩ := lpLaws.eof_from_reads LP.init _ lpWf_init
    (by show (LP.feed LP.init _).finished = true; rw [lp_feed_encode]; rfl)
    (by show (LP.feed LP.init _).unused = []; rw [lp_feed_encode]; rfl) sched i segs avail q hw hq
  exact ⟨s', h1, h3⟩

theorem ck_truncated_eof (chunks : List Bytes) (err : Option (List Bytes)) (sched : Nat → Nat)
    (i : Nat) (segs : List Bytes) (avail q : Bytes)
    (hw : segs.flatten ++ (avail ++ q) = ckEncode chunks err) (hq : q ≠ []) :
    ∃ s', pipeLoopEof ckMachine sched (avail.length + 1) i (feedAll CK.feed CK.init segs) avail
        = .eof s' ∧ s'.finished = false := by
  obtain ⟨s', h1, _, h3⟩ := ckLaws.eof_from_reads CK.init _ ckWf_init
    (by simp only [ckMachine]; rw [ck_feed_encode]; rfl)
    (by simp only [ckMachine]; rw [ck_feed_encode]; rfl) sched i segs avail q hw hq
  exact ⟨s', h1, h3⟩

theorem v3c_truncated_eof (okH okS isSeq : Bytes → Bool) (fx : Bool) (headers : Bytes) (parts : List Part)
    (hh : headers.length < 4294967296) (hp : V3.partsOk parts = true)
    (hH : okH headers = true) (hS : parts.all (fun p => evOk okH okS p.ev) = true)
    (hQ : parts.all (fun p => evOk (fun _ => true) isSeq p.ev) = true)
    (hR : (Resp.run fx {} (.headers headers :: (parts.map Part.ev ++ [.end_]))).toBool = true)
    (sched : Nat → Nat) (i : Nat) (segs : List Bytes) (avail q : Bytes)
    (hw : segs.flatten ++ (avail ++ q) = v3Encode headers parts) (hq : q ≠ []) :
    ∃ s', pipeLoopEof (v3cMachine okH okS isSeq fx) sched (avail.length + 1) i
        (feedAll V3.feed (V3.init true) segs) avail = .eof s' ∧
      (v3cMachine okH okS isSeq fx).stop s' = false := by
  obtain ⟨c1, c2⟩ := v3c_complete okH okS isSeq fx headers parts hh hp hH hS hQ hR
  obtain ⟨s', h1, h2, _⟩ := (v3cLaws okH okS isSeq fx).eof_from_reads (V3.init true) _
    (v3Wf_init true) c1 c2 sched i segs avail q hw hq
  exact ⟨s', h1, h2⟩

end BreezyVerif.C30
