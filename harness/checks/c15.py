"""C15 — shelving and unshelving restore exactly the shelved changes.

Mechanism: breezy/shelf.py ShelfCreator (iter_shelvable, shelve_rename /
shelve_creation / shelve_deletion / shelve_content_change / shelve_lines /
shelve_modify_target, write_shelf, transform), Unshelver.from_tree_and_shelf /
make_merger (three-way merge of the stored preview tree into the working tree
with the shelf's base revision as BASE), ShelfManager (new_shelf / last_shelf /
active_shelves / get_shelf_ids / delete_shelf), and the hunk selection of
breezy/shelf_ui.py Shelver._select_hunks (driven with scripted answers).

Model: Model/C15.lean.  Id-keyed trees whose file content is a list of chunk
codes (gap, hunk, gap, ... — the segmentation of the basis/working text pair by
the diff's hunks).  `shelveEntry` gives, per file id, the working-tree entry
after shelving and the entry of the stored shelf tree; `mergeEntry` is the
per-attribute three-way merge (every attribute through C18.threeWay, chunk-wise
for two texts with the same segmentation); `shelve` = write_shelf (with the
closedness check of the repaired code when the probed `closedCheck` is set:
ShelveErr.unclosed) + work transform (refused when the result is not a
well-formed tree); `unshelveTree` = read the stored tree back (possible only
when it is a tree) and merge3 BASE THIS OTHER id by id; `shelveMissing` /
`unshelveMissing` = the versioned-but-missing set; `Mgr.*` is the shelf-id
allocator over the directory listing and `Mgr.runC` the shelves with their
payload (compared with what each live shelf of the long stream holds).

T2: random 2a / knit-era working trees (dirs, an empty dir, multi-hunk texts,
symlinks, exec bits) + 2..6 pending changes made through the real WorkingTree
API (edit, edit with >= 2 distant hunks, retarget, rename, move, name swap,
move into a newly added directory, all children moved out of a directory that
becomes a file, add file/dir/symlink, delete by remove /
rm (missing) / remove --keep, kind changes incl. file -> dir and dir -> file,
chmod).  The atomic shelvable items are what the
real `iter_shelvable` yields, a `modify text` being split into the hunks of the
real diff.  EVERY subset of the items (<= 6 items; larger sets sampled) is
shelved on a fresh copy through ShelfCreator (+ scripted Shelver._select_hunks
for partial texts), then: dump of the working tree, dump of the stored shelf
tree, shelf list; unshelve through Unshelver.make_merger().do_merge(), dump,
shelf list.  All three dumps, the versioned-but-missing sets after shelve and
after unshelve, accept/reject and the conflict count are compared with the
Lean model (stored tree and unshelve result only for closed selections; for the
others the model's answer is "unreadable").  A second stream drives one
ShelfManager with random shelve / delete / unshelve / stray-file sequences and
compares ids, listings and the parsing of shelf file names with `Mgr`; a third (run first: corpus/C15 + per
seed) drives a real ShelfManager through >= 12 shelves with interleaved deletes across the 9 -> 10 id
boundary and checks after every step that a new id is never the id of a live shelf, that every live shelf
still holds exactly the change shelved under its id (message + stored text read back), that last_shelf()
is the numerically largest live id and that active_shelves() is numerically sorted.
git working trees: shelving is refused (ShelvingUnsupported) — checked to leave
the tree unchanged.
Oracle (no model): after shelving, every id has the basis value for each
selected aspect and the working value for every other aspect (texts: basis +
unselected hunks spliced by the harness's own code); the versioned-but-missing
files are the unselected ones; the real iter_changes reports exactly the ids
that still differ from the basis; nothing else on disk changed; EVERY accepted
selection — closed or not — must unshelve: the dump equals the dump before
shelving, the versioned-but-missing set is the same, iter_changes is
the same list as before shelving, no conflicts, no new unversioned files; a refused
selection leaves tree, missing set and iter_changes untouched and must not be
closed; the new shelf id is not among the active ones and exceeds them,
listing = before + {id}, deletion removes exactly that id, the other shelves
keep their message and (long stream) the change shelved under their id.
A tree without commits (run_empty_basis): every subset of five additions,
oracle only.  The four variant probes are themselves oracle cases: a probe that
selects a defective behaviour is reported as a violation with its input.

OPEN FINDINGS on /repo HEAD (ctx.violation with a family computed from the
failing input; /repo exits 1 until they are triaged; patches and repro
scripts under /var/tmp/imp-C15C16):
  unclosed-selection-accepted           the tree to be stored (basis + selected changes, computed by the harness) is
                                        not a tree (a file added in an added directory without the directory, a move
                                        into an added directory, one half of a name swap, a removed directory without
                                        its removed children, a new file on the path of a removed one without the
                                        removal): the selection is accepted, the changes leave the working tree, and the
                                        shelf cannot be read (NoFinalPath: data loss), merges with conflicts, or restores
                                        a different tree.  Model: Variant.closedCheck (probed), ShelveErr.unclosed,
                                        unclosed_accepted_witness.  One sub-case is refused by accident: when the tree
                                        to be stored has an entry below a non-directory (a directory emptied by moves
                                        and replaced by a file, kind change selected without the moves),
                                        resolve_conflicts crashes with AttributeError ('DirStateRevisionTree' has no
                                        supports_setting_file_ids) before anything is applied — modelled literally
                                        (ShelveErr.resolveCrash, compared), counted, not a violation (tree unchanged).
  missing-file-unversioned-by-unshelve  `rm t; shelve; unshelve`: t was versioned-but-missing, afterwards it is
                                        unversioned (the stored tree cannot say "versioned, no contents"); classifier:
                                        the only difference after unshelve is that selected deletions of missing files
                                        lost their versioning.  Model: unshelveMissing, missing_restored_iff,
                                        missing_unversioned_witness.
  entangled-missing-file                a versioned file that is missing from disk AND whose inventory slot is not simply
                                        "its basis place" (it was renamed / swapped / moved into an added directory
                                        before it went missing, or its directory has been replaced by a file): the
                                        transforms do not see the slot.  Observed: `mv a tmp; mv b a; mv tmp b; rm b`,
                                        shelve the rename of the other file -> accepted, two inventory entries for one
                                        path, the tree cannot be opened; `rm -r dir; echo > dir` with a missing child,
                                        shelve --all -> TransformRenameFailed (ENOTDIR); a missing file below an added
                                        directory, shelve the directory's addition -> ImmortalPendingDeletion AFTER the
                                        directory was removed.  Classifier: entangled_missing(an) non-empty and (a closed
                                        selection refused | the remaining tree is ill-formed only through such a slot
                                        and the code went ahead).  These scenarios are not compared with the model.
  empty-basis-shelf-unreadable          tree without commits: `add f; shelve --all; unshelve` fails with NoFinalPath (the
                                        root stored by write_shelf has no name), f is lost; classifier: basis without
                                        root, closed non-empty selection, NoFinalPath.  Oracle only.

Defects found by this check and repaired in /repo (a282db7, 1264e86, baa43bc); they are
no longer classified: if one returns it is a plain VIOLATION (the "fix reverted"
mutants below).  The model keeps a Variant flag for each and the flags are
PROBED on the code under test (all three select the repaired behaviour on HEAD,
so `unshelve_restores_fixed` is the theorem that applies; the *_witness
theorems record the old failing inputs):
  executable bit dropped by shelve   a shelved addition / deletion / kind change re-created or stored a file
                                     through create_from_tree without its executable bit
  uncommitted chmod lost on unshelve Merge3Merger._entries3 read THIS's executable bit from the working tree's
                                     recorded inventory entry
  deletion path reoccupied           shelve_deletion took another versioned file at the deleted file's old path
                                     for a kept copy (existing_path): shelve --all refused, or an inventory with
                                     two entries for one path
  unshelve onto a replaced path      PreviewTree._path2trans_id resolved a path to a deleted entry although a
                                     new entry had the name
Not the property (counted in the evidence only): a refused selection leaves
its already written shelf file behind (stale-shelf-left-by-refused-transform).

Mutants this was built against (scratch worktree; all caught by the oracle with
a concrete input unless noted): shelve_rename restoring names[1]; new_shelf =
len(active)+1 (id collision after a deletion); shelve_modify_target storing the
basis target; Shelver._select_hunks without the `selected = not selected`
inversion; active_shelves unsorted (last_shelf wrong); active_shelves sorting the file NAMES as strings (ids 10.. before
2..: with ten live shelves id 10 is handed out again and shelf 10 overwritten — oracle, corpus/C15/eleven-shelves.json); shelve_deletion with
`version = versioned[1]`; _inverse_lines returning the whole working text
(caught by the stored-tree oracle / model comparison only: the restore itself
still works); the two fix: commits reverted (a282db7 -> plain VIOLATION "after shelving the tree is not ...
exec" / "cannot be read"; 1264e86 -> plain VIOLATION "unshelving ... does not restore it ... exec").  Equivalent, not caught by design: Merge3(new, work, target)
with the two sides swapped.  Harmless rewrite kept clean: shelve_change as a
dispatch table, active_shelves as a comprehension.
Second round (against /repo + c15-all.diff, where only the missing-file family is left): the root exemption of the
closedness check dropped (plain VIOLATION "empty basis: a closed selection was refused"); the check itself dropped =
/repo HEAD (family unclosed-selection-accepted: probe + 13..22 scenario cases per seed); the Unshelver root repair dropped
= /repo HEAD (family empty-basis-shelf-unreadable).
"""
import io
import os
import random
import shutil
import stat

from vlib import env

THEOREMS = [
    "delta_empty_iff", "shelveWork_delta", "shelveShelf_delta", "shelve_chunks", "hunk_partition",
    "shelve_removes_exactly", "shelve_values", "shelve_nothing", "shelve_all", "shelve_all_eq_basis",
    "unshelve_restores", "unshelve_restores_fixed", "shelve_ok_closed", "shelve_unshelve_restores",
    "missing_restored_iff", "missing_unversioned_witness", "unclosed_accepted_witness",
    "exec_dropped_witness", "stale_exec_witness", "reoccupied_witness",
    "Mgr.nextId_fresh", "Mgr.delete_keeps_others", "Mgr.shelf_ids_unique", "Mgr.survives", "Mgr.new_after_new",
    "Mgr.id_reuse_witness",
]
RULE = ("scenario = (tree format, random basis tree, 2..6 random pending changes, two of them forced so that every kind "
        "of change — incl. >= 2 distant hunks, name swaps, moves into added directories, missing files, dir <-> file — "
        "appears in every run); case = (scenario, subset of the atomic shelvable items: add / delete / rename / kind / "
        "target / each text hunk); all subsets of <= 6 items, sampled above, closed or not; non-trivial = the subset is "
        "non-empty; distinct by (basis, working tree, missing set, selection)")
ASSUMPTIONS = [
    "the text merge synchronises on the unchanged gaps between hunks, i.e. merging two texts that differ from the basis in "
    "disjoint hunks is chunk-wise (checked per case: the real shelf text and the real unshelved text are compared with the model)",
    "a versioned file that is missing from disk is an absent entry plus a bit in a separate `missing` set (model: shelveMissing / "
    "unshelveMissing; oracle: the set of versioned-but-missing ids after shelve and after unshelve); an added file that is "
    "missing, and a `remove --keep` copy that was edited, are not generated",
    "for a selection that is not closed (the tree to be stored is not a tree) the model only says: refused (closedCheck) or "
    "accepted with the remaining working tree and an unreadable shelf (`?`); what the real code then does on unshelve "
    "(NoFinalPath, conflicts, a different tree) is judged by the oracle alone (family unclosed-selection-accepted)",
    "a tree without commits (no root in the basis) is outside the model's trees: oracle-only stream run_empty_basis",
    "git working trees refuse shelving (ShelvingUnsupported): checked, nothing else to verify there",
]
TRUSTED = [
    "the recorded executable bits of the working tree after shelving (dirstate stat-cache state) are an observed input of the "
    "merge model, universally quantified in the theorems",
    "the harness's segmentation of a text pair into gap / hunk chunks from the real diff's hunks, and its decoding of chunk codes",
    "C18.threeWay is the model of Merge3Merger._three_way (tied by C18); the merge model of C15 has the structure of C17's",
]

ROOT = b"TREE_ROOT"
NAMES = ["a", "b", "c", "d", "e", "f", "g", "h", "i", "j", "k", "l"]


# --------------------------------------------------------------------------
# texts

def base_text(rng, tag):
    style = rng.random()
    n = rng.choice([0, 1, 3, 12, 24, 36, 40])
    if style < 0.65:
        lines = [b"%s line %d\n" % (tag, i) for i in range(n)]
    elif style < 0.85:
        # many repeated lines: hard for patience diff / merge3 to synchronise on
        lines = [rng.choice([b"x\n", b"y\n", b"\n"]) for i in range(n)]
    else:
        lines = [(b"%s %d\n" % (tag, i)) if i % 5 else b"}\n" for i in range(n)]
    if lines and rng.random() < 0.15:
        lines[-1] = lines[-1].rstrip(b"\n")
    return lines


def edit_text(rng, lines, tag):
    """change 1..3 regions of the text (replace / insert / delete)"""
    lines = list(lines)
    k = rng.choice([1, 1, 2, 2, 3])
    for j in range(k):
        if not lines:
            lines = [b"new %s %d\n" % (tag, j)]
            continue
        pos = rng.randrange(len(lines) + 1)
        r = rng.random()
        if r < 0.4 and pos < len(lines):
            nl = b"\n" if lines[pos].endswith(b"\n") else b""
            lines[pos] = b"changed %s %d" % (tag, j) + nl
        elif r < 0.7:
            ins = [b"ins %s %d.%d\n" % (tag, j, q) for q in range(rng.randint(1, 2))]
            if pos == len(lines) and lines and not lines[-1].endswith(b"\n"):
                pos -= 1
            lines[pos:pos] = ins
        elif pos < len(lines):
            del lines[pos:pos + rng.randint(1, 2)]
        else:
            lines[pos:pos] = [b"x\n"]
    return lines


# --------------------------------------------------------------------------
# scenario = a real working tree with pending changes

def _join(d, rel):
    return os.path.join(d, rel) if rel else d


class Builder:
    """applies ops to a real working tree and keeps id -> path bookkeeping"""

    def __init__(self, wt, rng):
        self.wt, self.rng, self.d = wt, rng, wt.basedir
        self.n = 0
        self.ops = []
        self.basis_ids = set()

    def fresh(self, p):
        self.n += 1
        return b"%s%d" % (p, self.n)

    def paths(self):
        with self.wt.lock_read():
            return {ie.file_id: (path, ie.kind, ie.parent_id) for path, ie in self.wt.iter_entries_by_dir()}

    def disk_kind(self, path):
        p = _join(self.d, path)
        if os.path.islink(p):
            return "symlink"
        if os.path.isdir(p):
            return "directory"
        if os.path.isfile(p):
            return "file"
        return None

    def dirs(self, exclude_under=None):
        out = []
        for fid, (path, kind, parent) in self.paths().items():
            # (a versioned FILE whose place on disk is now taken by a directory is not a directory of the tree:
            # moving something into it makes the compiled inventory panic)
            if kind != "directory" or self.disk_kind(path) != "directory":
                continue
            if exclude_under is not None and (path == exclude_under or path.startswith(exclude_under + "/")):
                continue
            out.append(path)
        return sorted(out)

    def free_name(self, dirpath):
        used = set(os.listdir(_join(self.d, dirpath)))
        cand = [n for n in NAMES if n not in used]
        return self.rng.choice(cand) if cand else None

    def add(self, kind=None, parent=None, exec_=None):
        rng = self.rng
        parent = rng.choice(self.dirs()) if parent is None else parent
        name = self.free_name(parent)
        if name is None:
            return None
        path = name if parent == "" else parent + "/" + name
        kind = kind or rng.choice(["file", "file", "file", "directory", "symlink"])
        p = _join(self.d, path)
        if kind == "file":
            fid = self.fresh(b"f")
            with open(p, "wb") as f:
                f.write(b"".join(base_text(rng, fid)))
            if exec_ if exec_ is not None else rng.random() < 0.35:
                os.chmod(p, 0o755)
        elif kind == "directory":
            fid = self.fresh(b"d")
            os.mkdir(p)
        else:
            fid = self.fresh(b"l")
            os.symlink("tgt-%s" % fid.decode(), p)
        self.wt.add([path], ids=[fid])
        self.ops.append("add-" + kind)
        return path

    def pick(self, kinds, allow_root=False):
        c = [(fid, path) for fid, (path, kind, parent) in sorted(self.paths().items())
             if (allow_root or path != "") and self.disk_kind(path) in kinds]
        return self.rng.choice(c) if c else (None, None)

    def edit(self):
        fid, path = self.pick(["file"])
        if path is None:
            return None
        p = _join(self.d, path)
        old = open(p, "rb").read().splitlines(True)
        new = edit_text(self.rng, old, b"e%d" % self.n)
        self.n += 1
        if new == old:
            return None
        mode = os.stat(p).st_mode
        with open(p, "wb") as f:
            f.write(b"".join(new))
        os.chmod(p, stat.S_IMODE(mode))
        self.ops.append("edit")
        return path

    def edit_multi(self):
        """>= 2 distant hunks in one text (what the both-sides branch of the chunk-wise merge needs)"""
        c = [(fid, path) for fid, (path, kind, parent) in sorted(self.paths().items())
             if path != "" and self.disk_kind(path) == "file"]
        c = [(fid, path) for fid, path in c
             if len(open(_join(self.d, path), "rb").read().splitlines()) >= 20
             and b"\x00" not in open(_join(self.d, path), "rb").read()]
        if not c:
            return None
        fid, path = self.rng.choice(c)
        p = _join(self.d, path)
        lines = open(p, "rb").read().splitlines(True)
        n = len(lines)
        spots = [1, n // 2, n - 3] if self.rng.random() < 0.5 else [2, n - 2]
        for j, pos in enumerate(reversed(spots)):
            r = self.rng.random()
            if r < 0.5:
                lines[pos] = b"multi %d.%d\n" % (self.n, j)
            elif r < 0.8:
                lines[pos:pos] = [b"multi-ins %d.%d\n" % (self.n, j)]
            else:
                del lines[pos]
        self.n += 1
        mode = os.stat(p).st_mode
        with open(p, "wb") as f:
            f.write(b"".join(lines))
        os.chmod(p, stat.S_IMODE(mode))
        self.ops.append("edit-multi")
        return path

    def swap(self):
        """exchange the places of two versioned entries (two renames that depend on each other)"""
        c = [(fid, path) for fid, (path, kind, parent) in sorted(self.paths().items())
             if path != "" and self.disk_kind(path) in ("file", "symlink")]
        if len(c) < 2:
            return None
        (f1, p1), (f2, p2) = self.rng.sample(c, 2)
        tmp = "swap-tmp-%d" % self.n
        self.n += 1
        self.wt.rename_one(p1, tmp)
        self.wt.rename_one(p2, p1)
        self.wt.rename_one(tmp, p2)
        self.ops.append("swap")
        return p1

    def move_into_new_dir(self):
        """add a directory and move an existing entry into it (the move depends on the addition)"""
        fid, path = self.pick(["file", "symlink"])
        if path is None:
            return None
        nd = self.add(kind="directory")
        if nd is None or nd == path or nd.startswith(path + "/"):
            return None
        self.wt.rename_one(path, nd + "/" + os.path.basename(path))
        self.ops.append("move-into-new-dir")
        return path

    def vacate_dir_to_file(self):
        """move every child of a directory into a newly added directory and put a file in the emptied directory's
        place: the kind change depends on the moves"""
        c = []
        for fid, (path, kind, parent) in sorted(self.paths().items()):
            if path == "" or kind != "directory" or self.disk_kind(path) != "directory":
                continue
            kids = os.listdir(_join(self.d, path))
            if kids and all(self.disk_kind(path + "/" + k) in ("file", "symlink") for k in kids):
                c.append(path)
        if not c:
            return None
        path = self.rng.choice(c)
        nd = self.add(kind="directory")
        if nd is None or nd == path or nd.startswith(path + "/"):
            return None
        for k in sorted(os.listdir(_join(self.d, path))):
            if self.wt.is_versioned(path + "/" + k):
                self.wt.rename_one(path + "/" + k, nd + "/" + k)
            else:
                os.unlink(_join(self.d, path + "/" + k))
        os.rmdir(_join(self.d, path))
        with open(_join(self.d, path), "wb") as f:
            f.write(b"was a dir with children\n")
        self.ops.append("vacate-dir-to-file")
        return path

    def delete_missing(self):
        return self.delete(mode="missing")

    def kind_file_dir(self):
        return self.kind(want="file-dir")

    def kind_dir_file(self):
        return self.kind(want="dir-file")

    def binary(self):
        fid, path = self.pick(["file"])
        if path is None:
            return None
        with open(_join(self.d, path), "ab") as f:
            f.write(b"\x00bin%d\n" % self.n)
        self.n += 1
        self.ops.append("edit-binary")
        return path

    def retarget(self):
        fid, path = self.pick(["symlink"])
        if path is None:
            return None
        p = _join(self.d, path)
        t = os.readlink(p)
        os.unlink(p)
        os.symlink(t + "2", p)
        self.ops.append("retarget")
        return path

    def rename(self):
        fid, path = self.pick(["file", "directory", "symlink"])
        if path is None:
            return None
        parent = os.path.dirname(path)
        name = self.free_name(parent)
        if name is None:
            return None
        self.wt.rename_one(path, name if parent == "" else parent + "/" + name)
        self.ops.append("rename")
        return path

    def move(self):
        fid, path = self.pick(["file", "directory", "symlink"])
        if path is None:
            return None
        cand = [d for d in self.dirs(exclude_under=path) if d != os.path.dirname(path)
                and not os.path.lexists(_join(self.d, (d + "/" if d else "") + os.path.basename(path)))]
        if not cand:
            return None
        d = self.rng.choice(cand)
        newname = os.path.basename(path) if self.rng.random() < 0.7 else (self.free_name(d) or os.path.basename(path))
        self.wt.rename_one(path, (d + "/" if d else "") + newname)
        self.ops.append("move")
        return path

    def pristine(self, fid, path):
        """the file is in the basis at the same path with the same content and mode"""
        bt = self.wt.basis_tree()
        with bt.lock_read():
            try:
                if bt.id2path(fid) != path:
                    return False
            except Exception:  # noqa
                return False
            p = _join(self.d, path)
            k = self.disk_kind(path)
            if k != bt.kind(path):
                return False
            if k == "file":
                return (open(p, "rb").read() == bt.get_file_text(path)
                        and bool(os.stat(p).st_mode & 0o100) == bool(bt.is_executable(path)))
            if k == "symlink":
                return os.readlink(p) == bt.get_symlink_target(path)
            return False

    def delete(self, mode=None):
        rng = self.rng
        mode = mode or rng.choice(["remove", "remove", "missing", "keep"])
        kinds = ["file", "symlink"] if mode != "remove" else ["file", "symlink", "directory"]
        fid, path = self.pick(kinds)
        if path is None:
            return None
        if mode == "missing" and fid not in self.basis_ids:
            return None      # an added file that is missing from disk is not a pending change the property speaks about
        if mode == "keep" and not self.pristine(fid, path):
            mode = "remove"  # a kept copy that differs from the basis is a different situation (adopted as it is)
        p = _join(self.d, path)
        if mode == "remove":
            self.wt.remove([path], keep_files=False, force=True)
            if os.path.lexists(p):
                if os.path.isdir(p) and not os.path.islink(p):
                    shutil.rmtree(p)
                else:
                    os.unlink(p)
        elif mode == "missing":
            os.unlink(p)
        else:
            self.wt.remove([path], keep_files=True)
        self.ops.append("delete-" + mode)
        return path

    def replace(self):
        """remove a versioned file / symlink and add something new (a new id) under the same name"""
        fid, path = self.pick(["file", "symlink"])
        if path is None or fid not in self.basis_ids:
            return None
        p = _join(self.d, path)
        self.wt.remove([path], keep_files=False, force=True)
        if os.path.lexists(p):
            os.unlink(p)
        kind = self.rng.choice(["file", "directory", "symlink"])
        if kind == "file":
            nid = self.fresh(b"f")
            with open(p, "wb") as f:
                f.write(b"replacement %s\n" % nid)
        elif kind == "directory":
            nid = self.fresh(b"d")
            os.mkdir(p)
        else:
            nid = self.fresh(b"l")
            os.symlink("repl-%s" % nid.decode(), p)
        self.wt.add([path], ids=[nid])
        self.ops.append("replace-by-new-" + kind)
        return path

    def chmod(self):
        fid, path = self.pick(["file"])
        if path is None:
            return None
        p = _join(self.d, path)
        m = stat.S_IMODE(os.stat(p).st_mode)
        os.chmod(p, m ^ 0o111 if m & 0o100 else m | 0o111)
        if not (m & 0o100):
            os.chmod(p, 0o755)
        else:
            os.chmod(p, 0o644)
        self.ops.append("chmod")
        return path

    def kind(self, want=None):
        rng = self.rng
        if want == "dir-file":
            c = [(fid, path) for fid, (path, kind, parent) in sorted(self.paths().items())
                 if path != "" and self.disk_kind(path) == "directory" and not os.listdir(_join(self.d, path))]
            fid, path = rng.choice(c) if c else (None, None)
        else:
            fid, path = self.pick(["file"] if want == "file-dir" else ["file", "symlink", "directory"])
        if path is None:
            return None
        p = _join(self.d, path)
        k = self.disk_kind(path)
        if k == "file":
            os.unlink(p)
            if want != "file-dir" and rng.random() < 0.6:
                os.symlink("was-file", p)
                self.ops.append("kind-file-symlink")
            else:
                os.mkdir(p)
                self.ops.append("kind-file-dir")
        elif k == "symlink":
            os.unlink(p)
            with open(p, "wb") as f:
                f.write(b"was a link\nsecond\n")
            if rng.random() < 0.3:
                os.chmod(p, 0o755)
            self.ops.append("kind-symlink-file")
        else:
            if os.listdir(p):
                return None
            os.rmdir(p)
            with open(p, "wb") as f:
                f.write(b"was a dir\n")
            self.ops.append("kind-dir-file")
        return path


OPS = ["edit", "edit", "edit", "add", "add", "delete", "delete", "rename", "move", "chmod", "kind", "retarget",
       "binary", "rename+edit", "add-dir-with-children", "chmod+edit", "replace",
       "edit_multi", "edit_multi", "swap", "move_into_new_dir", "delete_missing", "kind_file_dir", "kind_dir_file",
       "vacate_dir_to_file"]


def build_scenario(seedt, root=None):
    """seedt = (seed, fmt, index).  Returns dict(dir=..., fmt=..., ops=[...])"""
    from breezy.controldir import ControlDir, format_registry
    rng = random.Random(repr(tuple(seedt)))
    fmt = seedt[1]
    d = root or env.fresh_dir("c15s")
    wt = ControlDir.create_standalone_workingtree(d, format=format_registry.make_controldir(fmt))
    wt.set_root_id(ROOT)
    b = Builder(wt, rng)
    # every basis tree has a directory with a child, a longer text, an executable file and a symlink,
    # so that every kind of pending change is applicable
    dpath = b.add(kind="directory", parent="")
    b.add(kind="file", parent=dpath)
    b.add(kind="directory", parent="")        # stays empty: can become a file
    b.add(kind="file", parent="", exec_=True)
    b.add(kind="symlink")
    p0 = b.add(kind="file", parent="", exec_=False)
    with open(_join(d, p0), "wb") as f:
        f.write(b"".join(b"text line %d\n" % i for i in range(30)))
    for _ in range(rng.randint(0, 5)):
        b.add()
    wt.commit("base", rev_id=b"rev-base", timestamp=1000000000, timezone=0, committer="V <v@e.c>")
    b.ops = []
    b.basis_ids = set(b.paths())
    want = rng.randint(2, 4)
    tries = 0
    distinct = sorted(set(OPS))
    # two forced kinds of change per scenario: with >= 16 scenarios every kind appears in every run
    forced = [distinct[(seedt[0] + seedt[2]) % len(distinct)], distinct[(seedt[0] + seedt[2] + 16) % len(distinct)]]
    while len(b.ops) < want and tries < 20:
        tries += 1
        op = forced[tries - 1] if tries <= 2 else rng.choice(OPS)
        if op == "rename+edit":
            p = b.edit()
            if p is not None:
                parent = os.path.dirname(p)
                name = b.free_name(parent)
                if name:
                    wt.rename_one(p, name if parent == "" else parent + "/" + name)
                    b.ops.append("rename")
        elif op == "add-dir-with-children":
            p = b.add(kind="directory")
            if p is not None:
                b.add(parent=p)
                if rng.random() < 0.5:
                    b.add(parent=p)
        elif op == "chmod+edit":
            p = b.edit()
            if p is not None:
                pp = _join(d, p)
                m = os.stat(pp).st_mode
                os.chmod(pp, 0o644 if m & 0o100 else 0o755)
                b.ops.append("chmod")
        else:
            getattr(b, op)()
    return dict(dir=d, fmt=fmt, ops=b.ops, seed=list(seedt))


# --------------------------------------------------------------------------
# dumps

def _disk_entry(p):
    if os.path.islink(p):
        return ("l", os.readlink(p).encode(), False)
    if os.path.isdir(p):
        return ("d", b"", False)
    if os.path.isfile(p):
        with open(p, "rb") as f:
            return ("f", f.read(), bool(os.stat(p).st_mode & 0o100))
    return None


def dump_wt(d):
    """(entries, missing, strays, conflicts, recorded exec bits, changes): entries = {file_id: (parent_id, name,
    kind, content, exec)} from the inventory + disk; versioned paths that are not on disk are listed in `missing`
    (and left out); changes = what the real iter_changes(basis) reports, canonical"""
    from breezy.workingtree import WorkingTree
    wt = WorkingTree.open(d)
    ents, missing, vpaths, rec = {}, [], set(), {}
    miss_pos = {}
    with wt.lock_read():
        for path, ie in wt.iter_entries_by_dir():
            vpaths.add(path)
            de = _disk_entry(_join(d, path))
            if de is None:
                missing.append(ie.file_id)
                miss_pos[ie.file_id] = (ie.parent_id, ie.name)
                continue
            ents[ie.file_id] = (ie.parent_id, ie.name) + de
            if de[0] == "f":
                rec[ie.file_id] = bool(ie.executable)
        confl = len(wt.conflicts())
        # (after the inventory walk: iter_changes refreshes the dirstate's idea of the kinds on disk, and the
        # inventory generated afterwards no longer lists the children of a directory that has become a file)
        changes = sorted(
            (c.file_id.decode("latin-1"), list(c.path), bool(c.changed_content), list(c.versioned),
             [x.decode("latin-1") if x is not None else None for x in c.parent_id], list(c.name), list(c.kind),
             list(c.executable))
            for c in wt.iter_changes(wt.basis_tree()))
    strays = {}
    for dirpath, dirnames, filenames in os.walk(d):
        rel = os.path.relpath(dirpath, d)
        rel = "" if rel == "." else rel
        if rel == "":
            dirnames[:] = [x for x in dirnames if x != ".bzr"]
        for n in sorted(dirnames + filenames):
            r = n if rel == "" else rel + "/" + n
            if r not in vpaths:
                strays[r] = _disk_entry(os.path.join(dirpath, n))[:2]
        dirnames[:] = [x for x in dirnames if not os.path.islink(os.path.join(dirpath, x))]
    return ents, sorted(missing), strays, confl, rec, changes, miss_pos


def dump_preview(tree):
    """dump of a PreviewTree by trans-id (its path-based accessors look renamed / replaced paths up in
    the underlying tree under the wrong path, a PreviewTree defect noted in the report)"""
    tt = tree._transform
    base = tt._tree
    ents = {}
    with tree.lock_read():
        for path, ie in tree.iter_entries_by_dir():
            fid = ie.file_id
            trans_id = tt.trans_id_file_id(fid)
            k = tt.final_kind(trans_id)
            new = trans_id in tt._new_contents
            try:
                bpath = base.id2path(fid)
            except Exception:  # noqa
                bpath = None
            if k == "file":
                if new:
                    with open(tt._limbo_name(trans_id), "rb") as f:
                        text = f.read()
                else:
                    text = base.get_file_text(bpath)
                x = tt._new_executability.get(trans_id)
                if x is None:
                    x = bool(bpath is not None and base.kind(bpath) == "file" and base.is_executable(bpath))
                de = ("f", text, bool(x))
            elif k == "symlink":
                tgt = os.readlink(tt._limbo_name(trans_id)) if new else base.get_symlink_target(bpath)
                de = ("l", tgt.encode() if isinstance(tgt, str) else tgt, False)
            elif k == "directory":
                de = ("d", b"", False)
            else:
                de = ("?", repr(k).encode(), False)
            ents[fid] = (ie.parent_id, ie.name) + de
    return ents


def dump_tree(tree):
    """same shape for a revision / preview tree"""
    if getattr(tree, "_transform", None) is not None:
        return dump_preview(tree)
    ents = {}
    with tree.lock_read():
        for path, ie in tree.iter_entries_by_dir():
            k = tree.kind(path)
            if k == "file":
                de = ("f", tree.get_file_text(path), bool(tree.is_executable(path)))
            elif k == "symlink":
                de = ("l", tree.get_symlink_target(path).encode(), False)
            elif k == "directory":
                de = ("d", b"", False)
            else:
                de = ("?", repr(k).encode(), False)
            ents[ie.file_id] = (ie.parent_id, ie.name) + de
    return ents


# --------------------------------------------------------------------------
# hunks

class _Scripted:
    """a Shelver whose prompts are answered from a list (no UI, no locks)"""

    def __init__(self, work_tree, target_tree, answers):
        from breezy import shelf_ui

        class S(shelf_ui.Shelver):
            def __init__(s):
                s.work_tree, s.target_tree = work_tree, target_tree
                s.diff_writer = io.BytesIO()
                s.auto = False
                s.reporter = shelf_ui.ShelfReporter()
                s.change_editor = None
                s.answers = list(answers)

            def prompt_bool(s, question, allow_editor=False):
                return s.answers.pop(0)
        self.s = S()


def parsed_hunks(work_tree, target_tree, file_id):
    """the hunks the UI would offer: [(orig_pos, orig_range, new_lines)] (1-based orig_pos; 0 for an empty original)"""
    sh = _Scripted(work_tree, target_tree, [])
    parsed = sh.s.get_parsed_patch(file_id, False)
    from breezy import patches
    out = []
    for h in parsed.hunks:
        new = [l.contents for l in h.lines if isinstance(l, (patches.ContextLine, patches.InsertLine))]
        out.append((h.orig_pos, h.orig_range, new))
    return out


def fix_no_newline(hunks, old_lines):
    return hunks


def splice(old_lines, hunks, take):
    """own patch application: old_lines with the hunks whose index is in `take` applied"""
    out = []
    pos = 0
    for k, (opos, orange, new) in enumerate(hunks):
        start = opos - 1 if orange else opos     # "-0,0" / "-N,0": insert after line N
        if orange == 0:
            start = opos
        out.extend(old_lines[pos:start])
        if k in take:
            out.extend(new)
        else:
            out.extend(old_lines[start:start + orange])
        pos = start + orange
    out.extend(old_lines[pos:])
    return out


def segments(old_lines, hunks):
    """[(old chunk, new chunk, is_hunk)] alternating gap / hunk / gap ..."""
    segs = []
    pos = 0
    for (opos, orange, new) in hunks:
        start = opos if orange == 0 else opos - 1
        segs.append((old_lines[pos:start], old_lines[pos:start], False))
        segs.append((old_lines[start:start + orange], list(new), True))
        pos = start + orange
    segs.append((old_lines[pos:], old_lines[pos:], False))
    return segs


# --------------------------------------------------------------------------
# one case on the real code

def is_binary(content):
    return b"\x00" in content


def analyse(sc):
    """basis dump, working dump, the atomic shelvable items in iter_shelvable order and the hunks per text"""
    from breezy.workingtree import WorkingTree
    from breezy import shelf
    d = sc["dir"]
    W, missing, strays, confl, rec, changes0, miss_pos = dump_wt(d)
    wt = WorkingTree.open(d)
    items, hunks, changes = [], {}, []
    with wt.lock_tree_write():
        basis = wt.basis_tree()
        B = dump_tree(basis)
        cr = shelf.ShelfCreator(wt, basis)
        try:
            for ch in cr.iter_shelvable():
                changes.append((ch[0], ch[1]))
                fid = ch[1]
                if ch[0] == "add file":
                    items.append(("add", fid, None))
                elif ch[0] == "delete file":
                    items.append(("delete", fid, None))
                elif ch[0] == "rename":
                    items.append(("rename", fid, None))
                elif ch[0] == "change kind":
                    items.append(("kind", fid, None))
                elif ch[0] == "modify target":
                    items.append(("target", fid, None))
                elif ch[0] == "modify text":
                    if is_binary(B[fid][3]) or is_binary(W[fid][3]):
                        items.append(("binary", fid, None))
                    else:
                        hs = parsed_hunks(wt, basis, fid)
                        hunks[fid] = hs
                        for k in range(len(hs)):
                            items.append(("hunk", fid, k))
        finally:
            cr.finalize()
    return dict(B=B, W=W, missing=missing, strays=strays, items=items, hunks=hunks, changes=changes, rec=rec,
                iter_changes=changes0, miss_pos=miss_pos)


def err_kind(e):
    n = type(e).__name__
    return "E:" + {"MalformedTransform": "Malformed"}.get(n, n)


def run_case(arg):
    """(scenario, analysis, selection (sorted list of item indices), whole_via) -> result dict.
    Module-level so that it can run in a fork pool."""
    sc, an, sel, whole_via = arg
    from breezy.workingtree import WorkingTree
    from breezy import shelf
    d = env.fresh_dir("c15c")
    shutil.rmtree(d)
    shutil.copytree(sc["dir"], d, symlinks=True)
    items = an["items"]
    chosen = [items[i] for i in sel]
    by = {}
    for kind, fid, k in chosen:
        by.setdefault(fid, []).append((kind, k))
    res = dict(err=None, stage=None)
    wt = WorkingTree.open(d)
    mgr = wt.get_shelf_manager()
    res["ids0"] = mgr.active_shelves()
    sid = None
    try:
        with wt.lock_tree_write():
            basis = wt.basis_tree()
            cr = shelf.ShelfCreator(wt, basis)
            try:
                n = 0
                for ch in cr.iter_shelvable():
                    fid = ch[1]
                    mine = by.get(fid, [])
                    if ch[0] == "modify text":
                        hk = sorted(k for kind, k in mine if kind == "hunk")
                        if any(kind == "binary" for kind, k in mine):
                            cr.shelve_content_change(fid)
                            n += 1
                        elif hk:
                            nh = len(an["hunks"][fid])
                            if len(hk) == nh and whole_via == "content":
                                cr.shelve_change(ch)
                            else:
                                s = _Scripted(wt, basis, [k in hk for k in range(nh)]).s
                                path = wt.id2path(fid)
                                lines, cnt = s._select_hunks(cr, fid, wt.get_file_lines(path))
                                if cnt != len(hk):
                                    res["hunk_count"] = (cnt, len(hk))
                                if cnt:
                                    cr.shelve_lines(fid, lines)
                            n += 1
                    else:
                        tag = {"add file": "add", "delete file": "delete", "rename": "rename",
                               "change kind": "kind", "modify target": "target"}[ch[0]]
                        if any(kind == tag for kind, k in mine):
                            cr.shelve_change(ch)
                            n += 1
                res["stage"] = "selected"
                sid = mgr.shelve_changes(cr, "msg %s" % (sel,))
                res["stage"] = "shelved"
            finally:
                cr.finalize()
    except Exception as e:  # noqa
        res["err"] = err_kind(e)
        res["errtext"] = str(e)[:300]
    res["sid"] = sid
    res["ids1"] = WorkingTree.open(d).get_shelf_manager().active_shelves()
    try:
        res["d1"] = dump_wt(d)
    except Exception as e:  # noqa  (an unreadable working tree is reported by the oracle)
        res["d1"] = ({}, [], {}, "corrupt", {}, [], {}, "%s: %s" % (type(e).__name__, str(e)[:200]))
        shutil.rmtree(d, ignore_errors=True)
        return res
    if res["err"] is None:
        # the stored shelf tree
        wt = WorkingTree.open(d)
        mgr = wt.get_shelf_manager()
        try:
            with wt.lock_tree_write():
                u = mgr.get_unshelver(sid)     # a separate unshelver for looking at the stored tree
                try:
                    res["S"] = dump_tree(u.transform.get_preview_tree())
                finally:
                    u.finalize()
                u = mgr.get_unshelver(sid)
                try:
                    res["msg"] = u.message
                    merger = u.make_merger()
                    res["nconf"] = merger.do_merge()
                finally:
                    u.finalize()
                mgr.delete_shelf(sid)
        except Exception as e:  # noqa
            res["uerr"] = err_kind(e)
            res["uerrtext"] = str(e)[:300]
        res["ids2"] = WorkingTree.open(d).get_shelf_manager().active_shelves()
        res["d2"] = dump_wt(d)
    shutil.rmtree(d, ignore_errors=True)
    return res


# --------------------------------------------------------------------------
# oracle: the property's own statement on the dumps

def expect_shelved(an, sel):
    """the working tree dump the property demands after shelving the items `sel`"""
    B, W, items, hunks = an["B"], an["W"], an["items"], an["hunks"]
    X = dict(W)
    by = {}
    for i in sel:
        kind, fid, k = items[i]
        by.setdefault(fid, []).append((kind, k))
    for fid, mine in by.items():
        kinds = {k for k, _ in mine}
        b, w = B.get(fid), W.get(fid)
        if "add" in kinds:
            X.pop(fid, None)
            continue
        if "delete" in kinds:
            X[fid] = b
            continue
        p, n, k, c, x = w
        if "rename" in kinds:
            p, n = b[0], b[1]
        if kinds & {"kind", "target", "binary"}:
            k, c = b[2], b[3]
            x = (w[4] if w[2] == "f" else b[4]) if k == "f" else False
        hk = {j for kk, j in mine if kk == "hunk"}
        if hk:
            hs = hunks[fid]
            old = b[3].splitlines(True)
            c = b"".join(splice(old, hs, set(range(len(hs))) - hk))
        X[fid] = (p, n, k, c, x)
    return X


def diff_dumps(exp, got):
    out = []
    for fid in sorted(set(exp) | set(got)):
        if exp.get(fid) != got.get(fid):
            e, g = exp.get(fid), got.get(fid)
            if e is not None and g is not None:
                attrs = [a for a, i in (("parent", 0), ("name", 1), ("kind", 2), ("content", 3), ("exec", 4)) if e[i] != g[i]]
            else:
                attrs = ["absent" if g is None else "present"]
            out.append((fid, attrs, e, g))
    return out


def expect_shelf(an, sel):
    """the stored tree the property's reading implies: basis + exactly the selected items"""
    B, W, items, hunks = an["B"], an["W"], an["items"], an["hunks"]
    X = dict(B)
    by = {}
    for i in sel:
        kind, fid, k = items[i]
        by.setdefault(fid, []).append((kind, k))
    for fid, mine in by.items():
        kinds = {k for k, _ in mine}
        b, w = B.get(fid), W.get(fid)
        if "add" in kinds:
            X[fid] = w
            continue
        if "delete" in kinds:
            X.pop(fid, None)
            continue
        p, n, k, c, x = b
        if "rename" in kinds:
            p, n = w[0], w[1]
        if kinds & {"kind", "target", "binary"}:
            k, c = w[2], w[3]
            x = (b[4] if b[2] == "f" else w[4]) if k == "f" else False
        hk = {j for kk, j in mine if kk == "hunk"}
        if hk:
            hs = hunks[fid]
            c = b"".join(splice(b[3].splitlines(True), hs, hk))
        X[fid] = (p, n, k, c, x)
    return X


def py_wf(t):
    roots = [i for i, e in t.items() if e[0] is None]
    if len(roots) != 1:
        return False
    seen = set()
    for i, e in t.items():
        if e[0] is None:
            continue
        pe = t.get(e[0])
        if pe is None or pe[2] != "d":
            return False
        if (e[0], e[1]) in seen:
            return False
        seen.add((e[0], e[1]))
    for i in t:
        j, n = i, 0
        while t[j][0] is not None:
            j = t[j][0]
            n += 1
            if n > len(t):
                return False
    return True


# --------------------------------------------------------------------------
# model lines

class Enc:
    """interning of ids / names / chunks of one scenario"""

    def __init__(self, an):
        self.an = an
        B, W = an["B"], an["W"]
        fids = sorted(set(B) | set(W) | set(an["missing"]), key=lambda f: (f != ROOT, f))
        self.ids = {f: i for i, f in enumerate(fids)}
        self.fids = fids
        names = sorted({e[1] for e in list(B.values()) + list(W.values())})
        self.names = {n: i for i, n in enumerate(names)}
        self.rnames = names
        self.codes, self.rcodes = {}, [None]
        self.segs = {f: segments(B[f][3].splitlines(True), hs) for f, hs in an["hunks"].items()}

    def code(self, b):
        c = self.codes.get(b)
        if c is None:
            c = self.codes[b] = len(self.rcodes)
            self.rcodes.append(b)
        return c

    def chunks(self, fid, e, side):
        if e[2] == "d":
            return []
        if fid in self.segs and e[2] == "f":
            return [self.code(b"".join(s[side])) for s in self.segs[fid]]
        return [self.code(e[3])]

    def tree(self, t, side):
        out = []
        for fid in self.fids:
            e = t.get(fid)
            if e is None:
                continue
            ch = self.chunks(fid, e, side)
            out.append("%d:%s:%d:%s:%s:%s" % (
                self.ids[fid], "~" if e[0] is None else self.ids[e[0]], self.names[e[1]], e[2],
                "T" if e[4] else "F", ".".join(map(str, ch)) or "-"))
        return ";".join(out) or "-"

    def sel(self, sel, via, kept):
        items = self.an["items"]
        by = {}
        for i in sel:
            kind, fid, k = items[i]
            by.setdefault(fid, []).append((kind, k))
        out = []
        for fid in self.fids:
            mine = by.get(fid)
            if not mine:
                continue
            kinds = {k for k, _ in mine}
            content = "n"
            if kinds & {"kind", "target", "binary"}:
                content = "w"
            hk = {j for kk, j in mine if kk == "hunk"}
            if hk:
                nh = len(self.an["hunks"][fid])
                if len(hk) == nh and via == "content":
                    content = "w"
                else:
                    bits = ["0"] * (2 * nh + 1)
                    for j in hk:
                        bits[2 * j + 1] = "1"
                    content = "h" + "".join(bits)
            out.append("%d:%s:%s:%s:%s" % (self.ids[fid], "T" if kinds & {"add", "delete"} else "F",
                                           "T" if "rename" in kinds else "F", content,
                                           "T" if fid in kept and "delete" in kinds else "F"))
        return ";".join(out) or "-"

    @staticmethod
    def idlist(s):
        return [] if s == "-" else sorted(int(x) for x in s.split(","))

    def decode(self, s):
        """model tree -> {fid: (parent, name, kind, content, exec)}"""
        out = {}
        if s == "-":
            return out
        for ent in s.split(";"):
            i, p, n, k, x, c = ent.split(":")
            content = b"" if c == "-" else b"".join(self.rcodes[int(q)] for q in c.split("."))
            out[self.fids[int(i)]] = (None if p == "~" else self.fids[int(p)], self.rnames[int(n)], k, content, x == "T")
        return out


def kept_ids(an):
    """deleted ids whose basis path still holds an unversioned file in the working tree (remove --keep)"""
    B = an["B"]

    def path(fid):
        e = B[fid]
        return "" if e[0] is None else (path(e[0]) + "/" + e[1]).lstrip("/")
    return {fid for fid in B if fid not in an["W"] and fid not in an["missing"] and path(fid) in an["strays"]}


def model_line(enc, an, sel, via, variant, rec1):
    ids = ",".join(str(i) for i in range(len(enc.fids)))
    rec = ",".join(str(enc.ids[f]) for f in sorted(rec1, key=lambda f: enc.ids.get(f, -1)) if rec1[f] and f in enc.ids) or "-"
    miss = ",".join(str(i) for i in sorted(enc.ids[f] for f in an["missing"])) or "-"
    return "shelve %s %s %s %s %s %s %s" % (variant, ids, enc.tree(an["B"], 0), enc.tree(an["W"], 1),
                                           enc.sel(sel, via, kept_ids(an)), rec, miss)


# --------------------------------------------------------------------------
# probes: which of the two executable-bit behaviours does the code under test have

def _probe_tree():
    wt = env.make_tree("2a")
    d = wt.basedir
    with open(d + "/t", "wb") as f:
        f.write(b"a\nb\nc\n")
    wt.add(["t"], ids=[b"t-id"])
    wt.commit("base")
    return wt


def _shelve_all_unshelve(wt):
    from breezy import shelf
    from breezy.workingtree import WorkingTree
    with wt.lock_tree_write():
        cr = shelf.ShelfCreator(wt, wt.basis_tree())
        try:
            cr.shelve_all()
            sid = wt.get_shelf_manager().shelve_changes(cr)
        finally:
            cr.finalize()
    wt = WorkingTree.open(wt.basedir)
    with wt.lock_tree_write():
        u = wt.get_shelf_manager().get_unshelver(sid)
        try:
            u.make_merger().do_merge()
        finally:
            u.finalize()
    return wt


def probe_variant():
    """(keepExec, freshExec, pathCheck, closedCheck) of the code under test, from four small experiments"""
    wt = _probe_tree()
    d = wt.basedir
    with open(d + "/n", "wb") as f:
        f.write(b"new\n")
    os.chmod(d + "/n", 0o755)
    wt.add(["n"], ids=[b"n-id"])
    _shelve_all_unshelve(wt)
    keep = bool(os.stat(d + "/n").st_mode & 0o100)
    wt = _probe_tree()
    d = wt.basedir
    with open(d + "/t", "wb") as f:
        f.write(b"a\nB\nc\n")
    os.chmod(d + "/t", 0o755)
    _shelve_all_unshelve(wt)
    fresh = bool(os.stat(d + "/t").st_mode & 0o100)
    # a deleted file whose path is taken by a newly added one: shelving everything must work
    wt = _probe_tree()
    d = wt.basedir
    wt.remove(["t"], keep_files=False, force=True)
    with open(d + "/t", "wb") as f:
        f.write(b"replacement\n")
    wt.add(["t"], ids=[b"t2-id"])
    from breezy import shelf
    try:
        with wt.lock_tree_write():
            cr = shelf.ShelfCreator(wt, wt.basis_tree())
            try:
                cr.shelve_all()
                wt.get_shelf_manager().shelve_changes(cr)
            finally:
                cr.finalize()
        pathcheck = dump_wt(d)[0].get(b"t-id", (None,) * 5)[3] == b"a\nb\nc\n"
    except Exception:  # noqa
        pathcheck = False
    return keep, fresh, pathcheck, probe_closed_check()


def probe_closed_check():
    """does the code under test refuse a selection that is not closed?  A file is added in an added directory and
    only the file's addition is selected: True = refused with the tree unchanged (write_shelf checks the tree to
    be stored), False = accepted (/repo HEAD: the file leaves the tree and the shelf cannot be read back)"""
    from breezy import shelf
    wt = _probe_tree()
    d = wt.basedir
    os.mkdir(d + "/nd")
    with open(d + "/nd/f", "wb") as f:
        f.write(b"new\n")
    wt.add(["nd", "nd/f"], ids=[b"nd-id", b"f-id"])
    try:
        with wt.lock_tree_write():
            cr = shelf.ShelfCreator(wt, wt.basis_tree())
            try:
                for ch in cr.iter_shelvable():
                    if ch[1] == b"f-id":
                        cr.shelve_change(ch)
                wt.get_shelf_manager().shelve_changes(cr)
            finally:
                cr.finalize()
        return False
    except Exception:  # noqa
        return os.path.exists(d + "/nd/f")


# --------------------------------------------------------------------------
# helpers about the selection (no finding family is open: every violation is reported plainly)

def selected_kinds(an, sel):
    by = {}
    for i in sel:
        kind, fid, k = an["items"][i]
        by.setdefault(fid, set()).add(kind)
    return by


def _paths(t):
    out = {}

    def path(fid, depth=0):
        if fid in out:
            return out[fid]
        e = t.get(fid)
        if e is None or depth > len(t) + 1:
            return None
        if e[0] is None:
            out[fid] = ""
        else:
            pp = path(e[0], depth + 1)
            out[fid] = None if pp is None else (pp + "/" + e[1]).lstrip("/")
        return out[fid]
    for f in t:
        path(f)
    return out


def reoccupied(an, sel):
    """a selected deletion whose basis PATH is held by another versioned id in the working tree"""
    by = selected_kinds(an, sel)
    B, W = an["B"], an["W"]
    bp, wp = _paths(B), _paths(W)
    taken = {p for f, p in wp.items() if p is not None}
    for fid, kinds in by.items():
        if "delete" in kinds and fid not in W and bp.get(fid) is not None and bp[fid] in taken:
            return True
    return False


# --------------------------------------------------------------------------
# the run

FORMATS = ["2a", "2a", "2a", "pack-0.92", "2a", "1.9", "2a", "knit"]


def _short(t):
    return {f.decode(): (None if e[0] is None else e[0].decode(), e[1], e[2],
                         (e[3][:40] + b"...").decode("latin-1") if len(e[3]) > 40 else e[3].decode("latin-1"), e[4])
            for f, e in t.items()}


def subsets_of(ctx, n, cap):
    import itertools
    if n <= 6:
        allsub = [list(c) for r in range(n + 1) for c in itertools.combinations(range(n), r)]
        ctxfull = True
    else:
        allsub = [[], list(range(n))] + [[i] for i in range(n)]
        while len(allsub) < 64:
            allsub.append(sorted(ctx.rng.sample(range(n), ctx.rng.randint(2, n - 1))))
        ctxfull = False
    if len(allsub) > cap:
        keep = [allsub[0], allsub[-1]] if ctxfull else allsub[:2]
        rest = [s for s in allsub if s not in keep]
        allsub = keep + ctx.rng.sample(rest, cap - 2)
        ctxfull = False
    return allsub, ctxfull


FAM_UNCLOSED = "unclosed-selection-accepted"
FAM_MISSING = "missing-file-unversioned-by-unshelve"
FAM_EMPTY = "empty-basis-shelf-unreadable"
FAM_ENTANGLED = "entangled-missing-file"


def entangled_missing(an):
    """versioned-but-missing files whose inventory slot matters beyond 'deleted at its basis place': renamed / moved
    before they went missing, or sitting below something that is not (any more) a directory of the tree, or below an
    added directory.  The model (and iter_shelvable, which offers only their deletion) does not see that slot."""
    B, W = an["B"], an["W"]
    out = []
    for f, (p, n) in sorted(an["miss_pos"].items()):
        b = B.get(f)
        pe = W.get(p)
        if b is None or (b[0], b[1]) != (p, n) or pe is None or pe[2] != "d" or p not in B:
            out.append(f)
    return out


def why_not_tree(t):
    """the reasons for which an id -> entry map is not a tree (for the report text)"""
    out = set()
    if len([i for i, e in t.items() if e[0] is None]) != 1:
        out.add("roots")
    seen = set()
    for i, e in t.items():
        if e[0] is None:
            continue
        pe = t.get(e[0])
        if pe is None:
            out.add("entry whose parent is absent")
        elif pe[2] != "d":
            out.add("entry whose parent is not a directory")
        if (e[0], e[1]) in seen:
            out.add("two entries with one name")
        seen.add((e[0], e[1]))
    for i in t:
        j, n = i, 0
        while j in t and t[j][0] is not None:
            j = t[j][0]
            n += 1
            if n > len(t):
                out.add("parent loop")
                break
    return sorted(out)


def changed_ids(changes):
    return sorted({c[0] for c in changes})


def check_result(ctx, sc, an, enc, sel, via, res, variant):
    """oracle + model comparison of one case"""
    chosen = [an["items"][i] for i in sel]
    case = dict(scenario=sc["seed"], sel=list(sel), via=via,
                items=[(k, f.decode(), j) for k, f, j in chosen], ops=sc["ops"])
    nontrivial = 0 < len(sel)
    ctx.case(dict(B=enc.tree(an["B"], 0), W=enc.tree(an["W"], 1), sel=enc.sel(sel, via, kept_ids(an)),
                  miss=sorted(f.decode() for f in an["missing"]),
                  texts=sorted(h.hex()[:16] for h in enc.codes)), nontrivial=nontrivial)
    for k, f, j in chosen:
        ctx.count("item:" + k)
    ctx.count("selected:%d/%d" % (len(sel), len(an["items"])))
    expW1 = expect_shelved(an, sel)
    expS = expect_shelf(an, sel)
    # the inventory slots of the files that stay versioned-but-missing count for well-formedness
    occ = {f: (pos[0], pos[1], "m", b"", False) for f, pos in an["miss_pos"].items() if f not in expW1}
    w1_wf = py_wf({**expW1, **occ})
    is_closed = w1_wf and py_wf(expS)
    ent = entangled_missing(an)
    fam_ent = FAM_ENTANGLED if ent else None
    slot_ignored = bool(ent) and py_wf(expW1) and not w1_wf
    if ent:
        ctx.count("entangled-missing-file:model-skipped")
    w1, rec1 = res["d1"][0], res["d1"][4]
    by = selected_kinds(an, sel)
    # versioned files that are missing from disk: a shelved deletion re-creates the file, the others stay missing
    exp_missing1 = sorted(f for f in an["missing"] if "delete" not in by.get(f, ()))
    sel_missing = sorted(f for f in an["missing"] if "delete" in by.get(f, ()))
    if sel_missing:
        ctx.count("selected-deletion-of-missing-file")
    # a stored tree that is not a tree: the family of every failure that follows from accepting the selection
    fam_unclosed = FAM_UNCLOSED if w1_wf and not py_wf(expS) else None
    if slot_ignored:
        fam_unclosed = fam_ent      # the remaining tree is no tree only because of a missing file's slot
    # ---- oracle ----------------------------------------------------------
    if res["err"] is not None:
        ctx.count("refused:" + res["err"])
        if w1 != an["W"] or res["d1"][1] != an["missing"] or res["d1"][5] != an["iter_changes"]:
            ctx.violation(case, "shelving failed with %s but the working tree changed: %r%s" % (
                res["err"], [(f, a) for f, a, e, g in diff_dumps(an["W"], w1)][:4],
                " [the remaining tree is no tree only because of the inventory slot of a versioned-but-missing file: %r]"
                % [f.decode() for f in ent] if slot_ignored else ""), family=fam_ent if slot_ignored else None)
        if res["ids1"] != res["ids0"]:
            ctx.count("stale-shelf-left-by-refused-transform")
        if is_closed:
            ctx.violation(case, "a closed selection (remaining tree and stored tree are trees) was refused: %s %s%s" % (
                res["err"], (res.get("errtext") or "")[:160],
                " [versioned-but-missing files with an entangled inventory slot: %r]" % [f.decode() for f in ent] if ent else ""),
                family=fam_ent)
        elif w1_wf:
            ctx.count("refused:selection-not-closed")
    else:
        if res["d1"][3] == "corrupt":
            ctx.violation(case, "the working tree cannot be read after shelving: %s%s" % (
                res["d1"][7], " [the selection was accepted although the remaining tree has two entries for the slot of "
                "a versioned-but-missing file: %r]" % [f.decode() for f in ent] if slot_ignored else ""),
                family=fam_ent if slot_ignored else None)
            res["err"] = "E:Corrupt"
            return case, None, is_closed
        dd = diff_dumps(expW1, w1)
        if dd:
            ctx.violation(case, "after shelving the tree is not (basis for the selected changes, working tree for the others): "
                          "%r" % ([(f.decode(), a, e and e[4], g and g[4]) if a == ["exec"] else (f.decode(), a) for f, a, e, g in dd][:4],),
                          family=fam_ent if slot_ignored else None)
        if res["d1"][1] != exp_missing1:
            ctx.violation(case, "after shelving the versioned-but-missing files are %r, expected %r (a shelved deletion "
                          "re-creates the file, every other missing file stays missing and versioned)" % (
                              res["d1"][1], exp_missing1), family=fam_ent if slot_ignored else None)
        # the same through the real iter_changes: exactly the ids that still differ from the basis are reported
        exp_changed = sorted({f.decode("latin-1") for f in set(expW1) | set(an["B"]) if expW1.get(f) != an["B"].get(f)})
        if not dd and res["d1"][1] == exp_missing1 and changed_ids(res["d1"][5]) != exp_changed:
            ctx.violation(case, "after shelving iter_changes reports changes for %r, the unselected changes are in %r" % (
                changed_ids(res["d1"][5]), exp_changed), family=fam_ent if slot_ignored else None)
        new = set(res["d1"][2]) - set(an["strays"])
        if new:
            ctx.violation(case, "shelving left new unversioned files: %r" % sorted(new))
        sid = res["sid"]
        if sid in res["ids0"] or any(sid <= x for x in res["ids0"]) or sorted(res["ids0"] + [sid]) != res["ids1"]:
            ctx.violation(case, "shelf id %r not fresh / listing wrong: before %r after %r" % (sid, res["ids0"], res["ids1"]))
        if not is_closed:
            ctx.count("accepted:selection-not-closed")
            ctx.count("unclosed-outcome:" + (res.get("uerr") or ("conflicts" if res.get("nconf") else "quiet")))
        unclosed_note = "" if fam_unclosed is None else (
            " [the selection was accepted although the tree to be stored (basis + selected changes) is not a tree: %s]"
            % ", ".join(why_not_tree(expS)))
        if is_closed and "S" in res and diff_dumps(expS, res["S"]):
            dd = diff_dumps(expS, res["S"])
            ctx.violation(case, "the stored shelf tree is not (basis + exactly the selected changes): %r" % (
                [(f.decode(), a) for f, a, e, g in dd][:4],), family=None)
        elif "uerr" in res:
            ctx.violation(case, "the changes left the tree but the shelf cannot be unshelved: %s %s%s" % (
                res["uerr"], (res.get("uerrtext") or "").split("\n")[0], unclosed_note), family=fam_unclosed)
        else:
            w2 = res["d2"][0]
            dd = diff_dumps(an["W"], w2)
            bad = False
            if dd:
                bad = True
                ctx.violation(case, "unshelving onto the unchanged tree does not restore it: %r%s" % (
                    [(f.decode(), a, e and e[4], g and g[4]) if a == ["exec"] else (f.decode(), a) for f, a, e, g in dd][:4],
                    unclosed_note), family=fam_unclosed)
            if res["nconf"] or res["d2"][3]:
                bad = True
                ctx.violation(case, "unshelving reported %r conflicts%s" % (res["nconf"] or res["d2"][3], unclosed_note),
                              family=fam_unclosed)
            new = set(res["d2"][2]) - set(an["strays"])
            if new:
                bad = True
                ctx.violation(case, "unshelving left new unversioned files: %r%s" % (sorted(new), unclosed_note),
                              family=fam_unclosed)
            # versioning: the files that were versioned-but-missing before must be so again
            m2 = res["d2"][1]
            fam_missing = None
            if m2 != an["missing"]:
                lost = sorted(set(an["missing"]) - set(m2))
                if (not bad and lost and lost == sel_missing and not set(m2) - set(an["missing"])
                        and not any(f in w2 for f in lost)):
                    fam_missing = FAM_MISSING
                bad = True
                ctx.violation(case, "unshelving does not restore the versioning: the files %r were versioned (missing from "
                              "disk) before shelving and are unversioned after unshelving; versioned-but-missing before %r, "
                              "after %r%s" % ([f.decode() for f in lost], an["missing"], m2, unclosed_note),
                              family=fam_missing or fam_unclosed)
            # ... and the tree must report the same changes as before shelving (the real iter_changes)
            c2 = res["d2"][5]
            if fam_missing:
                gone = {f.decode("latin-1") for f in sel_missing}
                same = [c for c in c2 if c[0] not in gone] == [c for c in an["iter_changes"] if c[0] not in gone]
            else:
                same = c2 == an["iter_changes"]
            if not same and not bad:
                diff = [c for c in c2 if c not in an["iter_changes"]] + [c for c in an["iter_changes"] if c not in c2]
                ctx.violation(case, "after unshelving iter_changes differs from before shelving: %r%s" % (
                    diff[:3], unclosed_note), family=fam_unclosed)
            if res["ids2"] != res["ids0"]:
                ctx.violation(case, "shelf list after unshelve+delete %r != before %r" % (res["ids2"], res["ids0"]))
            if res.get("msg") != "msg %s" % (list(sel),):
                ctx.violation(case, "shelf message not preserved: %r" % (res.get("msg"),))
    # ---- model -------------------------------------------------------------
    if ent:
        return case, None, is_closed     # the model does not see the slot of an entangled missing file
    line = model_line(enc, an, sel, via, variant, rec1 if res["err"] is None else {})
    return case, line, is_closed


def compare_model(ctx, enc, case, line, reply, res, is_closed):
    ctx.traces += 1
    if res["err"] is not None:
        impl = res["err"]
        if reply == "E:Reoccupied":
            # the defective existing_path handling: any refusal / corruption is "the" outcome
            impl = "E:Reoccupied"
        if reply == "E:Unclosed" and impl == "E:Malformed":
            # write_shelf and the work transform refuse with the same exception class
            impl = "E:Unclosed"
        if reply == "E:ResolveCrash" and impl == "E:AttributeError" and "supports_setting_file_ids" in (res.get("errtext") or ""):
            # resolve_conflicts on the shelf transform: the 'non-directory parent' resolver asks a revision tree
            # for supports_setting_file_ids (nothing was applied yet)
            impl = "E:ResolveCrash"
        if reply != impl:
            ctx.mismatch(case, impl, reply, line=line)
        return
    if not reply.startswith("ok "):
        ctx.mismatch(case, "ok", reply, line=line)
        return
    _, closed, w1, s, u, nconf, m1, m2 = reply.split(" ")
    if (closed == "T") != is_closed:
        ctx.mismatch(case, "closed=%s (harness)" % is_closed, "closed=%s" % closed, line=line)
    mw1 = enc.decode(w1)
    if mw1 != res["d1"][0]:
        ctx.mismatch(case, dict(stage="work tree after shelve", tree=_short(res["d1"][0])), _short(mw1), line=line)
    miss1 = sorted(enc.ids[f] for f in res["d1"][1])
    if miss1 != enc.idlist(m1):
        ctx.mismatch(case, dict(stage="missing after shelve", ids=miss1), m1, line=line)
    if (u == "?") != (closed != "T"):
        ctx.mismatch(case, "stored tree readable iff closed", reply[:40], line=line)
    if closed != "T":
        return
    if "S" in res and enc.decode(s) != res["S"]:
        ctx.mismatch(case, dict(stage="stored shelf tree", tree=_short(res["S"])), _short(enc.decode(s)), line=line)
    if "d2" in res and "uerr" not in res:
        if enc.decode(u) != res["d2"][0]:
            ctx.mismatch(case, dict(stage="after unshelve", tree=_short(res["d2"][0])), _short(enc.decode(u)), line=line)
        if int(nconf) != len(res["nconf"] or []):
            ctx.mismatch(case, dict(stage="conflicts", n=len(res["nconf"] or [])), nconf, line=line)
        miss2 = sorted(enc.ids[f] for f in res["d2"][1])
        if miss2 != enc.idlist(m2):
            ctx.mismatch(case, dict(stage="missing after unshelve", ids=miss2), m2, line=line)
    elif "uerr" in res and not reoccupied(enc.an, case["sel"]):
        # (a failed unshelve in the reoccupied-path family is already reported by the oracle under its family)
        ctx.mismatch(case, dict(stage="unshelve", err=res["uerr"]), "ok", line=line)


def run_scenarios(ctx, seeds, cap, variant):
    jobs, meta = [], []
    for seedt in seeds:
        try:
            sc = build_scenario(seedt)
            an = analyse(sc)
        except Exception as e:  # noqa
            ctx.count("scenario-build-failed:" + type(e).__name__)
            continue
        except BaseException as e:  # noqa  (pyo3 PanicException derives from BaseException)
            if type(e).__name__ != "PanicException":
                raise
            ctx.count("scenario-build-failed:PanicException")
            continue
        for o in sc["ops"]:
            ctx.count("op:" + o)
        ctx.count("format:" + sc["fmt"])
        n = len(an["items"])
        ctx.count("items:%d" % min(n, 9))
        if n == 0:
            continue
        enc = Enc(an)
        subs, full = subsets_of(ctx, n, cap)
        if full:
            ctx.count("scenarios-with-all-subsets")
        for j, sel in enumerate(subs):
            via = "content" if (j + len(sel)) % 3 == 0 else "lines"
            jobs.append((sc, an, sel, via))
            meta.append((sc, an, enc, sel, via))
    results = ctx.pmap(run_case, jobs)
    lines, pend = [], []
    for (sc, an, enc, sel, via), res in zip(meta, results):
        r = check_result(ctx, sc, an, enc, sel, via, res, variant)
        if r is None:
            continue
        case, line, is_closed = r
        if line is None:
            continue
        lines.append(line)
        pend.append((enc, case, line, res, is_closed))
    if lines and ctx.model_available:
        for (enc, case, line, res, is_closed), reply in zip(pend, ctx.model(lines)):
            compare_model(ctx, enc, case, line, reply, res, is_closed)
    for sc in {id(m[0]): m[0] for m in meta}.values():
        shutil.rmtree(sc["dir"], ignore_errors=True)


# --------------------------------------------------------------------------
# shelf ids

STRAYS = ["shelf-0", "shelf-03", "shelf-7x", "shelf-12.~1~", "xshelf-4", "shelf-", "README", "shelf--2", "shelf-9 9"]


def run_manager(ctx, idx):
    from breezy import shelf
    from breezy.workingtree import WorkingTree
    rng = random.Random("mgr %d %d" % (ctx.seed, idx))
    wt = _probe_tree()
    d = wt.basedir
    mgr = wt.get_shelf_manager()
    sdir = mgr.transport.local_abspath(".")
    messages = {}
    lines, impls, cases = [], [], []
    strays_present = False
    for step in range(rng.randint(4, 14)):
        before = mgr.active_shelves()
        names = sorted(os.listdir(sdir))
        r = rng.random()
        case = dict(mgr=idx, step=step, names=names)
        # listing against the model
        cases.append(dict(case, op="list"))
        lines.append("names %s" % (",".join(n.replace(" ", "_") for n in names) or "-"))
        impls.append(",".join(str(x) for x in sorted(mgr.get_shelf_ids([n.replace(" ", "_") for n in names]))) or "-")
        if r < 0.5 or step < 3:
            with open(d + "/t", "ab") as f:
                f.write(b"step %d\n" % step)
            with wt.lock_tree_write():
                cr = shelf.ShelfCreator(wt, wt.basis_tree())
                try:
                    cr.shelve_all()
                    sid = mgr.shelve_changes(cr, "m%d" % step)
                finally:
                    cr.finalize()
            after = mgr.active_shelves()
            messages[sid] = "m%d" % step
            ctx.count("mgr:new")
            ctx.case(dict(mgr="new", before=before))
            cases.append(dict(case, op="new"))
            lines.append("mgr %s n" % (",".join(map(str, before)) or "-"))
            impls.append("%d | %s" % (sid, ",".join(map(str, sorted(after, reverse=True)))))
            if not strays_present:
                if sid in before or any(sid <= x for x in before) or sorted(before + [sid]) != after:
                    ctx.violation(dict(case, op="new"), "new shelf id %d not fresh/monotone: before %r after %r" % (sid, before, after))
        elif r < 0.75:
            k = rng.choice(before[:-1] or before) if before and rng.random() < 0.8 else rng.randint(1, 9)
            try:
                mgr.delete_shelf(k)
                out = "ok"
            except Exception as e:  # noqa
                out = "E"
                ctx.count("mgr:delete-error:" + type(e).__name__)
            after = mgr.active_shelves()
            ctx.count("mgr:delete")
            ctx.case(dict(mgr="delete", before=before, k=k))
            if not strays_present:
                cases.append(dict(case, op="delete", k=k))
                lines.append("mgr %s d%d" % (",".join(map(str, before)) or "-", k))
                impls.append("%s | %s" % (out, ",".join(map(str, sorted(after, reverse=True))) or "-"))
                exp = [x for x in before if x != k]
                if after != exp or (out == "ok") != (k in before):
                    ctx.violation(dict(case, op="delete", k=k), "delete_shelf(%d): before %r after %r (%s)" % (k, before, after, out))
            messages.pop(k, None)
        elif r < 0.9 and before and not strays_present:
            k = mgr.last_shelf()
            wt2 = WorkingTree.open(d)
            with wt2.lock_tree_write():
                u = wt2.get_shelf_manager().get_unshelver(k)
                try:
                    u.make_merger().do_merge()
                finally:
                    u.finalize()
                wt2.get_shelf_manager().delete_shelf(k)
            wt2.revert()
            messages.pop(k, None)
            ctx.count("mgr:unshelve-last")
            if k != max(before):
                ctx.violation(dict(case, op="last"), "last_shelf %r is not the newest of %r" % (k, before))
        else:
            n = rng.choice(STRAYS)
            with open(os.path.join(sdir, n), "wb") as f:
                f.write(b"x")
            strays_present = True
            ctx.count("mgr:stray-file")
        # surviving shelves keep their message
        for k, m in messages.items():
            try:
                got = mgr.get_metadata(k).get(b"message")
            except Exception as e:  # noqa
                got = "E:" + type(e).__name__
            if got != m:
                ctx.violation(dict(case, op="survive", k=k), "shelf %d lost its content: message %r != %r" % (k, got, m))
    if ctx.model_available:
        outs = ctx.model(lines)
        for c, l, i, m in zip(cases, lines, impls, outs):
            ctx.traces += 1
            if c["op"] == "list":
                m = ",".join(sorted(m.split(","), key=int)) if m != "-" else m
                i = ",".join(sorted(i.split(","), key=int)) if i != "-" else i
            elif " | " in m:
                head, tail = m.split(" | ")
                m = head + " | " + (",".join(sorted(tail.split(","), key=int, reverse=True)) if tail != "-" else tail)
            if i != m:
                ctx.mismatch(c, i, m, line=l)
    shutil.rmtree(d, ignore_errors=True)


def manager_sequences(ctx):
    """op lists for the long manager stream: corpus first, then per seed >= 12 shelves with interleaved deletes
    (always crossing the 9 -> 10 boundary with ten or more live shelves)"""
    import glob
    import json
    seqs = []
    for f in sorted(glob.glob(os.path.join(env.VERIF, "corpus", "C15", "*.json"))):
        try:
            c = json.load(open(f))
        except Exception:  # noqa
            continue
        if "mgr_ops" in c:
            seqs.append(("corpus:" + os.path.basename(f), list(c["mgr_ops"])))
    rng = random.Random("mgrlong %d" % ctx.seed)
    for j in range(ctx.pick(1, 6)):
        ops, live, nxt = [], [], 1
        while sum(1 for o in ops if o == "n") < 14 + 2 * j:
            if live and len(live) > 3 and rng.random() < 0.3 and (nxt < 9 or len(live) > 10):
                k = rng.choice(live[:-1])          # never the newest: ids keep growing
                live.remove(k)
                ops.append("d%d" % k)
            else:
                ops.append("n")
                live.append(nxt)
                nxt += 1
        # a tail that deletes a low id and shelves again while >= 10 shelves are live
        ops += ["d%d" % live[0], "n", "n"]
        seqs.append(("seed:%d:%d" % (ctx.seed, j), ops))
    return seqs


def run_manager_long(ctx, name, ops):
    """drive one real ShelfManager through `ops` ('n' = shelve a new, distinct change; 'd<k>' = delete shelf k) and
    check after EVERY step: a new id is not the id of a live shelf, every live shelf still holds exactly the change
    shelved under its id (message and stored text read back), last_shelf() is the numerically largest live id and
    active_shelves() is numerically sorted = the ids the harness knows to be live"""
    from breezy import shelf
    wt = _probe_tree()
    d = wt.basedir
    mgr = wt.get_shelf_manager()
    held = {}        # id -> (message, text of t stored on that shelf)
    done = []
    lines, impls, cases = [], [], []
    cops = []        # the same operations for the payload model (payload = step number)

    def fail(what):
        ctx.violation(dict(mgr_ops=list(ops), sequence=name, failed_after=list(done)), what)

    for step, op in enumerate(ops):
        before = sorted(held)
        if op == "n":
            text = b"a\nb\nc\nchange of step %d\n" % step
            msg = "change %d" % step
            with open(d + "/t", "wb") as f:
                f.write(text)
            with wt.lock_tree_write():
                cr = shelf.ShelfCreator(wt, wt.basis_tree())
                try:
                    cr.shelve_all()
                    sid = mgr.shelve_changes(cr, msg)
                finally:
                    cr.finalize()
            done.append("n->%d" % sid)
            cops.append("n%d" % step)
            ctx.count("mgr-long:new")
            lines.append("mgr %s n" % (",".join(map(str, before)) or "-"))
            cases.append(dict(mgr_ops=list(ops), sequence=name, step=step))
            impls.append(str(sid))
            if sid in held:
                fail("new_shelf() handed out id %d although shelf %d is live (live: %r): the change shelved there "
                     "(%r) is overwritten" % (sid, sid, before, held[sid][0]))
            elif before and sid <= max(before):
                fail("new shelf id %d does not exceed the live ids %r" % (sid, before))
            held[sid] = (msg, text)
        else:
            k = int(op[1:])
            cops.append("d%d" % k)
            try:
                mgr.delete_shelf(k)
                done.append("d%d" % k)
                if k not in held:
                    fail("delete_shelf(%d) succeeded but no such shelf was live (%r)" % (k, before))
                held.pop(k, None)
            except Exception as e:  # noqa
                done.append("d%d!%s" % (k, type(e).__name__))
                if k in held:
                    fail("delete_shelf(%d) failed (%s) although the shelf is live" % (k, type(e).__name__))
            ctx.count("mgr-long:delete")
        ctx.case(dict(mgr_long=name, step=step, op=op, live=before))
        # ---- invariants after every step ---------------------------------------
        live = sorted(held)
        act = mgr.active_shelves()
        if act != live:
            fail("active_shelves() = %r, expected the live ids in numeric order %r" % (act, live))
        last = mgr.last_shelf()
        if last != (max(live) if live else None):
            fail("last_shelf() = %r, the newest live shelf is %r (live: %r)" % (last, max(live) if live else None, live))
        for k, (msg, text) in sorted(held.items()):
            try:
                got_msg = mgr.get_metadata(k).get(b"message")
                with wt.lock_tree_write():
                    u = mgr.get_unshelver(k)
                    try:
                        pt = u.transform.get_preview_tree()
                        got_text = pt.get_file_text("t")
                    finally:
                        u.finalize()
            except Exception as e:  # noqa
                got_msg, got_text = "E:" + type(e).__name__, None
            if got_msg != msg or got_text != text:
                fail("shelf %d no longer holds the change shelved under that id: message %r (expected %r), text %r "
                     "(expected %r)" % (k, got_msg, msg, got_text and got_text[-24:], text[-24:]))
                held[k] = (got_msg, got_text)      # report once
        if len(ctx.violations) > 40:
            break
    if ctx.model_available and lines:
        # the whole sequence against the payload model: which shelf holds which change at the end
        cline = "mgrc - %s" % (",".join(cops) or "-")
        final = ",".join("%d:%s" % (k, held[k][0].split(" ")[1]) for k in sorted(held, reverse=True)
                         if isinstance(held[k][0], str) and held[k][0].startswith("change ")) or "-"
        outs = ctx.model(lines + [cline])
        for c, l, i, m in zip(cases, lines, impls, outs):
            ctx.traces += 1
            if i != m.split(" ")[0]:
                ctx.mismatch(c, i, m, line=l)
        ctx.traces += 1
        got = ",".join(sorted(outs[-1].split(","), key=lambda x: -int(x.split(":")[0]))) if outs[-1] not in ("-", "bad-op") else outs[-1]
        if got != final:
            ctx.mismatch(dict(mgr_ops=list(ops), sequence=name, stage="shelves and their payload at the end"), final, got, line=cline)
    shutil.rmtree(d, ignore_errors=True)


def run_empty_basis(ctx):
    """a tree without any commit: the basis has no root and the addition of the root is never shelved (write_shelf
    supplies it).  Oracle only (the model's trees have a root): every closed subset of the additions is shelved,
    leaves exactly the others, and unshelving restores the tree; a selection that is not closed (a child without
    its added directory) is either refused with the tree unchanged or belongs to the unclosed-selection family"""
    import itertools
    from breezy import shelf
    from breezy.workingtree import WorkingTree
    names = ["f", "d", "d/g", "d/e", "d/e/h"]
    kinds = {"f": "file", "d": "dir", "d/g": "file", "d/e": "dir", "d/e/h": "file"}
    ids = {n: ("id-" + n.replace("/", "_")).encode() for n in names}
    subsets = [c for r in range(len(names) + 1) for c in itertools.combinations(names, r)]
    if ctx.tier != "thorough":
        subsets = [subsets[0], subsets[-1]] + ctx.rng.sample(subsets[1:-1], 6)
    for sel in subsets:
        wt = env.make_tree("2a")
        d = wt.basedir
        for n in names:
            if kinds[n] == "dir":
                os.mkdir(os.path.join(d, n))
            else:
                with open(os.path.join(d, n), "wb") as f:
                    f.write(n.encode() + b"\n")
        wt.add(names, ids=[ids[n] for n in names])
        before = dump_wt(d)[:6]
        case = dict(empty_basis=True, sel=list(sel))
        closed = all(os.path.dirname(n) in ("",) + sel for n in sel)
        ctx.case(case, nontrivial=bool(sel))
        ctx.count("empty-basis:%s" % ("closed" if closed else "not-closed"))
        err = sid = None
        try:
            with wt.lock_tree_write():
                cr = shelf.ShelfCreator(wt, wt.basis_tree())
                try:
                    for ch in cr.iter_shelvable():
                        if ch[1] in [ids[n] for n in sel]:
                            cr.shelve_change(ch)
                    sid = wt.get_shelf_manager().shelve_changes(cr)
                finally:
                    cr.finalize()
        except Exception as e:  # noqa
            err = err_kind(e)
        mid = dump_wt(d)
        if err is not None:
            ctx.count("empty-basis-refused:" + err)
            if mid[:3] != before[:3]:
                ctx.violation(case, "empty basis: shelving failed with %s but the tree changed" % err)
            # (a selection whose remaining tree lacks an added directory is refused by the work transform)
            if closed and all(not (m.startswith(n + "/")) for n in sel for m in names if m not in sel):
                ctx.violation(case, "empty basis: a closed selection was refused: %s" % err)
            shutil.rmtree(d, ignore_errors=True)
            continue
        gone = {ids[n] for n in sel}
        if set(mid[0]) != set(before[0]) - gone:
            ctx.violation(case, "empty basis: after shelving the versioned ids are %r, expected %r" % (
                sorted(mid[0]), sorted(set(before[0]) - gone)))
        fam = None if closed else FAM_UNCLOSED
        try:
            wt2 = WorkingTree.open(d)
            with wt2.lock_tree_write():
                u = wt2.get_shelf_manager().get_unshelver(sid)
                try:
                    nconf = u.make_merger().do_merge()
                finally:
                    u.finalize()
            after = dump_wt(d)
            if nconf or after[0] != before[0] or after[1] != before[1] or after[5] != before[5]:
                ctx.violation(case, "empty basis: unshelving does not restore the tree (conflicts %r, differing ids %r)" % (
                    nconf, [f.decode() for f, a, e, g in diff_dumps(before[0], after[0])]), family=fam)
        except Exception as e:  # noqa
            if fam is None and sel and err_kind(e) == "E:NoFinalPath":
                # a closed selection in a tree without commits: the stored root has no name
                fam = FAM_EMPTY
            ctx.violation(case, "tree without commits: add %s; shelve %s: the additions left the tree but the shelf "
                          "cannot be unshelved: %s %s" % (names, list(sel), err_kind(e), str(e).split("\n")[0][:120]),
                          family=fam)
        shutil.rmtree(d, ignore_errors=True)


def run_git(ctx):
    """git working trees refuse shelving; nothing may change"""
    from breezy import workingtree
    wt = env.make_tree("git")
    d = wt.basedir
    with open(d + "/a", "wb") as f:
        f.write(b"1\n")
    wt.add(["a"])
    wt.commit("base")
    with open(d + "/a", "wb") as f:
        f.write(b"2\n")
    before = sorted(os.listdir(d)), open(d + "/a", "rb").read()
    try:
        wt.get_shelf_manager()
        out = "ok"
    except workingtree.ShelvingUnsupported:
        out = "E:ShelvingUnsupported"
    except Exception as e:  # noqa
        out = "E:" + type(e).__name__
    ctx.count("git:" + out)
    ctx.case(dict(git=out), nontrivial=False)
    if (sorted(os.listdir(d)), open(d + "/a", "rb").read()) != before:
        ctx.violation(dict(git=True), "git tree changed by a refused shelve")
    ctx.extra["git_shelving"] = out
    shutil.rmtree(d, ignore_errors=True)


PROBE_INPUTS = dict(
    keepExec="add an executable file n, shelve everything, unshelve: n is no longer executable",
    freshExec="edit t and chmod +x t, shelve everything (the chmod stays), unshelve: t is no longer executable",
    pathCheck="remove t, add a new file under the name t, shelve everything: refused, or t-id does not come back",
)


def run(ctx, nscen=None, cap=None):
    keep, fresh, pathcheck, closedcheck = probe_variant()
    variant = "".join("T" if x else "F" for x in (keep, fresh, pathcheck, closedcheck))
    ctx.extra["variant"] = dict(keepExec=keep, freshExec=fresh, pathCheck=pathcheck, closedCheck=closedcheck)
    # the theorems that speak about /repo are those of the repaired variant: a probe that selects a defective
    # behaviour IS a concrete failing input of the property
    for name, ok in (("keepExec", keep), ("freshExec", fresh), ("pathCheck", pathcheck)):
        if not ok:
            ctx.violation(dict(probe=name), "probe %s: %s" % (name, PROBE_INPUTS[name]), family=None)
    if not closedcheck:
        ctx.violation(dict(probe="closedCheck"),
                      "mkdir nd; add nd nd/f; shelve only the addition of nd/f: accepted, nd/f leaves the tree and the shelf "
                      "cannot be unshelved (the tree to be stored has a file whose parent directory is absent)",
                      family=FAM_UNCLOSED)
    nscen = nscen or ctx.pick(16, 400)
    cap = cap or ctx.pick(20, 64)
    seeds = [(ctx.seed, FORMATS[i % len(FORMATS)], i) for i in range(nscen)]
    run_scenarios(ctx, seeds, cap, variant)
    for name, ops in manager_sequences(ctx):
        run_manager_long(ctx, name, ops)
    for i in range(ctx.pick(6, 30)):
        run_manager(ctx, i)
    run_empty_basis(ctx)
    run_git(ctx)
    fams = {}
    for v in ctx.violations:
        fams[str(v["family"])] = fams.get(str(v["family"]), 0) + 1
    ctx.extra["violation_families"] = fams


def widen(ctx):
    run(ctx, nscen=60, cap=64)


def replay(ctx, case):
    if "probe" in case:
        v = probe_variant()
        return dict(case=case, variant=dict(zip(("keepExec", "freshExec", "pathCheck", "closedCheck"), v)),
                    note="a False flag is the defective behaviour described in the violation text")
    if "mgr_ops" in case:
        run_manager_long(ctx, case.get("sequence", "replay"), case["mgr_ops"])
        return dict(case=case, oracle_failures=[v["what"] for v in ctx.violations])
    if "empty_basis" in case:
        return dict(case=case, note="re-run the check with the same seed (run_empty_basis enumerates the subsets of 5 additions)")
    if "scenario" not in case:
        return dict(case=case, note="short manager / git cases are replayed by re-running the check with the same seed")
    variant = "".join("T" if x else "F" for x in probe_variant())
    sc = build_scenario(tuple(case["scenario"]))
    an = analyse(sc)
    enc = Enc(an)
    res = run_case((sc, an, case["sel"], case.get("via", "lines")))
    r = check_result(ctx, sc, an, enc, case["sel"], case.get("via", "lines"), res, variant)
    out = dict(case=case, oracle_failures=[v["what"] for v in ctx.violations],
               impl=dict(err=res["err"], after_shelve=_short(res["d1"][0]),
                         after_unshelve=_short(res["d2"][0]) if "d2" in res else None, unshelve_error=res.get("uerr")))
    if r is not None and r[1] is not None and ctx.model_available:
        out["model"] = ctx.model([r[1]])[0]
        compare_model(ctx, enc, r[0], r[1], out["model"], res, r[2])
        out["agree"] = not ctx.mismatches
    shutil.rmtree(sc["dir"], ignore_errors=True)
    return out
