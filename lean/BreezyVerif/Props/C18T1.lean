import BreezyVerif.Model.C18
import BreezyVerif.Generated.C18
/-! C18 — T1 tie: the definitions regenerated from the current source of
`Merge3Merger._three_way` and `Merge3Merger._lca_multi_way` equal the model
(for every value type, every LCA list, both flag values). -/
namespace BreezyVerif.C18
variable {α : Type} [DecidableEq α]

/-- T1: the function transcribed from the current source equals the model. -/
theorem three_way_gen_eq (b o t : α) : threeWayGen b o t = threeWay b o t := by
  unfold threeWayGen threeWay
  grind

/-- `set(l)` has the members of `l` -/
theorem mem_pySet (x : α) (l : List α) : x ∈ pySet l ↔ x ∈ l := by
  induction l with
  | nil => simp [pySet]
  | cons y ys ih =>
    have hc : pySet (y :: ys) = if y ∈ pySet ys then pySet ys else y :: pySet ys := rfl
    rw [hc]
    by_cases h : y ∈ pySet ys
    · rw [if_pos h, ih, List.mem_cons]
      constructor
      · exact Or.inr
      · rintro (rfl | h')
        · exact ih.mp h
        · exact h'
    · rw [if_neg h, List.mem_cons, List.mem_cons, ih]

theorem pySet_eq_nil (l : List α) : pySet l = [] ↔ l = [] := by
  constructor
  · intro h
    cases l with
    | nil => rfl
    | cons y ys =>
      have : y ∈ pySet (y :: ys) := (mem_pySet y _).mpr List.mem_cons_self
      rw [h] at this; cases this
  · rintro rfl; rfl

/-- `len(set(l)) == 1` with element `p`  ⇔  `l` is non-empty and all its
members equal `p` -/
theorem pySet_eq_singleton (l : List α) (p : α) :
    pySet l = [p] ↔ l ≠ [] ∧ ∀ w ∈ l, w = p := by
  induction l with
  | nil => simp [pySet]
  | cons y ys ih =>
    have hc : pySet (y :: ys) = if y ∈ pySet ys then pySet ys else y :: pySet ys := rfl
    rw [hc]
    by_cases h : y ∈ pySet ys
    · rw [if_pos h]
      constructor
      · intro hs
        have hy : y = p := by rw [hs] at h; simpa using h
        obtain ⟨_, hall⟩ := ih.mp hs
        refine ⟨List.cons_ne_nil _ _, ?_⟩
        intro w hw
        rcases List.mem_cons.mp hw with rfl | hw
        · exact hy
        · exact hall w hw
      · rintro ⟨_, hall⟩
        have hne : ys ≠ [] := by
          intro e; subst e; simp [pySet] at h
        exact ih.mpr ⟨hne, fun w hw => hall w (List.mem_cons_of_mem _ hw)⟩
    · rw [if_neg h]
      constructor
      · intro hs
        have hy : y = p := by injection hs
        have hnil : pySet ys = [] := by injection hs
        have : ys = [] := (pySet_eq_nil ys).mp hnil
        subst this
        exact ⟨List.cons_ne_nil _ _, by intro w hw; simpa [hy] using hw⟩
      · rintro ⟨_, hall⟩
        have hy : y = p := hall y List.mem_cons_self
        cases ys with
        | nil => simp [pySet, hy]
        | cons z zs =>
          exfalso
          have hz : z = p := hall z (by simp)
          apply h
          rw [mem_pySet, hy, hz]
          exact List.mem_cons_self

/-- T1: `_lca_multi_way` transcribed from the current source (filter, `set`,
`len(...) == 1` / `pop()`, membership cascade, flag with its default) equals
the model, for every value type, LCA list and flag value. -/
theorem lca_multi_way_gen_eq (b : α) (ls : List α) (o t : α) (a : Bool) :
    lcaMultiWayGen (b, ls) o t a = lcaMultiWay b ls o t a := by
  unfold lcaMultiWayGen lcaMultiWay
  by_cases hot : o = t
  · rw [if_pos hot, if_pos hot]
  · rw [if_neg hot, if_neg hot]
    simp only [three_way_gen_eq]
    cases hf : ls.filter (fun v => decide (v ≠ b)) with
    | nil => simp
    | cons v rest =>
      have hne : ¬ (v :: rest) = [] := List.cons_ne_nil v rest
      simp only [hne, if_false]
      by_cases hall : rest.all (fun w => decide (w = v)) = true
      · have hs : pySet (v :: rest) = [v] := by
          rw [pySet_eq_singleton]
          refine ⟨List.cons_ne_nil _ _, ?_⟩
          intro w hw
          rcases List.mem_cons.mp hw with rfl | hw
          · rfl
          · exact of_decide_eq_true ((List.all_eq_true.mp hall) w hw)
        rw [hs]
        simp only [hall, if_true]
      · have hns : ∀ p, pySet (v :: rest) ≠ [p] := by
          intro p hp
          obtain ⟨_, hp⟩ := (pySet_eq_singleton _ _).mp hp
          apply hall
          have hv : v = p := hp v List.mem_cons_self
          rw [List.all_eq_true]
          intro w hw
          exact decide_eq_true ((hp w (List.mem_cons_of_mem _ hw)).trans hv.symm)
        simp only [hall]
        -- the one-element pattern cannot match (`hns` discharges the match equation)
        simp only [mem_pySet]
        cases a <;> simp

/-- the flag's default in the source is `True`, as in the model -/
theorem lca_multi_way_gen_default (b : α) (ls : List α) (o t : α) :
    lcaMultiWayGen (b, ls) o t = lcaMultiWay b ls o t := lca_multi_way_gen_eq b ls o t true

end BreezyVerif.C18
