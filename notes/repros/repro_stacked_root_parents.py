"""Standalone repro (unchanged /repo).

Family: stacked-smart-source-rich-root-upgrade-root-parents-not-heads
A non-rich-root repository S (format 1.9) stacked on a fallback F is fetched through the smart server into a
rich-root (2a) target.  The root texts the upgrade synthesises are generated SERVER-side
(StreamSource.get_stream -> Inter1and2Helper.generate_root_texts) from S opened WITHOUT its fallback, so
graph.heads() cannot see ancestry that passes through fallback-only revisions: the root text of a merge whose one
parent is an ancestor of the other (through the fallback) gets BOTH parents as per-file parents.  The same history
fetched from an unstacked repository (or locally) gives only the head parent; the per-file history of the target thus
depends on where the source happened to be split.
Run: /venv/bin/python repro_stacked_root_parents.py   (exit 1 = reproduced)
"""
import os, sys, tempfile, shutil
home = tempfile.mkdtemp(prefix="repro-", dir="/var/tmp")
os.environ.update(HOME=home, BRZ_HOME=home, BRZ_EMAIL="T <t@example.com>", BRZ_PLUGIN_PATH="-user:-site")
sys.path.insert(0, os.environ.get("VERIF_REPO", "/repo"))
import breezy
breezy.initialize()
import breezy.bzr, breezy.bzr.bzrdir, breezy.bzr.groupcompress_repo  # noqa
from breezy import plugin, ui, trace, transport
plugin.load_plugins(); ui.ui_factory = ui.SilentUIFactory(); trace.be_quiet(True)
from breezy.branch import Branch
from breezy.branchbuilder import BranchBuilder
from breezy.bzr.smart import server as smart_server
from breezy.controldir import ControlDir, format_registry
from breezy.repository import Repository

fmt = format_registry.make_controldir("1.9")
os.mkdir(os.path.join(home, "A"))
bb = BranchBuilder(transport.get_transport(os.path.join(home, "A")), format=fmt)
bb.build_snapshot([], [("add", ("", b"root-id", "directory", None)), ("add", ("f", b"f-id", "file", b"1\n"))], revision_id=b"r1")
bb.build_snapshot([b"r1"], [("modify", ("f", b"2\n"))], revision_id=b"r2")        # fallback only
bb.build_snapshot([b"r2"], [("modify", ("f", b"3\n"))], revision_id=b"r3")        # stacked
bb.build_snapshot([b"r1", b"r3"], [("modify", ("f", b"3\n"))], revision_id=b"m")  # merge: r1 is an ancestor of r3 (through r2)
A = Repository.open(os.path.join(home, "A"))
fcd = ControlDir.create(os.path.join(home, "F"), format=fmt)
fcd.create_repository().fetch(A, revision_id=b"r2"); fcd.create_branch()
scd = ControlDir.create(os.path.join(home, "S"), format=fmt)
scd.create_repository(); scd.create_branch().set_stacked_on_url("../F")
Branch.open(os.path.join(home, "S")).pull(Branch.open(os.path.join(home, "A")), overwrite=True, stop_revision=b"m")
print("stacked repository holds", sorted(Repository.open(os.path.join(home, "S")).all_revision_ids()))
srv = smart_server.SmartTCPServer(transport.get_transport(home), client_timeout=60.0)
srv.start_server("127.0.0.1", 0); srv.start_background_thread("-repro")
out = {}
try:
    for name, src in (("from-stacked-smart", lambda: Branch.open("bzr://127.0.0.1:%d/S/" % srv.port).repository),
                      ("from-unstacked-smart", lambda: ControlDir.open("bzr://127.0.0.1:%d/A/" % srv.port).open_repository())):
        T = ControlDir.create(os.path.join(home, "T-" + name), format=format_registry.make_controldir("2a")).create_repository()
        T.fetch(src(), revision_id=b"m")
        T = Repository.open(os.path.join(home, "T-" + name))
        with T.lock_read():
            out[name] = T.texts.get_parent_map([(b"root-id", b"m")])[(b"root-id", b"m")]
        print(name, "root text parents of m:", out[name])
finally:
    srv.stop_background_thread()
shutil.rmtree(home, ignore_errors=True)
sys.exit(1 if out["from-stacked-smart"] != out["from-unstacked-smart"] else 0)
