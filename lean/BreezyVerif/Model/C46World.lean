/-
C46 — refinement of the layout model of `Model/C46.lean`: what `delete_items`
does to the *file system*, not to the abstract layout.

`Model/C46.lean` removes "the entry at a path" (`Forest.remove`), which cannot
tell `shutil.rmtree` from `os.unlink`, cannot represent anything outside the
tree and has the dry-run test in `clean_tree`.  Here:

* a `World` is the tree's layout, an area outside the tree, and the targets of
  those links-to-directories of the tree that point into that area;
* a path handed to `os.unlink` / `shutil.rmtree` is resolved the way the kernel
  does it: every component but the last is followed if it is a symbolic link to
  a directory (so `tree/lnk/x` names `outside/od/x` when `lnk -> outside/od`),
  the last component is not (`lstat` semantics of both primitives);
* `os.unlink` refuses a real directory, `shutil.rmtree` refuses everything but
  a real directory (a symbolic link: `OSError("Cannot call rmtree on a symbolic
  link")`; a file: `NotADirectoryError`, re-raised by `onerror`);
* `delete_items(deletables, dry_run)` chooses the primitive with
  `osutils.isdir` (`lstat`; the parameter `follow` is the `os.path.isdir`
  variant, for the witness of what that would do) and tests `dry_run` per item.

`Props/C46.lean` proves that on the paths `clean_tree` selects this model and
the abstract one agree, and that the outside area is never changed.
-/
import BreezyVerif.Model.C46
namespace BreezyVerif.C46

structure World where
  tree : Forest
  /-- an area outside the tree (no links are followed inside it) -/
  outside : Forest
  /-- tree path of a link-to-directory ↦ the directory of `outside` it points to;
  a link-to-directory without an entry here points elsewhere (into the tree,
  to a place that is not observed): resolving through it is not modelled and
  reported as an error -/
  targets : List (Path × Path)
  deriving DecidableEq, Repr

inductive Prim where
  | unlink | rmtree
  deriving DecidableEq, Repr

/-- which kinds of entry the primitive removes without raising -/
def Prim.accepts : Prim → Kind → Bool
  | .unlink, k => k != .dir
  | .rmtree, k => k == .dir

/-- `isdir(path)`: `osutils.isdir` is `lstat`-based (`follow = false`);
`os.path.isdir` follows links (`follow = true`) -/
def isdirAs (follow : Bool) (k : Kind) : Bool := k == .dir || (follow && k == .linkDir)

/-- the primitive `delete_items` calls for an entry of this kind -/
def primFor (follow : Bool) (k : Kind) : Prim := if isdirAs follow k then .rmtree else .unlink

/-- removal inside a link-free area: every component but the last must be a
real directory; the last is removed by the primitive chosen for its kind, with
everything below it (`rmtree` does not follow links either) -/
def removeAt (follow : Bool) : Forest → Path → Option Forest
  | .nil, _ => none
  | .cons i kids rest, p =>
    match p with
    | [] => none
    | n :: q =>
      if i.name = n then
        (match q with
         | [] => if (primFor follow i.kind).accepts i.kind then some rest else none
         | _ :: _ =>
           if i.kind == .dir then (removeAt follow kids q).map fun k => .cons i k rest else none)
      else (removeAt follow rest p).map fun r => .cons i kids r

/-- `delete_items` on one path of the tree: resolve from the tree root (`pre` =
the components walked so far), following links to directories at every
component but the last; `(tree', outside')` or `none` = an error was raised -/
def delIn (follow : Bool) (out : Forest) (tg : List (Path × Path)) :
    Path → Forest → Path → Option (Forest × Forest)
  | _, .nil, _ => none
  | pre, .cons i kids rest, p =>
    match p with
    | [] => none
    | n :: q =>
      if i.name = n then
        (match q with
         | [] => if (primFor follow i.kind).accepts i.kind then some (rest, out) else none
         | _ :: _ =>
           if i.kind == .dir then
             (delIn follow out tg (pre ++ [n]) kids q).map fun r => (.cons i r.1 rest, r.2)
           else if i.kind == .linkDir then
             (match tg.lookup (pre ++ [n]) with
              | some t => (removeAt follow out (t ++ q)).map fun o => (.cons i kids rest, o)
              | none => none)
           else none)
      else (delIn follow out tg pre rest p).map fun r => (.cons i kids r.1, r.2)

/-- `delete_items(deletables, dry_run)`: the world reached and whether an error
escaped.  `if not dry_run:` is inside the loop, as in the code. -/
def deleteItemsW (follow dry : Bool) (w : World) : List Path → World × Bool
  | [] => (w, false)
  | p :: ps =>
    if dry then deleteItemsW follow dry w ps
    else
      match delIn follow w.outside w.targets [] w.tree p with
      | none => (w, true)
      | some (t, o) => deleteItemsW follow dry { w with tree := t, outside := o } ps

/-- `clean_tree(...)` on the world: selection on the tree's layout, then
`delete_items(deletables, dry_run=dry_run)` -/
def cleanTreeW (keep : Item → Bool) (fmt : Fmt) (o : Opts) (w : World) : World × Bool :=
  let sel := selectedWith keep fmt o w.tree
  if sel.isEmpty then (w, false)
  else if o.prompt = some false then (w, false)
  else deleteItemsW false o.dryRun w (sel.map (·.path))

/-- every component of `p` but the last names a real directory of the layout
(and `p` names an entry): the kernel resolves `p` without leaving the layout -/
def dirsAbove : Forest → Path → Bool
  | .nil, _ => false
  | .cons i kids rest, p =>
    match p with
    | [] => false
    | n :: q =>
      if i.name = n then
        (match q with
         | [] => true
         | _ :: _ => i.kind == .dir && dirsAbove kids q)
      else dirsAbove rest p

/-! ### the shape of an inventory -/

/-- no entry of this directory is versioned -/
def topUnversioned : Forest → Bool
  | .nil => true
  | .cons i _ rest => !i.versioned && topUnversioned rest

/-- the parent of a versioned entry (if it has one) is versioned: what an
inventory guarantees (`Inventory.add` requires the parent id to be present),
and what `is_versioned` of a git tree gives for directories (some index entry
lies below) -/
def invShaped : Forest → Bool
  | .nil => true
  | .cons i kids rest => (i.versioned || topUnversioned kids) && invShaped kids && invShaped rest

end BreezyVerif.C46
