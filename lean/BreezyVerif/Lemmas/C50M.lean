import BreezyVerif.Lemmas.C50
/-! C50 — the literal push-back machine (`mTokens`) computes `tokens`. -/
namespace BreezyVerif.C50

/-- the `for` loop of `_get_token`, structurally: final state (`none` = break),
context, unread input -/
def loopS (sq : Bool) : State → Ctx → Str → Option State × Ctx × Str
  | st, x, [] => (some st, x, [])
  | st, x, c :: cs =>
    match step1 sq st x c with
    | (none, x') => (none, x', cs)
    | (some st', x') => loopS sq st' x' cs

theorem loopS_rest_le (sq : Bool) (s : Str) : ∀ st x, (loopS sq st x s).2.2.length ≤ s.length := by
  induction s with
  | nil => intro st x; simp [loopS]
  | cons c cs ih =>
    intro st x
    simp only [loopS]
    split
    · simp
    · exact Nat.le_trans (ih _ _) (by simp)

theorem loopS_rest_some (sq : Bool) (s : Str) : ∀ st x st', (loopS sq st x s).1 = some st' →
    (loopS sq st x s).2.2 = [] := by
  induction s with
  | nil => intro st x st' _; simp [loopS]
  | cons c cs ih =>
    intro st x st' h
    simp only [loopS] at h ⊢
    split
    · rename_i h2; simp [h2] at h
    · rename_i st2 x2 h2
      simp only [h2] at h
      exact ih _ _ _ h

/-- context at the end of `_get_token` -/
def finO : Option State → Ctx → Ctx
  | some st, x => finish st x
  | none, x => x

theorem run_loopS (sq : Bool) (s : Str) : ∀ st x,
    run sq st x s = emit (finO (loopS sq st x s).1 (loopS sq st x s).2.1)
      (match (loopS sq st x s).1 with
        | some _ => []
        | none => run sq (.at (.plain .ws)) {} (loopS sq st x s).2.2) := by
  induction s with
  | nil => intro st x; simp [run_nil, loopS, finO]
  | cons c cs ih =>
    intro st x
    rw [run_cons]
    simp only [loopS]
    cases h : step1 sq st x c with
    | mk o x' =>
      cases o with
      | none => simp [cont, finO]
      | some st' => simp only [cont]; exact ih st' x'

/-! ### abstraction of the machine context -/

def abs (m : MCtx) : Ctx :=
  { quoted := m.quoted, touched := decide (m.token.length > 0), chars := m.token.flatten }

theorem abs_tok (m : MCtx) (p : Str) :
    abs { m with token := m.token ++ [p] } = (abs m).app p := by
  simp [abs, Ctx.app]

theorem abs_push (m : MCtx) (ps : List Char) : abs { m with push := ps } = abs m := rfl

theorem mproc_at (sq : Bool) (e : Exit) (m : MCtx) (c : Char) :
    (mproc sq (.at e) m c).1 = (procExit sq e (abs m) c).1 ∧
    abs (mproc sq (.at e) m c).2 = (procExit sq e (abs m) c).2 ∧
    (mproc sq (.at e) m c).2.push = m.push := by
  rcases e with (_ | _) | ⟨q, o⟩ <;> simp only [mproc, procExit] <;> (repeat' split) <;>
    simp_all [abs, Ctx.app]

theorem mloop_in_none {sq : Bool} {g : Nat} {st : State} {m x' : MCtx} {c : Char} {cs : Str}
    (hp : m.push = []) (hr : mproc sq st m c = (none, x')) :
    mloop sq (g + 1) st m (c :: cs) = some (none, x', cs) := by
  simp [mloop, hp, hr]

theorem mloop_in_some {sq : Bool} {g : Nat} {st st' : State} {m x' : MCtx} {c : Char} {cs : Str}
    (hp : m.push = []) (hr : mproc sq st m c = (some st', x')) :
    mloop sq (g + 1) st m (c :: cs) = mloop sq g st' x' cs := by
  simp [mloop, hp, hr]

theorem mloop_push_none {sq : Bool} {g : Nat} {st : State} {m x' : MCtx} {p : Char} {ps : List Char}
    {inp : Str} (hp : m.push = p :: ps) (hr : mproc sq st { m with push := ps } p = (none, x')) :
    mloop sq (g + 1) st m inp = some (none, x', inp) := by
  simp [mloop, hp, hr]

theorem mloop_push_some {sq : Bool} {g : Nat} {st st' : State} {m x' : MCtx} {p : Char}
    {ps : List Char} {inp : Str} (hp : m.push = p :: ps)
    (hr : mproc sq st { m with push := ps } p = (some st', x')) :
    mloop sq (g + 1) st m inp = mloop sq g st' x' inp := by
  simp [mloop, hp, hr]

theorem loopS_cons_none {sq : Bool} {st : State} {x x' : Ctx} {c : Char} {cs : Str}
    (h : step1 sq st x c = (none, x')) : loopS sq st x (c :: cs) = (none, x', cs) := by
  simp [loopS, h]

theorem loopS_cons_some {sq : Bool} {st st' : State} {x x' : Ctx} {c : Char} {cs : Str}
    (h : step1 sq st x c = (some st', x')) : loopS sq st x (c :: cs) = loopS sq st' x' cs := by
  simp [loopS, h]

/-- the machine's loop from a state whose push-back stack is empty -/
theorem mloop_eq (sq : Bool) (inp : Str) : ∀ (f : Nat) (st : State) (m : MCtx),
    m.push = [] → 2 * inp.length + 1 ≤ f →
    ∃ m', mloop sq f st m inp
        = some ((loopS sq st (abs m) inp).1, m', (loopS sq st (abs m) inp).2.2) ∧
      abs m' = (loopS sq st (abs m) inp).2.1 ∧ m'.push = [] := by
  induction inp with
  | nil =>
    intro f st m hp hf
    obtain ⟨f', rfl⟩ : ∃ f', f = f' + 1 := ⟨f - 1, by omega⟩
    exact ⟨m, by simp [mloop, hp, loopS], by simp [loopS], hp⟩
  | cons c cs ih =>
    intro f st m hp hf
    obtain ⟨f', rfl⟩ : ∃ f', f = f' + 1 := ⟨f - 1, by omega⟩
    simp only [List.length_cons] at hf
    -- `c` handled by an exit state: `m1` is the machine context just before
    -- (push-back stack already popped), `x1` the structural one
    have atStep : ∀ (g : Nat) (e : Exit) (m1 : MCtx) (st0 : State) (x0 : Ctx),
        m1.push = [] → 2 * cs.length + 1 ≤ g →
        step1 sq st0 x0 c = procExit sq e (abs m1) c →
        ∃ m', (match mproc sq (.at e) m1 c with
              | (none, x') => some (none, x', cs)
              | (some st', x') => mloop sq g st' x' cs)
            = some ((loopS sq st0 x0 (c :: cs)).1, m', (loopS sq st0 x0 (c :: cs)).2.2) ∧
          abs m' = (loopS sq st0 x0 (c :: cs)).2.1 ∧ m'.push = [] := by
      intro g e m1 st0 x0 hp1 hg hs
      obtain ⟨h1, h2, h3⟩ := mproc_at sq e m1 c
      cases hr : mproc sq (.at e) m1 c with
      | mk o x' =>
        rw [hr] at h1 h2 h3
        simp only at h1 h2 h3
        cases hq : procExit sq e (abs m1) c with
        | mk o2 x2 =>
          rw [hq] at h1 h2 hs
          simp only at h1 h2
          subst h1
          cases o with
          | none =>
            rw [loopS_cons_none hs]
            exact ⟨x', rfl, h2, by rw [h3, hp1]⟩
          | some st' =>
            rw [loopS_cons_some hs]
            have := ih g st' x' (by rw [h3, hp1]) hg
            rw [h2] at this
            exact this
    cases st with
    | «at» e =>
      obtain ⟨m', h1, h2⟩ := atStep f' e m (.at e) (abs m) hp (by omega) rfl
      refine ⟨m', ?_, h2⟩
      rw [← h1]
      cases hr : mproc sq (.at e) m c with
      | mk o x' =>
        cases o with
        | none => exact mloop_in_none hp hr
        | some st' => exact mloop_in_some hp hr
    | bs e n =>
      -- all push-back cases: the machine goes to `.at e` with `c` on the stack
      have pushCase : ∀ (m1 : MCtx), m1.push = [] →
          mproc sq (.bs e n) m c = (some (.at e), { m1 with push := [c] }) →
          step1 sq (.bs e n) (abs m) c = procExit sq e (abs m1) c →
          ∃ m', mloop sq (f' + 1) (.bs e n) m (c :: cs)
              = some ((loopS sq (.bs e n) (abs m) (c :: cs)).1, m',
                      (loopS sq (.bs e n) (abs m) (c :: cs)).2.2) ∧
            abs m' = (loopS sq (.bs e n) (abs m) (c :: cs)).2.1 ∧ m'.push = [] := by
        intro m1 hp1 hr hs
        obtain ⟨g, rfl⟩ : ∃ g, f' = g + 1 := ⟨f' - 1, by omega⟩
        obtain ⟨m', h1, h2⟩ := atStep g e m1 (.bs e n) (abs m) hp1 (by omega) hs
        refine ⟨m', ?_, h2⟩
        rw [← h1, mloop_in_some hp hr]
        have hpp : ({ m1 with push := [c] } : MCtx).push = c :: [] := rfl
        have hm1 : ({ ({ m1 with push := [c] } : MCtx) with push := [] } : MCtx) = m1 := by
          cases m1; simp_all
        cases hr2 : mproc sq (.at e) m1 c with
        | mk o x' =>
          cases o with
          | none => exact mloop_push_none hpp (by rw [hm1]; exact hr2)
          | some st' => exact mloop_push_some hpp (by rw [hm1]; exact hr2)
      by_cases hb : c = '\\'
      · subst hb
        have hr : mproc sq (.bs e n) m '\\' = (some (.bs e (n + 1)), m) := by simp [mproc]
        have hs : step1 sq (.bs e n) (abs m) '\\' = (some (.bs e (n + 1)), abs m) := by simp [step1]
        obtain ⟨m', h1, h2⟩ := ih f' (.bs e (n + 1)) m hp (by omega)
        refine ⟨m', ?_, ?_⟩
        · rw [mloop_in_some hp hr, loopS_cons_some hs]; exact h1
        · rw [loopS_cons_some hs]; exact h2
      · by_cases ha : allowed sq c = true
        · by_cases hodd : n % 2 = 1
          · -- literal quote
            have hr : mproc sq (.bs e n) m c
                = (some (.at e), { m with token := m.token ++ [rep (n / 2)] ++ [[c]] }) := by
              simp [mproc, hb, ha, hodd]
            have e1 : abs { m with token := m.token ++ [rep (n / 2)] ++ [[c]] }
                = ((abs m).app (rep (n / 2))).app [c] := by
              simp [abs, Ctx.app]
            have hs : step1 sq (.bs e n) (abs m) c
                = (some (.at e), ((abs m).app (rep (n / 2))).app [c]) := by
              simp [step1, hb, ha, hodd]
            obtain ⟨m', h1, h2⟩ := ih f' (.at e)
              { m with token := m.token ++ [rep (n / 2)] ++ [[c]] } hp (by omega)
            rw [e1] at h1 h2
            refine ⟨m', ?_, ?_⟩
            · rw [mloop_in_some hp hr, loopS_cons_some hs]; exact h1
            · rw [loopS_cons_some hs]; exact h2
          · exact pushCase { m with token := m.token ++ [rep (n / 2)] } hp
              (by simp [mproc, hb, ha, hodd, hp])
              (by rw [abs_tok]; simp [step1, hb, ha, hodd])
        · have ha' : allowed sq c = false := by simpa using ha
          by_cases hn : n > 0
          · exact pushCase { m with token := m.token ++ [rep n] } hp
              (by simp [mproc, hb, ha', hn, hp])
              (by rw [abs_tok]; simp [step1, hb, ha', hn])
          · exact pushCase m hp
              (by simp [mproc, hb, ha', hn, hp])
              (by simp [step1, hb, ha', hn])

theorem abs_mfinish (st : State) (m : MCtx) : abs (mfinish st m) = finish st (abs m) := by
  cases st with
  | «at» e => rfl
  | bs e n =>
    simp only [mfinish, finish]
    split
    · exact abs_tok m (rep n)
    · rfl

theorem mGetToken_eq (sq : Bool) (inp : Str) :
    mGetToken sq [] inp =
      let l := loopS sq (.at (.plain .ws)) {} inp
      let x := finO l.1 l.2.1
      some (x.quoted, (result x).map (·.2), [], l.2.2) := by
  obtain ⟨m', h1, h2, h3⟩ := mloop_eq sq inp (2 * inp.length + 2 * ([] : List Char).length + 2)
    (.at (.plain .ws)) { quoted := false, token := [], push := [] } rfl (by simp)
  have e0 : abs { quoted := false, token := [], push := [] } = ({} : Ctx) := by
    simp [abs]
  rw [e0] at h1 h2
  simp only [mGetToken, h1]
  cases ho : (loopS sq (.at (.plain .ws)) {} inp).1 with
  | none =>
    simp only [finO, ← h2, h3]
    simp [abs, result]
    split <;> simp_all
  | some st =>
    have hx : abs (mfinish st m') = finish st (loopS sq (.at (.plain .ws)) {} inp).2.1 := by
      rw [abs_mfinish, h2]
    have hpush : (mfinish st m').push = [] := by
      cases st with
      | «at» e => exact h3
      | bs e n => simp only [mfinish]; split <;> simp [h3]
    simp only [finO, ← hx, hpush]
    simp [abs, result]
    split <;> simp_all

theorem mTokensAux_eq (sq : Bool) : ∀ (f : Nat) (inp : Str), inp.length + 1 ≤ f →
    mTokensAux sq f [] inp = some (run sq (.at (.plain .ws)) {} inp) := by
  intro f
  induction f with
  | zero => intro inp h; omega
  | succ f ih =>
    intro inp hf
    rw [run_loopS]
    simp only [mTokensAux, mGetToken_eq]
    generalize hl : loopS sq (.at (.plain .ws)) {} inp = l
    obtain ⟨o, x', rest⟩ := l
    have hlen := loopS_rest_le sq inp (.at (.plain .ws)) {}
    rw [hl] at hlen
    simp only at hlen ⊢
    cases hr : result (finO o x') with
    | none => simp [emit, hr]
    | some t =>
      have hq : (finO o x').quoted = t.1 := by
        unfold result at hr
        split at hr
        · simp at hr
        · simp only [Option.some.injEq] at hr; subst hr; rfl
      simp only [Option.map_some, emit, hr, hq]
      cases o with
      | some st' =>
        have hrest := loopS_rest_some sq inp (.at (.plain .ws)) {} st' (by rw [hl])
        rw [hl] at hrest
        simp only at hrest
        subst hrest
        -- the next `_get_token` sees the exhausted iterator
        cases f with
        | zero =>
          -- inp.length + 1 ≤ 1 → inp = [] → no token was produced
          have : inp = [] := by
            cases inp with
            | nil => rfl
            | cons a b => simp at hf
          subst this
          simp [loopS] at hl
          obtain ⟨h1, h2⟩ := hl
          subst h1; subst h2
          simp [finO, finish, result] at hr
        | succ f' =>
          simp [mTokensAux, mGetToken_eq, loopS, finO, finish, result]
      | none =>
        -- a break consumed at least one character
        have hlt : rest.length + 1 ≤ f := by
          cases inp with
          | nil => simp [loopS] at hl
          | cons a b =>
            simp only [loopS] at hl
            have h2 := loopS_rest_le sq b
            split at hl
            · simp only [Prod.mk.injEq] at hl
              obtain ⟨_, _, h3⟩ := hl
              subst h3
              simp at hf; omega
            · rename_i st2 x2 _
              have h4 := h2 st2 x2
              rw [hl] at h4
              simp at hf h4; omega
        rw [ih rest hlt]
        simp

theorem mTokens_eq (sq : Bool) (s : Str) : mTokens sq s = some (tokens sq s) := by
  simp [mTokens, tokens, mTokensAux_eq sq (s.length + 1) s (Nat.le_refl _)]

end BreezyVerif.C50
