import BreezyVerif.Lemmas.C51Plan
/-!
C51 — more helper lemmas: the slice `generate_simple_plan` runs over for any
start / stop, the tip is the last revision of a topological order, splitting
the plan loop, what a successful run of the loop adds.
-/
namespace BreezyVerif.C51
open BreezyVerif.C33

/-! ### any start / stop: the loop runs over a slice of `order` -/

theorem indexOf_some_mem {l : List Key} {k : Key} {i : Nat} (h : indexOf? l k = some i) : k ∈ l := by
  unfold indexOf? at h
  simp only at h
  split at h
  · rename_i hlt
    have := List.findIdx_getElem (w := hlt)
    have hk : l[l.findIdx (· == k)] = k := by simpa using this
    exact hk ▸ List.getElem_mem hlt
  · cases h

/-- what a successful `generate_simple_plan` did, for ANY start / stop: it ran the loop over the slice of `order`
from the start revision (given, or the first) to the stop revision (given, or the last) -/
theorem simplePlan_slice {g : PMap} {gen : Key → Key} {todoS order : List Key} {start stop : Option Key}
    {onto : Key} {skip : Bool} {plan : Plan}
    (h : simplePlan g gen todoS order start stop onto skip = .ok plan) :
    ∃ stopK startK i j, (stop = some stopK ∨ (stop = none ∧ order.getLast? = some stopK)) ∧
      (start = some startK ∨ (start = none ∧ order.head? = some startK ∧ unrelated g stopK onto = false)) ∧
      indexOf? order startK = some i ∧ indexOf? order stopK = some j ∧
      ∃ sk, planLoop g gen onto skip ([], []) ((order.drop i).take (j + 1 - i)) = .ok (plan, sk) := by
  unfold simplePlan at h
  split at h
  · cases h
  · split at h
    · cases h
    · cases hs : pickStop order stop with
      | error e => simp [hs] at h
      | ok stopK =>
        simp only [hs] at h
        have hstopK : stop = some stopK ∨ (stop = none ∧ order.getLast? = some stopK) := by
          unfold pickStop at hs
          cases stop with
          | some s => simp at hs; exact Or.inl (by rw [hs])
          | none =>
            cases hl : order.getLast? with
            | some s => simp [hl] at hs; exact Or.inr ⟨rfl, by rw [hs]⟩
            | none => simp [hl] at hs
        cases hst : pickStart g order onto stopK start with
        | error e => simp [hst] at h
        | ok startK =>
          simp only [hst] at h
          have hstartK : start = some startK ∨
              (start = none ∧ order.head? = some startK ∧ unrelated g stopK onto = false) := by
            unfold pickStart at hst
            cases start with
            | some s => simp at hst; exact Or.inl (by rw [hst])
            | none =>
              simp only at hst
              by_cases hu : unrelated g stopK onto = true
              · simp [hu] at hst
              · simp only [hu, Bool.false_eq_true, if_false] at hst
                cases hh : order.head? with
                | none => simp [hh] at hst
                | some s0 =>
                  simp only [hh, Except.ok.injEq] at hst
                  exact Or.inr ⟨rfl, by rw [hst], by simpa using hu⟩
          cases hi : indexOf? order startK with
          | none => simp [hi] at h
          | some i =>
            cases hj : indexOf? order stopK with
            | none => simp [hi, hj] at h
            | some j =>
              simp only [hi, hj] at h
              cases hl : planLoop g gen onto skip ([], []) ((order.drop i).take (j + 1 - i)) with
              | error e => simp [hl] at h
              | ok st =>
                simp only [hl, Except.ok.injEq] at h
                subst h
                exact ⟨stopK, startK, i, j, hstopK, hstartK, hi, hj, st.2, by rw [hl]⟩

/-! ### the tip is the last revision of the order -/

/-- in a topological order of the present revisions of `find_difference(tip, onto)[0]` nothing comes after `tip` -/
theorem tip_is_last (g : PMap) (tip onto : Key) (order : List Key) (hnd : order.Nodup)
    (hmem : ∀ k, k ∈ order ↔ (k ∈ todoSet g tip onto ∧ present g k = true))
    (htopo : topoFrom g order = true) (htip : tip ∈ order) : order.getLast? = some tip := by
  obtain ⟨l1, l2, hsplit⟩ := List.append_of_mem htip
  have htl2 : tip ∉ l2 := by
    rw [hsplit] at hnd
    have := (List.nodup_append.mp hnd).2.1
    exact (List.nodup_cons.mp this).1
  -- nothing reachable from `tip` that is outside the history of `onto` is in `l2`
  have key : ∀ a, Reach g [] [tip] a → a ∉ anc g onto → a ∉ l2 := by
    intro a hr
    induction hr with
    | base hk =>
      intro _
      simp only [List.mem_singleton] at hk
      subst hk
      exact htl2
    | @step j k ps hj _ hps hk ih =>
      intro hno
      have hjno : j ∉ anc g onto := fun hm => hno (anc_parent hm hps hk)
      have hjl2 := ih hjno
      have hjin : j ∈ order := (hmem j).mpr
        ⟨by unfold todoSet; simp only [List.mem_filter, decide_eq_true_eq]; exact ⟨(mem_anc g tip j).mpr hj, hjno⟩,
         present_iff.mpr ⟨ps, hps⟩⟩
      have hkp : k ∈ parentsL g j := mem_parentsL.mpr ⟨ps, hps, hk⟩
      rw [hsplit] at hjin
      rcases List.mem_append.mp hjin with hj1 | hj1
      · obtain ⟨n1, n2, hn⟩ := List.append_of_mem hj1
        have : order = n1 ++ j :: (n2 ++ tip :: l2) := by rw [hsplit, hn]; simp [List.append_assoc]
        have := topoFrom_split n1 j (n2 ++ tip :: l2) (this ▸ htopo) k hkp
        intro hm
        exact this (by simp [hm])
      · rcases List.mem_cons.mp hj1 with hj2 | hj2
        · subst hj2
          have := topoFrom_split l1 j l2 (hsplit ▸ htopo) k hkp
          intro hm
          exact this (by simp [hm])
        · exact absurd hj2 hjl2
  have hl2 : l2 = [] := by
    cases l2 with
    | nil => rfl
    | cons y r =>
      exfalso
      have hy : y ∈ order := by rw [hsplit]; simp
      have hyt := ((hmem y).mp hy).1
      unfold todoSet at hyt
      simp only [List.mem_filter, decide_eq_true_eq] at hyt
      exact key y ((mem_anc g tip y).mp hyt.1) hyt.2 (by simp)
  rw [hsplit, hl2]
  simp

/-- with `stop` = `None` or the tip, the whole `order` is the slice (the former hypothesis `hstop`, derived) -/
theorem stop_is_last {g : PMap} {gen : Key → Key} {todoS order : List Key} {stop : Option Key} {tip onto : Key}
    {skip : Bool} {plan : Plan} (hnd : order.Nodup)
    (hmem : ∀ k, k ∈ order ↔ (k ∈ todoSet g tip onto ∧ present g k = true))
    (htopo : topoFrom g order = true) (hstop : stop = none ∨ stop = some tip)
    (h : simplePlan g gen todoS order none stop onto skip = .ok plan) :
    ∀ s, stop = some s → order.getLast? = some s := by
  intro s hs
  rcases hstop with h0 | h0
  · rw [h0] at hs; cases hs
  · rw [h0] at hs
    cases hs
    obtain ⟨stopK, _, _, j, hsk, _, _, hj, _⟩ := simplePlan_slice h
    have : stopK = tip := by
      rcases hsk with h1 | ⟨h1, _⟩
      · rw [h0] at h1; exact (Option.some.inj h1).symm
      · rw [h0] at h1; cases h1
    subst this
    exact tip_is_last g stopK onto order hnd hmem htopo (indexOf_some_mem hj)

/-! ### splitting the loop, what it adds -/

theorem planLoop_append (g : PMap) (gen : Key → Key) (onto : Key) (skip : Bool) :
    ∀ (pre post : List Key) (st st' : Plan × Skipped), planLoop g gen onto skip st (pre ++ post) = .ok st' →
      ∃ st1, planLoop g gen onto skip st pre = .ok st1 ∧ planLoop g gen onto skip st1 post = .ok st' := by
  intro pre
  induction pre with
  | nil => intro post st st' h; exact ⟨st, rfl, h⟩
  | cons x pre ih =>
    intro post st st' h
    cases hs : planStep g gen onto skip st x with
    | error e => simp [planLoop, hs] at h
    | ok st2 =>
      simp only [List.cons_append, planLoop, hs] at h ⊢
      exact ih post st2 st' h

/-- for ANY setting of skip: the entries added are `⟨old, gen old, _⟩` for revisions `old` of `todo`, in the order of
`todo`, and `gen old ≠ old` -/
theorem planLoop_adds (g : PMap) (gen : Key → Key) (onto : Key) (skip : Bool) :
    ∀ (todo : List Key) (st st' : Plan × Skipped), planLoop g gen onto skip st todo = .ok st' →
      ∃ added : Plan, st'.1 = st.1 ++ added ∧ (added.map (·.old)).Sublist todo ∧
        ∀ e ∈ added, e.new = gen e.old ∧ gen e.old ≠ e.old := by
  intro todo
  induction todo with
  | nil =>
    intro st st' h
    simp only [planLoop] at h
    cases h
    exact ⟨[], by simp, by simp, fun e he => by cases he⟩
  | cons old todo ih =>
    intro st st' h
    simp only [planLoop] at h
    split at h
    · cases h
    · rename_i st1 hstep
      obtain ⟨added, h1, h2, h3⟩ := ih st1 st' h
      obtain ⟨p0, rest, _, hc | hc⟩ := planStep_cases hstep
      · rw [hc.1] at h1
        exact ⟨added, h1, List.Sublist.cons _ h2, h3⟩
      · rw [hc.1] at h1
        refine ⟨⟨old, gen old, (newParents g onto st.1 st.2 p0 rest).1 :: (newParents g onto st.1 st.2 p0 rest).2⟩ :: added,
          by rw [h1]; simp, ?_, ?_⟩
        · simp only [List.map_cons]
          exact List.Sublist.cons₂ _ h2
        · intro e he
          rcases List.mem_cons.mp he with he | he
          · subst he; exact ⟨rfl, hc.2⟩
          · exact h3 e he

/-- the ghost form of the closure invariant, for the command's case (whole `order`, tip known) -/
theorem planLoop_closed (g : PMap) (gen : Key → Key) (tip onto : Key) (skip : Bool) (order : List Key)
    (st' : Plan × Skipped)
    (hmem : ∀ k, k ∈ order ↔ (k ∈ todoSet g tip onto ∧ present g k = true))
    (htopo : topoFrom g order = true)
    (h : planLoop g gen onto skip ([], []) order = .ok st') : PlanClosed g onto [] st'.1 := by
  have hS := planLoop_closedS g gen onto skip order order [] ([], []) st' (by simp) htopo
    (fun k hk => by cases hk) (fun kv hkv => by cases hkv) trivial h
  obtain ⟨added, ha, hsub, _⟩ := planLoop_adds g gen onto skip order ([], []) st' h
  refine planClosedW_mono onto _ _ st'.1 [] ?_ hS
  intro e he p ⟨hpl, hnin, hnm⟩
  refine ⟨hpl, ?_⟩
  -- `e.old` is one of `order`, hence an ancestor of `tip`; so is its parent `p`
  have heo : e.old ∈ order := by
    simp only [List.nil_append] at ha
    rw [ha] at he
    exact hsub.subset (List.mem_map.mpr ⟨e, he, rfl⟩)
  have holdA : e.old ∈ anc g tip := by
    have := ((hmem e.old).mp heo).1
    unfold todoSet at this
    exact (List.mem_filter.mp this).1
  obtain ⟨ps, hps, hp⟩ := mem_parentsL.mp hpl
  have hpA : p ∈ anc g tip := anc_parent holdA hps hp
  have hnm' : p ∉ anc g onto := by
    intro hm
    unfold mergedInto at hnm
    simp [hm] at hnm
  cases hpp : parentsOf g p with
  | none => rfl
  | some pps =>
    exfalso
    exact hnin ((hmem p).mpr ⟨by unfold todoSet; simp [List.mem_filter, hpA, hnm'], present_iff.mpr ⟨pps, hpp⟩⟩)

/-- one loop step, with the exact skip condition in both directions -/
theorem planStep_exact {g : PMap} {gen : Key → Key} {onto : Key} {skip : Bool} {st st' : Plan × Skipped}
    {old : Key} (h : planStep g gen onto skip st old = .ok st') :
    ∃ p0 rest, parentsOf g old = some (p0 :: rest) ∧
      ((st' = (st.1, st.2 ++ [(old, (newParents g onto st.1 st.2 p0 rest).1)]) ∧
          (skip = true ∧ rest ≠ [] ∧ (newParents g onto st.1 st.2 p0 rest).2 = [])) ∨
       (st' = (st.1 ++ [⟨old, gen old, (newParents g onto st.1 st.2 p0 rest).1 ::
          (newParents g onto st.1 st.2 p0 rest).2⟩], st.2) ∧ gen old ≠ old ∧
          ¬(skip = true ∧ rest ≠ [] ∧ (newParents g onto st.1 st.2 p0 rest).2 = []))) := by
  unfold planStep at h
  cases hp : parentsOf g old with
  | none => simp [hp] at h
  | some l =>
    cases l with
    | nil => simp [hp] at h
    | cons p0 rest =>
      refine ⟨p0, rest, rfl, ?_⟩
      simp only [hp] at h
      by_cases hc : (!rest.isEmpty && (newParents g onto st.1 st.2 p0 rest).2.isEmpty && skip) = true
      · simp only [hc, if_true] at h
        cases h
        left
        simp only [Bool.and_eq_true, Bool.not_eq_true', List.isEmpty_eq_false_iff, List.isEmpty_iff] at hc
        exact ⟨rfl, hc.2, hc.1.1, hc.1.2⟩
      · simp only [hc] at h
        by_cases hg : gen old = old
        · simp [hg] at h
        · simp only [hg, if_false] at h
          cases h
          refine Or.inr ⟨rfl, hg, ?_⟩
          rintro ⟨h1, h2, h3⟩
          apply hc
          simp only [Bool.and_eq_true, Bool.not_eq_true', List.isEmpty_eq_false_iff, List.isEmpty_iff]
          exact ⟨⟨h2, h3⟩, h1⟩

/-- every alias recorded for a skipped merge is the new base or the new id of an entry already in the plan -/
theorem planLoop_alias (g : PMap) (gen : Key → Key) (onto : Key) (skip : Bool) :
    ∀ (todo : List Key) (st st' : Plan × Skipped),
      (∀ kv ∈ st.2, kv.2 = onto ∨ ∃ e ∈ st.1, e.new = kv.2) →
      planLoop g gen onto skip st todo = .ok st' → (∀ kv ∈ st'.2, kv.2 = onto ∨ ∃ e ∈ st'.1, e.new = kv.2) := by
  intro todo
  induction todo with
  | nil => intro st st' hsk h; simp only [planLoop] at h; cases h; exact hsk
  | cons old todo ih =>
    intro st st' hsk h
    simp only [planLoop] at h
    split at h
    · cases h
    · rename_i st1 hstep
      apply ih st1 st' _ h
      obtain ⟨p0, rest, _, hc | hc⟩ := planStep_cases hstep
      · rw [hc.1]
        intro kv hkv
        rcases List.mem_append.mp hkv with hkv | hkv
        · exact hsk kv hkv
        · simp only [List.mem_singleton] at hkv
          subst hkv
          rcases (newParents_src g onto st.1 st.2 p0 rest).1 with h1 | h1 | ⟨kv, hkv, h1⟩
          · exact Or.inl h1
          · exact Or.inr h1
          · rcases hsk kv hkv with h2 | h2
            · exact Or.inl (h1 ▸ h2)
            · exact Or.inr (h1 ▸ h2)
      · rw [hc.1]
        intro kv hkv
        rcases hsk kv hkv with h1 | ⟨e, he, h1⟩
        · exact Or.inl h1
        · exact Or.inr ⟨e, List.mem_append_left _ he, h1⟩

theorem sublist_drop_take (l : List Key) (i n : Nat) : ((l.drop i).take n).Sublist l :=
  (List.take_sublist _ _).trans (List.drop_sublist _ _)

end BreezyVerif.C51
