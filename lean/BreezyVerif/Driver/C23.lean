import BreezyVerif.Common
import BreezyVerif.Model.C23
/-
C23 driver.

  run <ops>   -> one field per step, joined by `;`:
                 `<out>|<master revno>:<master tip>|<local revno>:<local tip>|<bound T|F>|<M parents>|<H parents>|<L parents>|<log>|<O tip>|<O parents>|<P tip>`
  ops   = `-` | op joined by `,`;  op = `cM:<rev>` `cH:<rev>` `cL:<rev>` (commit), `lH:<rev>` `lM:<rev>` `lL:<rev>` (commit --local),
          `uM` `uH` `uL` (update), `p` (pull in H from the master), `b` (bind), `x` (unbind),
          `cO:<rev>` (commit in the other branch O), `sO` (O pulls the master with overwrite),
          `qH:<stop|~>:<overwrite T|F>:<local T|F>` / `qL:…` / `qM:…` (pull from O with a stop revision),
          `shH` / `shL` (push the checkout's branch into the third branch P)
          `cG:<rev>` `lG:<rev>` `uG` `pG` `bG` `xG` `qG:…` `shG`: the same operations in the SECOND heavyweight checkout,
          `bM` / `xM` (bind the master to the third branch P / unbind it)
  each step's field list is followed by `|<local2 revno>:<local2 tip>|<bound2 T|F>|<H2 parents>|<master bound T|F>`
  parents = `-` | revs joined by `+`
  log   = `-` | entries `m:<rev>` / `h:<rev>` / `g:<rev>` joined by `+` : the tip writes of this step, oldest first
  A sequence that uses a revision id twice is answered with `bad-op` (ids are fresh in every history).
-/
namespace BreezyVerif.C23

def parseOp (s : String) : Option Op :=
  match s.splitOn ":" with
  | ["uM"] => some (.update .M)
  | ["uH"] => some (.update .H)
  | ["uL"] => some (.update .L)
  | ["p"] => some .pull
  | ["b"] => some .bind
  | ["x"] => some .unbind
  | ["sO"] => some .syncO
  | ["shH"] => some (.push .H)
  | ["shL"] => some (.push .L)
  | ["uG"] => some (.onH2 (.update .H))
  | ["pG"] => some (.onH2 .pull)
  | ["bG"] => some (.onH2 .bind)
  | ["xG"] => some (.onH2 .unbind)
  | ["shG"] => some (.onH2 (.push .H))
  | ["bM"] => some .bindM
  | ["xM"] => some .unbindM
  | ["cO", r] => if r.isEmpty || r == null then none else some (.commitO r)
  | [k, r, ow, lo] =>
    match parseBool ow, parseBool lo with
    | some ow, some lo =>
      let stop : Option (Option Rev) := if r == "~" then some none else if r.isEmpty || r == null then none else some (some r)
      match k, stop with
      | "qH", some st => some (.pullOther .H st ow lo)
      | "qL", some st => some (.pullOther .L st ow lo)
      | "qM", some st => some (.pullOther .M st ow lo)
      | "qG", some st => some (.onH2 (.pullOther .H st ow lo))
      | _, _ => none
    | _, _ => none
  | [k, r] =>
    if r.isEmpty || r == null then none else
    match k with
    | "cM" => some (.commit .M r false)
    | "cH" => some (.commit .H r false)
    | "cL" => some (.commit .L r false)
    | "lM" => some (.commit .M r true)
    | "lH" => some (.commit .H r true)
    | "lL" => some (.commit .L r true)
    | "cG" => some (.onH2 (.commit .H r false))
    | "lG" => some (.onH2 (.commit .H r true))
    | _ => none
  | _ => none

/-- the revision id an operation creates -/
def newRev : Op → Option Rev
  | .commit _ r _ => some r
  | .commitO r => some r
  | .onH2 op => newRev op
  | _ => none

def freshRevs (used : List Rev) : List Op → Bool
  | [] => true
  | op :: rest =>
    match newRev op with
    | some r => !used.contains r && freshRevs (r :: used) rest
    | none => freshRevs used rest

def parseOps (s : String) : Option (List Op) :=
  if s == "-" then some [] else
  match (s.splitOn ",").mapM parseOp with
  | some ops => if freshRevs [] ops then some ops else none
  | none => none

def showOut : Out → String
  | .ok => "ok"
  | .boundOutOfDate => "E:BoundBranchOutOfDate"
  | .outOfDateTree => "E:OutOfDateTree"
  | .localRequiresBound => "E:LocalRequiresBoundBranch"
  | .diverged => "E:DivergedBranches"
  | .doubleBound => "E:CommitToDoubleBoundBranch"
  | .unmodelled => "unmodelled"

def showRevs (l : List Rev) : String := if l.isEmpty then "-" else "+".intercalate l

def showEntry (e : Entry) : String :=
  (match e.br with | .master => "m:" | .loc => "h:" | .loc2 => "g:") ++ e.rev

def showStep (old : St) (s : St) (o : Out) : String :=
  let newEntries := (s.log.take (s.log.length - old.log.length)).reverse
  "|".intercalate [showOut o, s!"{revno s.graph s.master}:{s.master}", s!"{revno s.graph s.loc}:{s.loc}",
    showBool s.bound, showRevs s.tM.parents, showRevs s.tH.parents, showRevs s.tL.parents,
    (if newEntries.isEmpty then "-" else "+".intercalate (newEntries.map showEntry)),
    s.other, showRevs s.tO.parents, s.third,
    s!"{revno s.graph s.loc2}:{s.loc2}", showBool s.bound2, showRevs s.tH2.parents, showBool s.masterBound]

def runShow (s : St) : List Op → List String
  | [] => []
  | op :: rest =>
    let (s', o) := step s op
    showStep s s' o :: runShow s' rest

def handle : List String → String
  | ["run", ops] =>
    match parseOps ops with
    | some ops => if ops.isEmpty then "-" else ";".intercalate (runShow init ops)
    | none => "bad-op"
  | _ => "bad-op"

end BreezyVerif.C23

def main : IO Unit := BreezyVerif.runDriver BreezyVerif.C23.handle
