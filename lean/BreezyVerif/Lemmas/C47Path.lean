import BreezyVerif.Model.C47
/-! C47 helper lemmas: lexicographic order vs prefix order, the scan of
`minimum_path_selection`, split/join of path strings. -/
namespace BreezyVerif.C47

open Std in
/-- In lexicographic order, a prefix of `r` that lies below `q ≤ r` is a prefix of `q`. -/
theorem prefix_of_le_of_le {α : Type} [LT α] [LE α] [IsLinearOrder α] [LawfulOrderLT α]
    (p q r : List α) (hpq : p ≤ q) (hqr : q ≤ r) (hpr : p <+: r) : p <+: q := by
  induction p generalizing q r with
  | nil => exact List.nil_prefix
  | cons a p ih =>
    match r, hpr with
    | b :: r, hpr =>
      rw [List.cons_prefix_cons] at hpr
      obtain ⟨rfl, hpr⟩ := hpr
      match q with
      | [] => exact absurd hpq (by simp)
      | c :: q =>
        rw [List.cons_le_cons_iff] at hpq hqr
        have hac : a = c := by
          rcases hpq with h1 | ⟨h1, _⟩
          · rcases hqr with h2 | ⟨h2, _⟩
            · exact absurd (Std.lt_trans h1 h2) (Std.lt_irrefl)
            · exact absurd (h2 ▸ h1) (Std.lt_irrefl)
          · exact h1
        subst hac
        have hpq' : p ≤ q := by
          rcases hpq with h1 | ⟨_, h⟩
          · exact absurd h1 Std.lt_irrefl
          · exact h
        have hqr' : q ≤ r := by
          rcases hqr with h1 | ⟨_, h⟩
          · exact absurd h1 Std.lt_irrefl
          · exact h
        rw [List.cons_prefix_cons]
        exact ⟨rfl, ih q r hpq' hqr' hpr⟩


open Std in
theorem le_of_prefix {α : Type} [LT α] [LE α] [IsLinearOrder α] [LawfulOrderLT α]
    (p q : List α) (h : p <+: q) : p ≤ q := by
  induction p generalizing q with
  | nil => simp
  | cons a p ih =>
    match q, h with
    | b :: q, h =>
      rw [List.cons_prefix_cons] at h
      obtain ⟨rfl, h⟩ := h
      rw [List.cons_le_cons_iff]
      exact Or.inr ⟨rfl, ih q h⟩

instance : Std.IsLinearOrder Bytes := inferInstanceAs (Std.IsLinearOrder (List UInt8))
instance : Std.LawfulOrderLT Bytes := inferInstanceAs (Std.LawfulOrderLT (List UInt8))
instance : Std.IsLinearOrder Path := inferInstanceAs (Std.IsLinearOrder (List (List UInt8)))

theorem isInside_iff (d f : Path) : isInside d f = true ↔ d <+: f := by
  unfold isInside; exact List.isPrefixOf_iff_prefix

theorem pathLe_iff (a b : Path) : pathLe a b = true ↔ a ≤ b := by
  unfold pathLe; simp

/-- `Antichain R`: no element of `R` lies inside a different element -/
def Antichain (R : List Path) : Prop := ∀ q ∈ R, ∀ q' ∈ R, q <+: q' → q = q'

abbrev Sorted (l : List Path) : Prop := l.Pairwise (· ≤ ·)

theorem scan_mem (k : Path) (l : List Path) : ∀ q ∈ scan k l, q ∈ l := by
  induction l generalizing k with
  | nil => simp [scan]
  | cons p ps ih =>
    intro q hq
    unfold scan at hq
    split at hq
    · exact List.mem_cons_of_mem _ (ih k q hq)
    · rcases List.mem_cons.mp hq with rfl | hq
      · simp
      · exact List.mem_cons_of_mem _ (ih _ q hq)

theorem scan_not_inside (k : Path) (l : List Path) (hs : Sorted (k :: l)) :
    ∀ q ∈ scan k l, ¬ k <+: q := by
  induction l generalizing k with
  | nil => simp [scan]
  | cons p ps ih =>
    intro q hq
    have hkp : k ≤ p := (List.pairwise_cons.mp hs).1 p (by simp)
    have hsp : Sorted (p :: ps) := (List.pairwise_cons.mp hs).2
    unfold scan at hq
    split at hq
    · apply ih k _ q hq
      exact List.Pairwise.sublist (by simp) hs
    · rename_i hin
      rcases List.mem_cons.mp hq with rfl | hq
      · intro h; exact hin ((isInside_iff _ _).mpr h)
      · intro h
        have hqps : q ∈ ps := scan_mem _ _ q hq
        have hpq : p ≤ q := (List.pairwise_cons.mp hsp).1 q hqps
        exact hin ((isInside_iff _ _).mpr (prefix_of_le_of_le k p q hkp hpq h))

theorem scan_cover (k : Path) (l : List Path) :
    ∀ x ∈ l, ∃ q ∈ k :: scan k l, q <+: x := by
  induction l generalizing k with
  | nil => simp
  | cons p ps ih =>
    intro x hx
    unfold scan
    split
    · rename_i hin
      rcases List.mem_cons.mp hx with rfl | hx
      · exact ⟨k, by simp, (isInside_iff _ _).mp hin⟩
      · exact ih k x hx
    · rcases List.mem_cons.mp hx with rfl | hx
      · exact ⟨x, by simp, List.prefix_refl _⟩
      · obtain ⟨q, hq, hqx⟩ := ih p x hx
        exact ⟨q, List.mem_cons_of_mem _ hq, hqx⟩

theorem scan_antichain (k : Path) (l : List Path) (hs : Sorted (k :: l)) :
    Antichain (k :: scan k l) := by
  induction l generalizing k with
  | nil =>
    intro q hq q' hq' _
    simp [scan] at hq hq'
    rw [hq, hq']
  | cons p ps ih =>
    have hkp : k ≤ p := (List.pairwise_cons.mp hs).1 p (by simp)
    have hsp : Sorted (p :: ps) := (List.pairwise_cons.mp hs).2
    unfold scan
    split
    · exact ih k (List.Pairwise.sublist (by simp) hs)
    · rename_i hin
      have ihp := ih p hsp
      -- k is incomparable with every kept element after it
      have hk : ∀ q ∈ p :: scan p ps, ¬ k <+: q ∧ ¬ q <+: k := by
        intro q hq
        have hqmem : q ∈ p :: ps := by
          rcases List.mem_cons.mp hq with rfl | hq
          · simp
          · exact List.mem_cons_of_mem _ (scan_mem _ _ q hq)
        have hkq : k ≤ q := (List.pairwise_cons.mp hs).1 q hqmem
        have hpq : p ≤ q := by
          rcases List.mem_cons.mp hqmem with rfl | h
          · exact Std.le_refl _
          · exact (List.pairwise_cons.mp hsp).1 q h
        have h1 : ¬ k <+: q := fun h =>
          hin ((isInside_iff _ _).mpr (prefix_of_le_of_le k p q hkp hpq h))
        refine ⟨h1, fun h => ?_⟩
        have : q = k := Std.le_antisymm (le_of_prefix _ _ h) hkq
        exact h1 (this ▸ List.prefix_refl _)
      intro q hq q' hq' hpre
      rcases List.mem_cons.mp hq with h1 | h1
      · rcases List.mem_cons.mp hq' with h2 | h2
        · rw [h1, h2]
        · rw [h1] at hpre; exact absurd hpre (hk q' h2).1
      · rcases List.mem_cons.mp hq' with h2 | h2
        · rw [h2] at hpre; exact absurd hpre (hk q h1).2
        · exact ihp q h1 q' h2 hpre

theorem sorted_sortPaths (ps : List Path) : Sorted (sortPaths ps) := by
  unfold sortPaths
  have := List.pairwise_mergeSort (le := pathLe)
    (fun a b c h1 h2 => (pathLe_iff a c).mpr (Std.le_trans ((pathLe_iff a b).mp h1) ((pathLe_iff b c).mp h2)))
    (fun a b => by
      rcases Std.le_total (a := a) (b := b) with h | h
      · simp [(pathLe_iff a b).mpr h]
      · simp [(pathLe_iff b a).mpr h])
    ps
  exact this.imp (fun h => (pathLe_iff _ _).mp h)

theorem mem_sortPaths (ps : List Path) (q : Path) : q ∈ sortPaths ps ↔ q ∈ ps :=
  (List.mergeSort_perm ps pathLe).mem_iff

theorem antichain_small (l : List Path) (h : l.length < 2) : Antichain l := by
  match l, h with
  | [], _ => intro q hq; simp at hq
  | [a], _ =>
    intro q hq q' hq' _
    simp at hq hq'
    rw [hq, hq']

theorem mps_subset' (ps : List Path) : ∀ q ∈ mps ps, q ∈ ps := by
  intro q hq
  unfold mps at hq
  split at hq
  · exact hq
  · split at hq
    · simp at hq
    · rename_i s0 rest hsort
      rw [← mem_sortPaths, hsort]
      rcases List.mem_cons.mp hq with rfl | hq
      · simp
      · exact List.mem_cons_of_mem _ (scan_mem _ _ q hq)

theorem mps_cover' (ps : List Path) : ∀ p ∈ ps, ∃ q ∈ mps ps, q <+: p := by
  intro p hp
  unfold mps
  split
  · exact ⟨p, hp, List.prefix_refl _⟩
  · split
    · rename_i hsort
      rw [← mem_sortPaths, hsort] at hp
      simp at hp
    · rename_i s0 rest hsort
      rw [← mem_sortPaths, hsort] at hp
      rcases List.mem_cons.mp hp with rfl | hp
      · exact ⟨p, by simp, List.prefix_refl _⟩
      · exact scan_cover s0 rest p hp

theorem mps_antichain' (ps : List Path) : Antichain (mps ps) := by
  unfold mps
  split
  · rename_i h; exact antichain_small ps h
  · split
    · intro q hq; simp at hq
    · rename_i s0 rest hsort
      apply scan_antichain
      rw [← hsort]
      exact sorted_sortPaths ps

theorem prefix_antisymm {α : Type} (a b : List α) (h1 : a <+: b) (h2 : b <+: a) : a = b :=
  h1.eq_of_length_le h2.length_le

end BreezyVerif.C47
