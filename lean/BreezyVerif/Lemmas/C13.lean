import BreezyVerif.Model.C13
/-! helper lemmas for C13: the list file system seen as a function, and the
function-level inverse law of a non-clobbering move -/
namespace BreezyVerif.C13

theorem pre_append (a r : Path) : a.isPrefixOf (a ++ r) = true := by
  simp [List.isPrefixOf_iff_prefix]

theorem pre_split {a q : Path} (h : a.isPrefixOf q = true) : a ++ q.drop a.length = q := by
  rw [List.isPrefixOf_iff_prefix] at h
  exact List.prefix_iff_eq_append.mp h

theorem drop_pre (b r : Path) : (b ++ r).drop b.length = r := by simp

theorem pre_trans {a b c : Path} (h1 : a.isPrefixOf b = true) (h2 : b.isPrefixOf c = true) :
    a.isPrefixOf c = true := by
  rw [List.isPrefixOf_iff_prefix] at *
  exact List.IsPrefix.trans h1 h2

/-- two prefixes of the same path are comparable -/
theorem pre_comparable {a b q : Path} (h1 : a.isPrefixOf q = true) (h2 : b.isPrefixOf q = true) :
    a.isPrefixOf b = true ∨ b.isPrefixOf a = true := by
  simp only [List.isPrefixOf_iff_prefix] at *
  rcases Nat.le_total a.length b.length with h | h
  · exact Or.inl (List.prefix_of_prefix_length_le h1 h2 h)
  · exact Or.inr (List.prefix_of_prefix_length_le h2 h1 h)

theorem pre_dropLast {a b : Path} (h : a.isPrefixOf b.dropLast = true) : a.isPrefixOf b = true := by
  rw [List.isPrefixOf_iff_prefix] at *
  exact List.IsPrefix.trans h (List.dropLast_prefix b)

/-- function-level move: what a lookup sees after re-keying `a` to `b` -/
def moveF (f : Path → Option Node) (a b : Path) : Path → Option Node := fun q =>
  if b.isPrefixOf q then f (a ++ q.drop b.length)
  else if a.isPrefixOf q then none
  else f q

/-- moving back is the identity when nothing lived at or below the target -/
theorem moveF_inverse (f : Path → Option Node) (a b : Path)
    (hb : ∀ q, b.isPrefixOf q = true → f q = none) :
    moveF (moveF f a b) b a = f := by
  funext q
  unfold moveF
  by_cases ha : a.isPrefixOf q = true
  · simp only [ha, if_true, pre_append, drop_pre, pre_split ha]
  · by_cases hbq : b.isPrefixOf q = true
    · simp [ha, hbq, hb q hbq]
    · simp [ha, hbq]

theorem get_cons (e : Path × Node) (fs : FS) (q : Path) :
    get (e :: fs) q = if e.1 = q then some e.2 else get fs q := by
  unfold get
  by_cases h : e.1 = q
  · simp [List.find?_cons, h]
  · have : (e.1 == q) = false := by simp [h]
    simp [List.find?_cons, this, h]

theorem get_eq_none_of_not_key {fs : FS} {q : Path} (h : ∀ e ∈ fs, e.1 ≠ q) : get fs q = none := by
  induction fs with
  | nil => rfl
  | cons e fs ih =>
    rw [get_cons]
    have : e.1 ≠ q := h e (by simp)
    simp only [this, if_false]
    exact ih (fun e' he' => h e' (by simp [he']))

theorem keysUnder_false {fs : FS} {b : Path} (h : keysUnder fs b = false) :
    ∀ e ∈ fs, b.isPrefixOf e.1 = false := by
  unfold keysUnder at h
  intro e he
  have := List.any_eq_false.mp h e he
  cases h' : b.isPrefixOf e.1 <;> simp_all

theorem get_none_of_keysUnder_false {fs : FS} {b : Path} (h : keysUnder fs b = false) :
    ∀ q, b.isPrefixOf q = true → get fs q = none := by
  intro q hq
  apply get_eq_none_of_not_key
  intro e he heq
  have := keysUnder_false h e he
  rw [heq, hq] at this
  exact absurd this (by simp)

theorem get_some_keysUnder {fs : FS} {q b : Path} {n : Node} (h : get fs q = some n)
    (hb : b.isPrefixOf q = true) : keysUnder fs b = true := by
  cases hk : keysUnder fs b
  · rw [get_none_of_keysUnder_false hk q hb] at h; cases h
  · rfl

/-- the bridge: a lookup in the re-keyed list is the function-level move -/
theorem get_moveL (fs : FS) (a b : Path) (hb : keysUnder fs b = false) (q : Path) :
    get (moveL fs a b) q = moveF (get fs) a b q := by
  induction fs with
  | nil => simp [moveL, moveF, get]
  | cons e fs ih =>
    have hbe : b.isPrefixOf e.1 = false := keysUnder_false hb e (by simp)
    have hb' : keysUnder fs b = false := by
      unfold keysUnder at *; simp only [List.any_cons, Bool.or_eq_false_iff] at hb; exact hb.2
    have ih := ih hb'
    have hm : moveL (e :: fs) a b =
        (if a.isPrefixOf e.1 then (b ++ e.1.drop a.length, e.2) else e) :: moveL fs a b := by
      simp [moveL]
    rw [hm, get_cons, ih]
    unfold moveF
    simp only [get_cons]
    by_cases hae : a.isPrefixOf e.1 = true
    · rw [if_pos hae]
      have he1 : a ++ e.1.drop a.length = e.1 := pre_split hae
      by_cases hq : b ++ e.1.drop a.length = q
      · subst hq
        rw [if_pos rfl, if_pos (pre_append _ _), drop_pre, he1, if_pos rfl]
      · rw [if_neg hq]
        by_cases hbq : b.isPrefixOf q = true
        · rw [if_pos hbq, if_pos hbq]
          have : e.1 ≠ a ++ q.drop b.length := by
            intro h
            apply hq
            have h2 : e.1.drop a.length = q.drop b.length := by rw [h]; simp
            rw [h2]; exact pre_split hbq
          rw [if_neg this]
        · rw [if_neg hbq, if_neg hbq]
          by_cases haq : a.isPrefixOf q = true
          · rw [if_pos haq, if_pos haq]
          · have : e.1 ≠ q := by intro h; rw [h] at hae; exact haq hae
            rw [if_neg haq, if_neg haq, if_neg this]
    · rw [if_neg hae]
      by_cases hq : e.1 = q
      · subst hq
        have hbe' : ¬ (b.isPrefixOf e.1 = true) := by simp [hbe]
        rw [if_pos rfl, if_neg hbe', if_neg hae, if_pos rfl]
      · rw [if_neg hq]
        by_cases hbq : b.isPrefixOf q = true
        · have : e.1 ≠ a ++ q.drop b.length := by
            intro h; apply hae; rw [h]; exact pre_append _ _
          rw [if_pos hbq, if_pos hbq, if_neg this]
        · rw [if_neg hbq, if_neg hbq]
          by_cases haq : a.isPrefixOf q = true
          · rw [if_pos haq, if_pos haq]
          · rw [if_neg haq, if_neg haq, if_neg hq]

theorem get_deleteAny (fs : FS) (p q : Path) :
    get (deleteAny fs p) q = if p.isPrefixOf q then none else get fs q := by
  induction fs with
  | nil => simp [deleteAny, get]
  | cons e fs ih =>
    unfold deleteAny at *
    by_cases hp : p.isPrefixOf e.1 = true
    · simp only [List.filter_cons, hp, Bool.not_true, Bool.false_eq_true, if_false, ih, get_cons]
      by_cases hq : e.1 = q
      · subst hq; simp [hp]
      · simp [hq]
    · simp only [List.filter_cons, hp, Bool.not_false, if_true, get_cons, ih]
      by_cases hq : e.1 = q
      · subst hq; simp [hp]
      · simp [hq]

theorem get_removeKey (fs : FS) (p q : Path) :
    get (removeKey fs p) q = if p = q then none else get fs q := by
  induction fs with
  | nil => simp [removeKey, get]
  | cons e fs ih =>
    unfold removeKey at *
    by_cases hp : e.1 = p
    · simp only [List.filter_cons, hp, bne_self_eq_false, Bool.false_eq_true, if_false, ih, get_cons]
      by_cases hq : p = q
      · simp [hq]
      · simp [hq]
    · have : (e.1 != p) = true := by simp [hp]
      simp only [List.filter_cons, this, if_true, get_cons, ih]
      by_cases hq : e.1 = q
      · subst hq; simp [Ne.symm hp]
      · simp [hq]

/-! ### the executable bit -/

theorem setExec_same {fs : FS} {p : Path} {c : String} {x : Bool}
    (h : get fs p = some (.file c x)) : setExec fs p x = fs := by
  induction fs with
  | nil => rfl
  | cons e fs ih =>
    rw [get_cons] at h
    unfold setExec
    by_cases he : e.1 = p
    · simp only [he, if_true] at h ⊢
      obtain ⟨k, n⟩ := e
      simp only at h he ⊢
      cases h
      simp [he]
    · simp only [he, if_false] at h ⊢
      rw [ih h]

theorem get_setExec_self {fs : FS} {p : Path} {c : String} {old : Bool} (x : Bool)
    (h : get fs p = some (.file c old)) : get (setExec fs p x) p = some (.file c x) := by
  induction fs with
  | nil => simp [get] at h
  | cons e fs ih =>
    rw [get_cons] at h
    unfold setExec
    by_cases he : e.1 = p
    · simp only [he, if_true] at h ⊢
      obtain ⟨k, n⟩ := e
      simp only at h he ⊢
      cases h
      simp [get_cons, he]
    · simp only [he, if_false] at h ⊢
      rw [get_cons]
      simp only [he, if_false]
      exact ih h

/-- setting the bit and then setting it back re-creates the same list -/
theorem setExec_setExec {fs : FS} {p : Path} {c : String} {old : Bool} (x : Bool)
    (h : get fs p = some (.file c old)) : setExec (setExec fs p x) p old = fs := by
  induction fs with
  | nil => rfl
  | cons e fs ih =>
    rw [get_cons] at h
    by_cases he : e.1 = p
    · simp only [he, if_true] at h
      obtain ⟨k, n⟩ := e
      simp only at h he
      cases h
      simp [setExec, he]
    · simp only [he, if_false] at h
      simp only [setExec, he, if_false]
      rw [ih h]

end BreezyVerif.C13
