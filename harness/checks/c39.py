"""C39 — diffs apply back to the text they describe (breezy/diff.py:
internal_diff, unified_diff_bytes; breezy/patches.py: parse_patch, iter_hunks,
hunk_from_header, parse_line, iter_patched, iter_patched_from_hunks,
Hunk.as_bytes, Patch.stats_values; crates/patch: iter_lines_handle_nl,
get_patch_names, parse_range — rebuilt from the working tree).

Model: lean/BreezyVerif/Model/C39.lean; theorems: Props/C39.lean.  The sequence
matcher (patiencediff / difflib, external) is a parameter of the model: the
harness passes the grouped opcodes the real matcher produced, checks the model's
validity predicate on them (`vg`) and checks that they equal the model's
specification of difflib's get_opcodes/get_grouped_opcodes applied to the real
matching blocks (`grouped`, `vb`).

T2: diff text, parsed hunks, re-serialisation, statistics, patched output and
error kind INCLUDING the PatchConflict line number (compared exactly; no
tolerances), line splitting of the written diff (`splitnl` against
BytesIO.readlines), for both matchers (patiencediff and difflib.SequenceMatcher),
for perturbed old texts and for a malformed-patch stream (accept/reject + kind).
Oracle (independent of the model): patched(a, diff(a,b)) == b, also through byte
streams (join, readlines); hunks survive as_bytes -> parse; stats == lines outside
the matching blocks; a perturbed old text gives either PatchConflict carrying the
1-based number of the first old line that differs or is missing (computed from
absolute hunk positions) or, when every hunk still matches, exactly the spliced
text.

Perturbation families of the old text: change / delete / insert / truncate /
append one line, truncate inside a hunk, shift (k copies of a context line put in
front of a hunk, so its context is present but k lines late), dup-block (the
hunk's old side duplicated in front of it, where a fuzzy patcher would take it),
swap (two adjacent differing lines exchanged), drop-prefix (text starts k lines
late).  Text families: all pairs over {a,b,c} up to a length, random edited
copies up to 30 lines, long texts (100-220 lines, 7-14 scattered edits, > 6
hunks), context sizes 0,1,2,3,5,10,50 (larger than many texts).

History: fix fc5e87d made both StopIteration sites of iter_patched_from_hunks and
the bytes/str mix-up of PatchConflict.__init__ raise a proper PatchConflict; the
model has a single error `conflict line_no` accordingly and the corpus keeps the
two former findings (01, 02) as regression cases.

Mutants this was built against (details in the final report):
  M1 diff.py   hunk header uses `i2 - i1 + 1`                     -> oracle (apply / parse)
  M2 diff.py   '-0,0' work-around dropped                          -> T2 (text) [apply unaffected]
  M3 diff.py   'replace' writes '+' lines before '-' lines        -> T2 + reprint
  M4 diff.py   no-newline marker only written for the last line   -> oracle (apply)
  M5 patches.py iter_patched_from_hunks: `while line_no <= hunk.orig_pos` -> oracle
  M6 patches.py range_str special case `range == 1` -> `pos == 1`  -> oracle (re-parse)
  M7 patches.py context lines are not compared (`isinstance(hunk_line, RemoveLine)` only) -> oracle (conflict)
  M8 parse.rs  parse_range default range "1" -> "0"                -> oracle (re-parse)
  M9 parse.rs  iter_lines_handle_nl forgets to strip the newline   -> oracle (apply)
  M10 patches.py stats_values counts ContextLine as insert         -> oracle (stats)
  M11 diff.py  'equal' lines taken from a[j1:j2]                     -> oracle (apply)
  M12 (equivalent) `replace(b"+1,", b"+0,")` in the empty-new-text work-around -> clean
  H1 (harmless) unified_diff_bytes: loop rewritten with slices precomputed -> clean
Improvement round (conflict reporting after fix fc5e87d, aimed perturbations):
  N1 patches.py text ends inside a hunk: PatchConflict(hunk.orig_pos, ...)   -> oracle (line number)
  N2 patches.py text ends before a hunk: PatchConflict(hunk.orig_pos, ...)   -> oracle (line number)
  N3 patches.py mismatch reported at line_no - 1                             -> oracle (line number)
  N4 patches.py bare next() inside the hunk loop again (RuntimeError)         -> oracle (not a PatchConflict)
  N5 patches.py fuzzy patcher: skips up to 3 old lines until the hunk's first line matches -> oracle
     (shift / dup-block / insert: output produced although the context is not at the hunk's position)
  H2 (harmless) `next(orig_lines, None)` + test instead of try/except        -> clean
(M2 and M3 do not change what breezy's own patcher produces; they are caught by
the correspondence tie, M8 additionally by the re-parse oracle.)
"""
import difflib
import itertools
import json
import os
from io import BytesIO

from vlib import env

THEOREMS = [
    "apply_mkhunks", "parse_diff_text", "diff_text_applies", "serialise_parse_hunks", "diff_reserialises",
    "no_newline_marker_roundtrip", "grouped_validGroups", "diff_of_blocks_applies", "stats_eq_counts",
    "stats_of_parsed_diff", "stats_balance", "apply_ok_iff", "apply_conflict_on_mismatch",
    "apply_conflict_first_differing_line", "apply_ok_or_conflict", "diff_bytes_roundtrip", "diff_bytes_applies",
]
RUST = ("patch-py",)
RULE = ("all pairs of line lists over {a,b,c} up to a length x context sizes {0,1,3}, random longer texts "
        "(edited copies up to 30 lines; last/middle lines without newline; CR bytes; context sizes 0..50), long texts "
        "(100-220 lines, 7-14 scattered edits), two matchers; perturbations of the old text (change/delete/insert/"
        "truncate/append one line, truncate inside a hunk, shift, dup-block, swap, drop-prefix); "
        "non-trivial = the diff is non-empty")
ASSUMPTIONS = [
    "the matcher's matching blocks satisfy validBlocks (checked on every case: `vb`) and its grouping equals the "
    "model's specification of difflib (`grouped`, checked on every case); that the grouping of valid blocks is a "
    "valid grouped-opcode list is a theorem (grouped_validGroups), `vg` is still checked per case",
    "byte-level theorems: files are split after every newline (BytesIO.readlines, checked per case: `splitnl`); the "
    "line-list theorems hold for arbitrary byte-string lines",
]
TRUSTED = [
    "patiencediff / difflib (matching blocks and grouped opcodes are inputs of the model, validated per case)",
    "Python `re` for the hunk-header regex (modelled by prefix/suffix matching)",
]


def hx(b):
    return b.hex() if b else "-"


def hxl(items):
    items = list(items)
    return ",".join(hx(x) for x in items) if items else "~"


def split_nl(data):
    """split bytes after every \\n (only \\n)"""
    out, start = [], 0
    while True:
        i = data.find(b"\n", start)
        if i < 0:
            break
        out.append(data[start:i + 1]); start = i + 1
    if start < len(data):
        out.append(data[start:])
    return out


TAGS = {"equal": "e", "replace": "r", "delete": "d", "insert": "i"}


def enc_groups(groups):
    if not groups:
        return "~"
    return "|".join(";".join("%s:%d:%d:%d:%d" % (TAGS[t], i1, i2, j1, j2) for (t, i1, i2, j1, j2) in g) if g else "_"
                    for g in groups)


def enc_blocks(blocks):
    bl = [(i, j, n) for (i, j, n) in blocks if n > 0]
    return ";".join("%d:%d:%d" % b for b in bl) if bl else "~"


def matchers():
    import patiencediff
    return [("patience", patiencediff.PatienceSequenceMatcher), ("difflib", difflib.SequenceMatcher)]


def do_diff(a, b, n, matcher):
    from breezy.diff import internal_diff
    f = BytesIO()
    internal_diff("old", a, "new", b, f, context_lines=n, sequence_matcher=matcher)
    return f.getvalue()


def dump_hunks(hunks):
    from breezy import patches
    out = []
    for h in hunks:
        parts = ["%d:%d:%d:%d:%s" % (h.orig_pos, h.orig_range, h.mod_pos, h.mod_range,
                                      "~" if h.tail is None else hx(h.tail))]
        for l in h.lines:
            k = "c" if isinstance(l, patches.ContextLine) else "+" if isinstance(l, patches.InsertLine) else "-"
            parts.append(k + hx(l.contents))
        out.append(";".join(parts))
    return "|".join(out) if out else "~"


def classify_exc(e):
    from breezy import patches
    name = type(e).__name__
    if isinstance(e, patches.PatchConflict):
        return "E:Conflict:%d" % e.line_no
    if isinstance(e, RuntimeError) and "StopIteration" in str(e):
        return "E:Truncated"              # iter_hunks: next() past the end of a truncated patch
    if isinstance(e, patches.MalformedHunkHeader):
        return "E:HunkHeader"
    if isinstance(e, patches.MalformedLine):
        return "E:MalformedLine"
    if isinstance(e, patches.MalformedPatchHeader) or name == "MalformedPatchHeader":
        return "E:Header"
    if isinstance(e, patches.PatchSyntax) or name == "PatchSyntax":
        return "E:NoInput" if "No input" in str(e) else "E:Syntax"
    if name == "PanicException":
        return "E:NoNlPanic"
    return "E:Other:%s:%s" % (name, str(e)[:80])


class quiet_stderr:
    """the Rust panic hook writes to fd 2; keep the run's output readable"""

    def __enter__(self):
        self.saved = os.dup(2)
        self.null = os.open(os.devnull, os.O_WRONLY)
        os.dup2(self.null, 2)

    def __exit__(self, *a):
        os.dup2(self.saved, 2)
        os.close(self.saved); os.close(self.null)


def impl_apply(orig, plines):
    from breezy import patches
    if plines and plines[0].startswith(b"\\"):
        with quiet_stderr():
            return _impl_apply(orig, plines)
    return _impl_apply(orig, plines)


def _impl_apply(orig, plines):
    from breezy import patches
    try:
        return "ok " + hxl(list(patches.iter_patched(list(orig), list(plines))))
    except BaseException as e:  # PanicException derives from BaseException
        if isinstance(e, (KeyboardInterrupt, SystemExit)):
            raise
        return classify_exc(e)


def impl_parse(plines):
    from breezy import patches
    try:
        return patches.parse_patch(iter(list(plines)))
    except BaseException as e:
        if isinstance(e, (KeyboardInterrupt, SystemExit)):
            raise
        return classify_exc(e)


def apply_kind_equal(impl, model):
    """T2 comparison of apply results: exact (output, error kind and PatchConflict line number)"""
    return impl == model


def reference_apply(orig, hunks):
    """independent reference: absolute positions, every hunk's old side must be present"""
    from breezy import patches
    out, pos = [], 0
    for h in hunks:
        start = max(h.orig_pos - 1, 0)
        if start < pos or start > len(orig):
            return None
        old = [l.contents for l in h.lines if not isinstance(l, patches.InsertLine)]
        new = [l.contents for l in h.lines if not isinstance(l, patches.RemoveLine)]
        if orig[start:start + len(old)] != old:
            return None
        out += orig[pos:start] + new
        pos = start + len(old)
    return out + orig[pos:]


def reference_conflict_line(orig, hunks):
    """independent reference for the reported line: the 1-based number of the first old
    line that differs from a hunk's old side or is missing (absolute positions)"""
    from breezy import patches
    pos = 0
    for h in hunks:
        start = max(h.orig_pos - 1, pos)
        if start > len(orig):
            return len(orig) + 1
        old = [l.contents for l in h.lines if not isinstance(l, patches.InsertLine)]
        for k, want in enumerate(old):
            if start + k >= len(orig) or orig[start + k] != want:
                return start + k + 1
        pos = start + len(old)
    return None


# --------------------------------------------------------------------------
# generators

ALPHA = [b"a\n", b"b\n", b"c\n"]


def gen_pairs(ctx):
    L = ctx.pick(3, 4)
    texts = []
    for k in range(L + 1):
        texts += [list(t) for t in itertools.product(ALPHA, repeat=k)]
    for a in texts:
        for b in texts:
            yield a, b, None
    rng = ctx.rng
    pool = [b"a\n", b"b\n", b"c\n", b"d\n", b"\n", b"x\r\n", b" y\n", b"+p\n", b"-m\n", b"@@ -1 +1 @@\n", b"\\ No newline at end of file\n"]
    for _ in range(ctx.pick(1500, 15000)):
        la = rng.randrange(0, 30)
        a = [rng.choice(pool[:6]) if rng.random() < 0.9 else rng.choice(pool) for _ in range(la)]
        b = list(a)
        for _ in range(rng.choice([0, 1, 1, 2, 3, 5])):
            r = rng.random()
            pos = rng.randrange(len(b) + 1)
            if r < 0.35 and b:
                del b[min(pos, len(b) - 1)]
            elif r < 0.7:
                b.insert(pos, rng.choice(pool))
            elif b:
                b[min(pos, len(b) - 1)] = rng.choice(pool)
        r = rng.random()
        if r < 0.2 and a:
            a[-1] = a[-1].rstrip(b"\n") or b"z"
        elif r < 0.4 and b:
            b[-1] = b[-1].rstrip(b"\n") or b"z"
        elif r < 0.5 and a and b:
            a[-1] = a[-1].rstrip(b"\n") or b"z"
            b[-1] = b[-1].rstrip(b"\n") or b"z"
        elif r < 0.55 and len(a) > 2:
            k = rng.randrange(len(a) - 1)
            a[k] = a[k].rstrip(b"\n") or b"q"           # a middle line without newline
        yield a, b, rng.choice([0, 1, 2, 3, 3, 5, 10, 50])
    # long texts: many scattered edits, more than 6 hunks
    for _ in range(ctx.pick(40, 400)):
        la = rng.randrange(100, 220)
        a = [b"l%d\n" % rng.randrange(40) if rng.random() < 0.7 else rng.choice(pool[:6]) for _ in range(la)]
        b = list(a)
        for _ in range(rng.randrange(7, 15)):
            pos = rng.randrange(len(b) + 1)
            r = rng.random()
            if r < 0.35 and b:
                del b[min(pos, len(b) - 1):min(pos, len(b) - 1) + rng.choice([1, 1, 2, 4])]
            elif r < 0.7:
                b[pos:pos] = [rng.choice(pool) for _ in range(rng.choice([1, 1, 2, 3]))]
            elif b:
                b[min(pos, len(b) - 1)] = b"edit%d\n" % rng.randrange(5)
        if rng.random() < 0.3 and b:
            b[-1] = b[-1].rstrip(b"\n") or b"z"
        if rng.random() < 0.2 and a:
            a[-1] = a[-1].rstrip(b"\n") or b"z"
        yield a, b, rng.choice([0, 1, 2, 3, 3, 5, 10])


def perturb(ctx, a, hunks):
    """perturbed old texts; `hunks` = the parsed hunks of the diff (positions to aim at)"""
    from breezy import patches
    rng = ctx.rng
    outs = []
    if a:
        k = rng.randrange(len(a))
        outs.append(("change", a[:k] + [b"PERTURBED\n"] + a[k + 1:]))
        outs.append(("delete", a[:k] + a[k + 1:]))
        outs.append(("truncate", a[:k]))
    k = rng.randrange(len(a) + 1)
    outs.append(("insert", a[:k] + [b"PERTURBED\n"] + a[k:]))
    outs.append(("append", a + [b"tail\n"]))
    if hunks:
        h = rng.choice(hunks)
        start = max(h.orig_pos - 1, 0)
        old = [l.contents for l in h.lines if not isinstance(l, patches.InsertLine)]
        if old:
            # the text ends inside this hunk
            outs.append(("truncate-in-hunk", a[:start + rng.randrange(len(old))]))
            # the hunk's old side is present, but k lines late (copies of its own first line in front)
            k = rng.choice([1, 1, 2, 3])
            outs.append(("shift", a[:start] + [old[0]] * k + a[start:]))
            # the hunk's old side duplicated in front of it: a fuzzy patcher would apply it there
            q = rng.randrange(start + 1)
            outs.append(("dup-block", a[:q] + old + a[q:]))
            # ... and removed from its place, kept k lines earlier
            if start >= 1:
                e = rng.randrange(1, min(start, 3) + 1)
                outs.append(("move-earlier", a[:start - e] + old + a[start - e:start] + a[start + len(old):]))
        if len(old) >= 2:
            q = rng.randrange(len(old) - 1)
            if old[q] != old[q + 1]:
                a2 = list(a)
                a2[start + q], a2[start + q + 1] = a2[start + q + 1], a2[start + q]
                outs.append(("swap", a2))
        if start >= 1:
            outs.append(("drop-prefix", a[rng.randrange(1, min(start, 3) + 1):]))
    return outs


# --------------------------------------------------------------------------


class Batch:
    def __init__(self):
        self.cases, self.lines, self.outs, self.cmp = [], [], [], []

    def add(self, case, line, out, cmp=None):
        self.cases.append(case); self.lines.append(line); self.outs.append(out); self.cmp.append(cmp)

    def flush(self, ctx):
        if not self.lines:
            return
        replies = ctx.model(self.lines)
        for c, l, i, m, cmp in zip(self.cases, self.lines, self.outs, replies, self.cmp):
            ctx.traces += 1
            ok = (i == m) if cmp is None else cmp(i, m)
            if not ok:
                ctx.mismatch(c, i, m, line=l)
        self.__init__()


def check_conflict(ctx, case, orig, hunks, res):
    """oracle for an old text that does not carry the hunks: PatchConflict with the right line"""
    want = reference_conflict_line(orig, hunks)
    if want is None:                      # overlapping hunks (never produced by breezy's diff): no reference
        ctx.count("conflict-oracle-skipped")
        if res.startswith("ok"):
            ctx.violation(case, "hunks overlap but iter_patched produced output %s" % res)
        return
    if res.startswith("ok"):
        ctx.violation(case, "old text does not match the hunks' context but iter_patched produced output %s" % res)
    elif res != "E:Conflict:%d" % want:
        ctx.violation(case, "mismatching old text must be reported as PatchConflict at line %d (first old line "
                            "that differs or is missing); got %s" % (want, res))


def one_case(ctx, batch, a, b, n, mname, matcher, do_perturb):
    from breezy import patches
    case = dict(op="diff", a=[x.hex() for x in a], b=[x.hex() for x in b], n=n, matcher=mname)
    sm = matcher(None, a, b)
    try:
        blocks = [tuple(x) for x in sm.get_matching_blocks()]
        groups = [[tuple(o) for o in g] for g in sm.get_grouped_opcodes(n)]
    except BaseException as e:
        # the external compiled patiencediff package can panic ("Max recursion depth reached")
        # on long repetitive texts; that is outside /repo and outside the property (the theorems
        # are about any VALID matcher output): count and skip the case
        if type(e).__name__ != "PanicException":
            raise
        ctx.count("matcher-panic:%s" % mname)
        return
    d = do_diff(a, b, n, matcher)
    dl = split_nl(d)
    if d:
        # the diff as a byte stream read back line by line (theorem diff_bytes_roundtrip)
        rl = BytesIO(d).readlines()
        if rl != dl:
            ctx.violation(case, "BytesIO(diff).readlines() differs from splitting after every newline: %r" % d)
        batch.add(dict(case, check="splitnl"), "splitnl " + hx(d), hxl(rl))
    ha, hb, hg = hxl(a), hxl(b), enc_groups(groups)
    # assumptions about the external matcher, checked per case
    batch.add(dict(case, check="validGroups"), "vg %s %s %s" % (ha, hb, hg), "T")
    batch.add(dict(case, check="validBlocks"), "vb %s %s %s" % (ha, hb, enc_blocks(blocks)), "T")
    batch.add(dict(case, check="grouping-spec"), "grouped %d %d %s %d" % (len(a), len(b), enc_blocks(blocks), n), hg)
    # the diff text
    batch.add(dict(case, check="diff-text"), "diff %s %s %s" % (ha, hb, hg), hxl(dl))
    ctx.case(case, nontrivial=bool(d))
    ctx.count("diff:%s" % ("empty" if not d else "hunks=%d" % min(len(groups), 12)))
    ctx.count("n=%d" % n)
    if not d:
        if a != b:
            ctx.violation(case, "internal_diff produced nothing although the texts differ")
        return
    # oracle 1: the diff applies back
    res = impl_apply(a, dl)
    if res != "ok " + hxl(b):
        ctx.violation(case, "iter_patched(old, diff(old,new)) = %s, expected the new text %s; diff=%r" % (res, hxl(b), d))
    batch.add(dict(case, check="apply"), "apply %s %s" % (ha, hxl(dl)), res, apply_kind_equal)
    # oracle 1b: the same through files: old file -> readlines, diff -> readlines, output joined = new file
    A, B = b"".join(a), b"".join(b)
    if BytesIO(A).readlines() == a and BytesIO(B).readlines() == b:
        ctx.count("bytes-level")
        from breezy import patches
        try:
            out = b"".join(patches.iter_patched(BytesIO(A).readlines(), BytesIO(d).readlines()))
        except BaseException as e:
            if isinstance(e, (KeyboardInterrupt, SystemExit)):
                raise
            out = classify_exc(e)
        if out != B:
            ctx.violation(case, "patching the old FILE with the diff FILE gives %r, expected %r" % (out, B))
        batch.add(dict(case, check="splitnl-old"), "splitnl " + hx(A), hxl(a))
    # oracle 2: parse / re-serialise / parse
    p = impl_parse(dl)
    if isinstance(p, str):
        ctx.violation(case, "parse_patch rejects breezy's own diff: %s; diff=%r" % (p, d))
        return
    batch.add(dict(case, check="parse"), "parse " + hxl(dl), dump_hunks(p.hunks))
    ser = p.as_bytes()
    sl = split_nl(ser)
    batch.add(dict(case, check="reprint"), "reprint " + hxl(dl), hxl(sl))
    p2 = impl_parse(sl)
    batch.add(dict(case, check="parse-reserialised"), "parse " + hxl(sl),
              p2 if isinstance(p2, str) else dump_hunks(p2.hunks))
    if isinstance(p2, str) or dump_hunks(p2.hunks) != dump_hunks(p.hunks):
        ctx.violation(case, "re-serialised patch %r parses to %s, the original diff to %s"
                      % (ser, p2 if isinstance(p2, str) else dump_hunks(p2.hunks), dump_hunks(p.hunks)))
    elif impl_apply(a, sl) != "ok " + hxl(b):
        ctx.violation(case, "re-serialised patch %r does not apply back: %s" % (ser, impl_apply(a, sl)))
    # oracle 3: statistics
    matched = sum(x[2] for x in blocks)
    st = p.stats_values()
    if st != (len(b) - matched, len(a) - matched, len(groups)):
        ctx.violation(case, "stats_values()=%r but %d inserted / %d removed lines lie outside the matching blocks, %d hunks"
                      % (st, len(b) - matched, len(a) - matched, len(groups)))
    batch.add(dict(case, check="stats"), "stats " + hxl(dl), "%d %d %d" % st)
    # oracle 4: perturbed old texts
    if do_perturb:
        for kind, a2 in perturb(ctx, a, p.hunks):
            c2 = dict(op="apply", orig=[x.hex() for x in a2], patch=[x.hex() for x in dl], perturbation=kind)
            r2 = impl_apply(a2, dl)
            ref = reference_apply(a2, p.hunks)
            ctx.case(c2, nontrivial=True)
            ctx.count("perturb:%s:%s" % (kind, "ok" if r2.startswith("ok") else r2.split(":")[1]))
            if ref is None:
                check_conflict(ctx, c2, a2, p.hunks, r2)
            else:
                if r2 != "ok " + hxl(ref):
                    ctx.violation(c2, "old text matches every hunk; expected the spliced text %s, got %s" % (hxl(ref), r2))
            batch.add(c2, "apply %s %s" % (hxl(a2), hxl(dl)), r2, apply_kind_equal)


def malformed(ctx, batch, dl, a):
    """mutated patches: accept/reject + error kind only"""
    rng = ctx.rng
    muts = []
    hdr = [i for i, l in enumerate(dl) if l.startswith(b"@@")]
    if hdr:
        i = rng.choice(hdr)
        muts.append(("bad-header", dl[:i] + [dl[i].replace(b"@@ -", b"@@ ", 1)] + dl[i + 1:]))
        muts.append(("no-at", dl[:i] + [b"@ -1,1 +1,1 @\n"] + dl[i + 1:]))
        muts.append(("neg-range", dl[:i] + [b"@@ -1,-1 +1,1 @@\n"] + dl[i + 1:]))
        muts.append(("three-fields", dl[:i] + [b"@@ -1,1 +1,1 +2,2 @@\n"] + dl[i + 1:]))
        muts.append(("alpha-range", dl[:i] + [b"@@ -1,x +1,1 @@\n"] + dl[i + 1:]))
        muts.append(("tail", dl[:i] + [dl[i][:-1] + b" def f():\n"] + dl[i + 1:]))
        muts.append(("truncated", dl[:i + 1]))
        if i + 1 < len(dl):
            muts.append(("junk-line", dl[:i + 1] + [b"?" + dl[i + 1][1:]] + dl[i + 2:]))
    muts.append(("no-names", dl[2:]))
    muts.append(("one-name", dl[:1]))
    muts.append(("empty", []))
    muts.append(("bad-first", [b"*** old\n"] + dl[1:]))
    muts.append(("bad-second", dl[:1] + [b"--- new\n"] + dl[2:]))
    muts.append(("nonl-first", [b"\\ No newline at end of file\n"] + dl))
    muts.append(("name-tabs", [b"--- old\tts\n", b"+++ new\tts\n"] + dl[2:]))
    muts.append(("name-2tabs", [b"--- old\tts\tx\n"] + dl[1:]))
    for kind, ml in rng.sample(muts, min(len(muts), 5)):
        c = dict(op="apply", orig=[x.hex() for x in a], patch=[x.hex() for x in ml], malformed=kind)
        r = impl_apply(a, ml)
        ctx.case(c, nontrivial=True)
        ctx.count("malformed:%s:%s" % (kind, "ok" if r.startswith("ok") else r[:20]))
        batch.add(c, "apply %s %s" % (hxl(a), hxl(ml)), r,
                  apply_kind_equal)


def run_corpus(ctx, batch):
    d = os.path.join(env.VERIF, "corpus", "C39")
    if not os.path.isdir(d):
        return
    ms = dict(matchers())
    for fn in sorted(os.listdir(d)):
        if fn.endswith(".json"):
            case = json.load(open(os.path.join(d, fn)))
            case = case.get("case", case)
            _replay_into(ctx, batch, case, ms)
            ctx.count("corpus")


def _replay_into(ctx, batch, case, ms):
    if case["op"] == "diff":
        a = [bytes.fromhex(x) for x in case["a"]]
        b = [bytes.fromhex(x) for x in case["b"]]
        one_case(ctx, batch, a, b, case["n"], case["matcher"], ms[case["matcher"]], False)
    else:
        orig = [bytes.fromhex(x) for x in case["orig"]]
        pl = [bytes.fromhex(x) for x in case["patch"]]
        r = impl_apply(orig, pl)
        p = impl_parse(pl)
        if not isinstance(p, str):
            ref = reference_apply(orig, p.hunks)
            if ref is None:
                check_conflict(ctx, case, orig, p.hunks, r)
            elif ref is not None and r != "ok " + hxl(ref):
                ctx.violation(case, "old text matches every hunk; expected %s, got %s" % (hxl(ref), r))
        batch.add(case, "apply %s %s" % (hxl(orig), hxl(pl)), r, apply_kind_equal)


def run(ctx):
    os.environ["RUST_BACKTRACE"] = "0"
    batch = Batch()
    run_corpus(ctx, batch)
    ms = matchers()
    k = 0
    for a, b, n in gen_pairs(ctx):
        ns = [0, 1, 3] if n is None else [n]
        for nn in ns:
            for mname, m in ms:
                if n is None and mname == "difflib" and nn != 1:
                    continue
                k += 1
                pert = (k % ctx.pick(4, 3) == 0)
                one_case(ctx, batch, a, b, nn, mname, m, pert)
                if k % 11 == 0 and a != b:
                    malformed(ctx, batch, split_nl(do_diff(a, b, nn, m)), a)
        if len(batch.lines) > 20000:
            batch.flush(ctx)
    batch.flush(ctx)


def widen(ctx):
    ctx.tier = "thorough"
    run(ctx)


def replay(ctx, case):
    batch = Batch()
    _replay_into(ctx, batch, case, dict(matchers()))
    lines, outs = list(batch.lines), list(batch.outs)
    replies = ctx.model(lines)
    batch.flush(ctx)
    return dict(case=case, impl=outs, model=replies, lines=lines,
                oracle_failures=[v["what"] for v in ctx.violations],
                mismatches=[m for m in ctx.mismatches if m])
