import BreezyVerif.Lemmas.C10Apply
/-!
C10 — the filtered result of `iterChangesG` (both loop variants): its shape, what
is in it, and the trees used by the non-termination witnesses.
-/
namespace BreezyVerif.C10

/-- `iter_changes` ran out of fuel: the closure loop did not finish -/
def isFuel : Except Err (List Change) → Bool
  | .error .fuel => true
  | _ => false

/-- `a` is `k` or one of its ancestors in the target -/
inductive AncestorOrSelf (tgt : Tree) (k : Id) : Id → Prop where
  | self : AncestorOrSelf tgt k k
  | up {a p : Id} : AncestorOrSelf tgt k a → tgtPar tgt a = some p → AncestorOrSelf tgt k p

theorem tgtParents_reachable {src tgt : Tree} {sel : List Id} {incl : Bool} :
    ∀ p ∈ tgtParents (baseTgt src tgt sel incl), p ∈ reachable src tgt := by
  intro p hp
  obtain ⟨c, hc, hcp⟩ := mem_tgtParents_iff.mp hp
  rw [change_tgtPar (baseTgt_mem hc).1] at hcp
  exact tgtPar_mem_reachable hcp

/-- the shape of every filtered result of `iterChangesG` (`include_unchanged=False`) -/
theorem filteredG_shape (fx : Bool) (impl : Impl) (src tgt : Tree) (p : Path) (f : List Path) (reqv : Bool)
    (cs : List Change) (h : iterChangesG fx impl src tgt (some (p :: f)) false reqv = .ok cs) :
    ∃ extra,
      preciseLoopG fx src tgt (gFuel fx src tgt)
        { precise := tgtParents (baseTgt src tgt (selectIds src tgt (p :: f)) false),
          changed := (baseTgt src tgt (selectIds src tgt (p :: f)) false
                      ++ baseRemoved src tgt (selectIds src tgt (p :: f))).map (·.id),
          out := [] } [] = some extra ∧
      cs = baseTgt src tgt (selectIds src tgt (p :: f)) false
            ++ baseRemoved src tgt (selectIds src tgt (p :: f)) ++ extra := by
  unfold iterChangesG at h
  simp only at h
  split at h
  · cases h
  · cases impl
    · simp only at h
      split at h
      · rename_i extra he
        refine ⟨extra, he, ?_⟩
        cases h; rfl
      · cases h
    · simp only at h
      split at h
      · rename_i extra he
        refine ⟨extra, he, ?_⟩
        simp at h; rw [← h, List.append_assoc]
      · cases h

/-- every changed record of a selected id is emitted before the loop -/
theorem base_complete {src tgt : Tree} {sel : List Id} {i : Id} {c : Change} (hi : i ∈ sel)
    (hc : change src tgt i = some c) (hch : c.isChanged = true) :
    c ∈ baseTgt src tgt sel false ++ baseRemoved src tgt sel := by
  rw [List.mem_append]
  cases ht : get tgt i with
  | some e =>
    left
    unfold baseTgt
    rw [List.mem_filterMap]
    refine ⟨i, ?_, by simp [hc, hch]⟩
    rw [List.mem_filter]
    exact ⟨mem_ids_of_get ht, by simpa using hi⟩
  | none =>
    right
    unfold baseRemoved
    rw [List.mem_filterMap]
    refine ⟨i, ?_, hc⟩
    rw [List.mem_filter]
    have hs : i ∈ ids src := by
      cases hsrc : get src i with
      | none => rw [change_none_iff.mpr ⟨hsrc, ht⟩] at hc; cases hc
      | some s => exact mem_ids_of_get hsrc
    refine ⟨hs, ?_⟩
    simp only [Bool.and_eq_true, Option.isNone_iff_eq_none]
    exact ⟨by simpa using hi, ht⟩

/-- everything the filter theorems need about a filtered result, in one place -/
theorem filteredG_closed (fx : Bool) (impl : Impl) (src tgt : Tree) (p : Path) (f : List Path) (reqv : Bool)
    (cs : List Change) (h : iterChangesG fx impl src tgt (some (p :: f)) false reqv = .ok cs) :
    ∃ K : List Id,
      (∀ c ∈ cs, c.isChanged = true ∧ change src tgt c.id = some c) ∧
      (∀ c ∈ cs, c.id ∈ K) ∧
      (∀ k ∈ K, (∃ c ∈ cs, c.id = k) ∨ NotChange src tgt k) ∧
      (∀ k ∈ K, ∀ q, tgtPar tgt k = some q → q ∈ K) ∧
      (∀ c ∈ cs, stoppedDir c = true → ∀ ch ∈ childrenOf src c.id, (∃ c' ∈ cs, c'.id = ch) ∨ NotChange src tgt ch) ∧
      (∀ i ∈ selectIds src tgt (p :: f), ∀ c, change src tgt i = some c → c.isChanged = true → c ∈ cs) := by
  obtain ⟨extra, he, hcs⟩ := filteredG_shape fx impl src tgt p f reqv cs h
  obtain ⟨K, hK⟩ := preciseLoopG_closed fx src tgt _ _ _ _ extra (ginv_start src tgt (selectIds src tgt (p :: f)) false) he
  have hcomplete : ∀ i ∈ selectIds src tgt (p :: f), ∀ c, change src tgt i = some c → c.isChanged = true → c ∈ cs := by
    intro i hi c hc hch
    rw [hcs]; exact List.mem_append.mpr (Or.inl (base_complete hi hc hch))
  refine ⟨K, ?_, ?_, ?_, ?_, ?_, hcomplete⟩
  · intro c hc
    rw [hcs] at hc
    rcases List.mem_append.mp hc with hb | hx
    · rcases List.mem_append.mp hb with hb | hb
      · obtain ⟨h1, h2, _, _⟩ := baseTgt_mem hb
        exact ⟨by simpa using h2, h1⟩
      · obtain ⟨h1, h2, _, _⟩ := baseRemoved_mem hb
        exact ⟨h2, h1⟩
    · exact hK.outTrue c hx
  · intro c hc; rw [hcs] at hc; exact hK.recIn c hc
  · intro k hk; rw [hcs]; exact hK.kDone k hk
  · exact hK.kClosed
  · intro c hc hs ch hch
    rw [hcs] at hc
    rcases List.mem_append.mp hc with hb | hx
    · have hsel : c.id ∈ selectIds src tgt (p :: f) := by
        rcases List.mem_append.mp hb with hb | hb
        · exact (baseTgt_mem hb).2.2.1
        · exact (baseRemoved_mem hb).2.2.1
      have hchsel := selectIds_children_closed hsel (Or.inl hch)
      cases hr : change src tgt ch with
      | none => right; intro r hr'; rw [hr] at hr'; cases hr'
      | some r =>
        by_cases hrc : r.isChanged = true
        · left; exact ⟨r, hcomplete ch hchsel r hr hrc, change_id hr⟩
        · right; intro r' hr'; rw [hr] at hr'; cases hr'; simpa using hrc
    · rw [hcs]; exact hK.kDone ch (hK.kids c hx hs ch hch)

/-! ### trees of the non-termination witnesses -/

def loopASrc : Tree := [("r", ⟨none, "", .dir⟩), ("a", ⟨some "r", "a", .dir⟩), ("x", ⟨some "a", "x", .dir⟩),
  ("b", ⟨some "r", "b", .dir⟩), ("o", ⟨some "b", "x", .dir⟩)]
/-- `b` renamed to `c`, `a` renamed to `b` (so the unchanged `x` now sits at `b/x`, the old path of
`o`), and `o` moved into `x` -/
def loopATgt : Tree := [("r", ⟨none, "", .dir⟩), ("a", ⟨some "r", "b", .dir⟩), ("x", ⟨some "a", "x", .dir⟩),
  ("b", ⟨some "r", "c", .dir⟩), ("o", ⟨some "x", "y", .dir⟩)]

def loopARec : Change :=
  ⟨"o", some ["b", "x"], some ["b", "x", "y"], false, some ⟨some "b", "x", .dir, false⟩, some ⟨some "x", "y", .dir, false⟩⟩

theorem loopA_round (n : Nat) (out : List Change) :
    preciseLoop loopASrc loopATgt (n + 1) ⟨["a", "x"], ["o", "a", "b"], out⟩ =
      preciseLoop loopASrc loopATgt n ⟨["a", "x"], ["o", "a", "b"], out ++ [loopARec]⟩ := by
  rfl

theorem loopA_never : ∀ (n : Nat) (out : List Change),
    preciseLoop loopASrc loopATgt n ⟨["a", "x"], ["o", "a", "b"], out⟩ = none := by
  intro n
  induction n with
  | zero => intro out; rfl
  | succ n ih => intro out; rw [loopA_round]; exact ih _

theorem loopA_prefix (n : Nat) : ∃ out,
    preciseLoop loopASrc loopATgt (n + 3) (startState loopASrc loopATgt [["b", "x", "y"]]) =
      preciseLoop loopASrc loopATgt n ⟨["a", "x"], ["o", "a", "b"], out⟩ :=
  ⟨_, rfl⟩

theorem loopA_diverges (n : Nat) : preciseLoop loopASrc loopATgt n (startState loopASrc loopATgt [["b", "x", "y"]]) = none := by
  by_cases h : n < 3
  · have : n = 0 ∨ n = 1 ∨ n = 2 := by omega
    rcases this with h | h | h <;> subst h <;> rfl
  · obtain ⟨m, rfl⟩ : ∃ m, n = m + 3 := ⟨n - 3, by omega⟩
    obtain ⟨out, ho⟩ := loopA_prefix m
    rw [ho]; exact loopA_never m out

def loopBSrc : Tree := [("r", ⟨none, "", .dir⟩), ("g", ⟨some "r", "g", .dir⟩), ("i", ⟨some "g", "n", .dir⟩),
  ("o", ⟨some "i", "n", .dir⟩)]
/-- a new directory `h` takes the place of `g`, `g` moves into it as `g/n`: the unchanged `i` now
sits at `g/n/n`, the old path of its own unchanged child `o`; a file is added below `i` -/
def loopBTgt : Tree := [("r", ⟨none, "", .dir⟩), ("h", ⟨some "r", "g", .dir⟩), ("g", ⟨some "h", "n", .dir⟩),
  ("i", ⟨some "g", "n", .dir⟩), ("o", ⟨some "i", "n", .dir⟩), ("f", ⟨some "i", "f", .file "x" false⟩)]

theorem loopB_round (n : Nat) (out : List Change) :
    preciseLoop loopBSrc loopBTgt (n + 1) ⟨["g", "i"], ["f", "g", "h"], out⟩ =
      preciseLoop loopBSrc loopBTgt n ⟨["g", "i"], ["f", "g", "h"], out⟩ := by
  rfl

theorem loopB_never : ∀ (n : Nat) (out : List Change),
    preciseLoop loopBSrc loopBTgt n ⟨["g", "i"], ["f", "g", "h"], out⟩ = none := by
  intro n
  induction n with
  | zero => intro out; rfl
  | succ n ih => intro out; rw [loopB_round]; exact ih _

theorem loopB_prefix (n : Nat) : ∃ out,
    preciseLoop loopBSrc loopBTgt (n + 4) (startState loopBSrc loopBTgt [["g", "n", "n", "f"]]) =
      preciseLoop loopBSrc loopBTgt n ⟨["g", "i"], ["f", "g", "h"], out⟩ :=
  ⟨_, rfl⟩

theorem loopB_diverges (n : Nat) : preciseLoop loopBSrc loopBTgt n (startState loopBSrc loopBTgt [["g", "n", "n", "f"]]) = none := by
  by_cases h : n < 4
  · have : n = 0 ∨ n = 1 ∨ n = 2 ∨ n = 3 := by omega
    rcases this with h | h | h | h <;> subst h <;> rfl
  · obtain ⟨m, rfl⟩ : ∃ m, n = m + 4 := ⟨n - 4, by omega⟩
    obtain ⟨out, ho⟩ := loopB_prefix m
    rw [ho]; exact loopB_never m out

/-! ### `require_versioned`, `want_unversioned` -/

theorem mem_notVersioned {src tgt : Tree} {filt : List Path} {p : Path} :
    p ∈ notVersioned src tgt filt ↔ p ∈ filt ∧ idAt tgt p = none ∧ idAt src p = none := by
  unfold notVersioned
  simp [List.mem_filter, Option.isNone_iff_eq_none]

/-- `idAt` finds nothing exactly when no id has that path -/
theorem idAt_none_iff {t : Tree} {p : Path} : idAt t p = none ↔ ∀ i, pathOf t i ≠ some p := by
  unfold idAt
  rw [List.find?_eq_none]
  constructor
  · intro h i hp
    have hm : i ∈ ids t := by
      unfold pathOf pathFuel at hp
      cases hg : get t i with
      | none => simp [hg] at hp
      | some e => exact mem_ids_of_get hg
    exact h i hm (by simp [hp])
  · intro h i _ hp
    exact h i (by simpa using hp)

end BreezyVerif.C10
