import BreezyVerif.Common
import BreezyVerif.Model.C04
/-
Line-protocol encoders / decoders of the pack-directory model, shared by the
C04 and C05 drivers.  Core Lean only.
-/
namespace BreezyVerif.C04

def showDir : Dir → String
  | .upload => "u" | .packs => "p" | .indices => "i" | .obsolete => "o"

def showExt : Ext → String
  | .pack => "pack" | .autopack => "autopack" | .rix => "rix" | .iix => "iix"
  | .tix => "tix" | .six => "six" | .cix => "cix"

def parseExt (s : String) : Option Ext :=
  if s == "pack" then some .pack else if s == "autopack" then some .autopack
  else if s == "rix" then some .rix else if s == "iix" then some .iix
  else if s == "tix" then some .tix else if s == "six" then some .six
  else if s == "cix" then some .cix else none

def showFile (f : File) : String := s!"{showDir f.dir}{f.stem}.{showExt f.ext}"

def parseFile (s : String) : Option File :=
  match s.toList with
  | [] => none
  | c :: rest =>
    let d : Option Dir := if c == 'u' then some .upload else if c == 'p' then some .packs
      else if c == 'i' then some .indices else if c == 'o' then some .obsolete else none
    match d, (String.ofList rest).splitOn "." with
    | some d, [n, e] => do pure ⟨d, ← n.toNat?, ← parseExt e⟩
    | _, _ => none

def parseFiles (s : String) : Option (List File) := (splitList s).mapM parseFile

def sortStr (l : List String) : List String := l.mergeSort (fun a b => decide (a ≤ b))
def sortNat (l : List Nat) : List Nat := l.mergeSort (fun a b => decide (a ≤ b))

def showNats (l : List Nat) : String := joinList ((sortNat l).map toString)
def showNatsRaw (l : List Nat) : String := joinList (l.map toString)

def showOp : Op → String
  | .beginWrite f => s!"bw:{showFile f}"
  | .endWrite f => s!"ew:{showFile f}"
  | .move a b => s!"mv:{showFile a}>{showFile b}"
  | .delete f => s!"rm:{showFile f}"
  | .lock => "lk"
  | .unlock => "ul"
  | .putNames ns => s!"pn:{showNats ns}"

def showDisk (d : Disk) : String :=
  s!"{showNats d.names}|{joinList (sortStr (d.files.map showFile))}|{joinList (sortStr (d.torn.map showFile))}|{if d.locked then "L" else "U"}"

def prefixes (d : Disk) : List Op → List Disk
  | [] => [d]
  | op :: rest => d :: prefixes (step d op) rest

def showRun (d : Disk) (ops : List Op) : String :=
  let o := if ops.isEmpty then "-" else ";".intercalate (ops.map showOp)
  s!"{o} {"/".intercalate ((prefixes d ops).map showDisk)}"

end BreezyVerif.C04
