"""C37 — conditional git ref updates honour the expected old value.

Anchors: breezy/git/transportgit.py TransportRefsContainer.set_if_equals,
remove_if_equals, add_if_new (with read_loose_ref, get_packed_refs and its
per-container `_packed_refs` cache, _remove_packed_ref and dulwich's
RefsContainer.follow/read_ref they rest on); breezy/git/interrepo.py
InterToLocalGitRepository.fetch_refs (the caller during push).

T2: ref stores over a fixed universe of six ref names (HEAD, branches, a tag, a
nested name, a remote ref) are generated — absent / loose / packed / loose+packed /
symbolic refs incl. chains, dangling targets and loops — written to a memory (or
local disk) transport, one real TransportRefsContainer operation is run with a
matching / non-matching / ZERO_SHA / None expected value, and the result flag and
the complete store afterwards (every loose file, the packed-refs file) are
compared with the Lean model applied to the store observed before the operation.
Families:
  * single operations (one name x all value kinds x all expected values enumerated
    completely), sequences on one container, unloaded packed cache, local disk;
  * TWO CONTAINERS on one transport operated one after the other, plus an outside
    `pack-refs` of one ref: before every operation the acting container's
    `_packed_refs` cache is observed and handed to the model (`stepc`: result,
    store, cache afterwards), so stale caches (container A loaded packed-refs,
    container B removed / an outside process packed a ref, then A does a CAS
    with the value it remembers) are part of the compared behaviour; the whole
    sequence is also run by the model (`runcc`) together with the hypothesis
    of containers_coherent_is_cas_partial (`coh=`);
  * all read/write interleavings of two threaded updaters of ANY kind
    (set_if_equals / add_if_new / remove_if_equals, stores with packed refs)
    stopped at the transport's first mutation (put_bytes / delete), complete
    and partial schedules (the phases reached are compared too);
  * RefsContainer.follow separately.
Oracle (no model): the compare-and-swap specification evaluated on the stores
observed on the transport (real name / existence taken from a FRESH container's
follow, never from the acting container's cache); for two updaters,
linearizability (the outcome equals that of one of the two sequential orders);
for fetch_refs (real bzr -> git conversion into a bare git repository, the ref
absent / loose / packed / reached through the HEAD symref, with another
container changing the ref between fetch_refs' snapshot and its conditional
update): the ref a successful call reports must be the value the ref holds
afterwards, a ref changed concurrently must be left alone, an unchanged one
must be updated.

Findings handled here (DESIGN §7 F2): the model's setIfEquals/removeIfEquals are
the CAS behaviour the theorems are about; the code as found was modelled by
`...Legacy`.  Families, computed from the concrete case:
  cas-old-value-ignored          set_if_equals/remove_if_equals with a non-matching expected value
                                 return True and overwrite/delete (F2; fixed in /repo)
  remove-packed-cache-unloaded   remove_if_equals on a container whose packed-refs cache was never
                                 loaded returns True but leaves the packed entry (fixed in /repo)
  cas-race-unlocked              two updaters: both compare, then both write (no lock is taken)
  cas-stale-packed-cache         the acting container's packed-refs cache differs from the packed-refs
                                 file and a container with a fresh view performs the same operation
                                 on the same transport state correctly
  fetch-refs-claims-failed-update  fetch_refs returns name -> new value although its conditional
                                 update failed (ref changed by someone else): CAS result discarded
  fetch-refs-symref-update-dropped fetch_refs on a name that is a symbolic ref passes the text
                                 'ref: ...' as expected value: the update never happens, success reported
A difference from the model is not recorded as a T2 mismatch only if the
implementation agrees exactly with the legacy model on that case and the case
belongs to one of the two F2 families.  The model variant for the cache
(`stepc`: cache kept / `stepf`: packed-refs re-read at the start of every
conditional update) is selected by a probe of the code (evidence key
packed_cache_reloaded).

Mutants this check was built against (on the fixed code): comparison dropped for packed-only refs;
compare against the name instead of the followed real name; `!=` -> `==`;
absent ref compared with None instead of ZERO_SHA; add_if_new ignoring packed
entries; remove_if_equals following symrefs; write before compare; returning
True without writing.  Harmless: helper extracted, packed lookup via dict.get
default, reading the loose ref once.  Improvement round: _remove_packed_ref not
re-reading packed-refs (stale cache written back: resurrects a ref another
container removed); add_if_new checking only the loose file; remove_if_equals
deleting the loose file before comparing; fetch_refs (with the proposed fix)
reporting the update although set_if_equals returned False.
"""
import itertools
import os
import threading

from vlib import env

THEOREMS = [
    "cas_success_iff", "cas_fail_unchanged", "cas_success_writes", "cas_success_resolves",
    "cas_success_iff_resolve", "cas_loop_fails",
    "remove_cas_success_iff", "remove_cas_fail_unchanged", "remove_cas_success_removes",
    "add_if_new_never_overwrites", "add_if_new_success_iff",
    "cas_linearizable_under_lock", "cas_atomic_schedules", "sched_classification", "sched_complete",
    "cas_atomic_second_fails", "cas_race_witness", "add_remove_race_witness",
    "container_coherent_is_cas", "containers_coherent_is_cas_partial", "single_container_is_cas",
    "no_repack_is_cas", "stale_cache_witness", "reload_is_cas",
    "cas_legacy_witness",
]

RULE = ("stores over 6 ref names x values {absent, loose sha, packed sha, both, symref (chain, dangling, loop)}; "
        "operations set_if_equals / remove_if_equals / add_if_new with expected value in {None, current, other, "
        "ZERO_SHA, the value the acting container's packed cache remembers}; one or two containers (packed cache "
        "unloaded / loaded / stale) and outside pack-refs; two threaded updaters of every kind on complete and partial "
        "schedules; fetch_refs with a concurrent change of the ref. A case is non-trivial when the expected value is "
        "given, or the name is symbolic, packed or absent, or the acting container's cache is stale "
        "(i.e. anything but an unconditional update of a plain loose ref)")
ASSUMPTIONS = [
    "ref names and SHAs are abstract (the harness maps indices to real names / 40-digit SHAs; SHA 0 is ZERO_SHA)",
    "dulwich RefsContainer.follow/read_ref, read/write_packed_refs and the transport are called, not verified; "
    "follow is modelled and compared per case",
    "two updaters interleave at the granularity read-phase / write-phase (first transport mutation: put_bytes or delete); "
    "the write phase of remove_if_equals (delete loose file, re-read and rewrite packed-refs) runs without interruption",
    "two containers on one transport are operated one after the other (no overlap) in the stale-cache family",
]
TRUSTED = ["peeled entries of packed-refs and reflogs are not modelled; invalid ref names are outside the generator; "
           "HEAD lives on the same transport (no separate worktree transport)"]

NAMES = [b"HEAD", b"refs/heads/a", b"refs/heads/b", b"refs/tags/t", b"refs/heads/d/e", b"refs/remotes/o/m"]
NIDX = {n: i for i, n in enumerate(NAMES)}
SYMREF = b"ref: "
THREAD_WAIT = 120       # seconds; a longer wait is an infrastructure failure (exit 2), never a violation


def sha(k):
    return (b"%040x" % k)


def unsha(b):
    return int(b, 16)


# --------------------------------------------------------------------------
# stores


def write_packed(t, packed):
    lines = [b"# pack-refs with: peeled\n"]
    for i in sorted(packed, key=lambda i: NAMES[i]):
        lines.append(sha(packed[i]) + b" " + NAMES[i] + b"\n")
    t.put_bytes("packed-refs", b"".join(lines))


def make_transport(store, kind="memory"):
    """write a model store ({'loose': {i: ('S', k) | ('R', j)}, 'packed': {i: k}}) to a transport"""
    from breezy import urlutils
    if kind == "memory":
        from dromedary.memory import MemoryTransport
        t = MemoryTransport()
    else:
        from breezy.transport import get_transport_from_path
        t = get_transport_from_path(env.fresh_dir("refs"))
    for d in ("refs", "refs/heads", "refs/tags", "refs/heads/d", "refs/remotes", "refs/remotes/o"):
        t.mkdir(d)
    for i, v in store["loose"].items():
        body = (sha(v[1]) if v[0] == "S" else SYMREF + NAMES[v[1]]) + b"\n"
        t.put_bytes(urlutils.quote_from_bytes(NAMES[i]), body)
    if store["packed"]:
        write_packed(t, store["packed"])
    return t


def observe(t):
    """the store as it is on the transport (independent of any container cache)"""
    from breezy import urlutils
    from dulwich.refs import read_packed_refs
    from dromedary.errors import NoSuchFile, ReadError
    loose, packed = {}, {}
    for i, n in enumerate(NAMES):
        try:
            b = t.get_bytes(urlutils.quote_from_bytes(n))
        except (NoSuchFile, ReadError):
            continue
        line = b.split(b"\n")[0]
        if line.startswith(SYMREF):
            tgt = line[len(SYMREF):]
            loose[i] = ("R", NIDX[tgt]) if tgt in NIDX else ("X", tgt.hex())
        else:
            loose[i] = ("S", unsha(line[:40]))
    try:
        f = t.get("packed-refs")
    except NoSuchFile:
        pass
    else:
        with f:
            for s, n in read_packed_refs(f):
                packed[NIDX[n] if n in NIDX else n.hex()] = unsha(s)
    return dict(loose=loose, packed=packed)


def obs_cache(refs):
    """the packed-refs cache of a container (None = not loaded)"""
    pr = refs._packed_refs
    if pr is None:
        return None
    return {(NIDX[n] if n in NIDX else n.hex()): unsha(s) for n, s in pr.items()}


def do_pack(t, n):
    """`git pack-refs` of one ref by an outside process: the loose SHA moves into packed-refs"""
    from breezy import urlutils
    st = observe(t)
    v = st["loose"].get(n)
    if v is None or v[0] != "S":
        return False
    st["packed"][n] = v[1]
    write_packed(t, st["packed"])
    t.delete(urlutils.quote_from_bytes(NAMES[n]))
    return True


def enc_store(st):
    l = ",".join("%d:%s%d" % (i, v[0], v[1]) for i, v in sorted(st["loose"].items())) or "-"
    p = ",".join("%d:%d" % (i, k) for i, k in sorted(st["packed"].items())) or "-"
    return l + " " + p


def enc_cache(c):
    if c is None:
        return "~"
    return ",".join("%d:%d" % (i, k) for i, k in sorted(c.items())) or "-"


def js_store(st):
    return dict(loose={str(i): list(v) for i, v in sorted(st["loose"].items())},
                packed={str(i): k for i, k in sorted(st["packed"].items())})


def unjs_store(j):
    return dict(loose={int(i): tuple(v) for i, v in j["loose"].items()}, packed={int(i): k for i, k in j["packed"].items()})


def gen_store(rng):
    loose, packed = {}, {}
    for i in range(len(NAMES)):
        r = rng.random()
        if r < 0.3:
            continue
        if r < 0.5:
            loose[i] = ("S", rng.randint(0, 4))
        elif r < 0.62 and i != 0:
            packed[i] = rng.randint(0, 4)
        elif r < 0.72 and i != 0:
            loose[i] = ("S", rng.randint(0, 4))
            packed[i] = rng.randint(0, 4)
        else:
            loose[i] = ("R", rng.randrange(len(NAMES)))
            if i != 0 and rng.random() < 0.2:
                packed[i] = rng.randint(1, 4)
    if rng.random() < 0.08:      # a long chain 0 -> 1 -> 2 -> 3 -> 4 -> 5 (-> sha | absent | loop)
        for i in range(5):
            loose[i] = ("R", i + 1)
        loose.pop(5, None)
        packed.pop(5, None)
        e = rng.random()
        if e < 0.4:
            loose[5] = ("S", 3)
        elif e < 0.6:
            packed[5] = 2
        elif e < 0.8:
            loose[5] = ("R", rng.randrange(6))
    return dict(loose=loose, packed=packed)


# --------------------------------------------------------------------------
# the specification, evaluated in Python on observed stores (oracle; no model)


def spec_read(st, i):
    if i in st["loose"]:
        return st["loose"][i]
    if i in st["packed"]:
        return ("S", st["packed"][i])
    return None


def spec_current(st, i):
    v = spec_read(st, i)
    return v if v is not None else ("S", 0)


def spec_follow(st, n):
    """RefsContainer.follow on a store: (names, sha | None), or None for SymrefLoop.  Only used where no
    transport exists (sequential outcomes of two updaters); cross-checked with dulwich in check_cc."""
    names, cur, depth = [], n, 0
    while True:
        names.append(cur)
        v = spec_read(st, cur)
        if v is None:
            return names, None
        depth += 1
        if depth > 5:
            return None
        if v[0] == "S":
            return names, v[1]
        if v[0] != "R":
            return names, None
        cur = v[1]


def container_realname(refs, name):
    """the real name as the container's own follow() sees it"""
    from dulwich.refs import SymrefLoop  # noqa
    try:
        names, _ = refs.follow(name)
        return names[-1]
    except Exception:  # noqa: BLE001  (KeyError, IndexError, SymrefLoop)
        return name


def fresh_follow(t, n):
    """follow() of a NEW container on the transport: what the name currently is, whatever any cache says.
    -> ('loop',) | (real index, sha | None)"""
    from breezy.git.transportgit import TransportRefsContainer
    from dulwich.refs import SymrefLoop
    try:
        names, v = TransportRefsContainer(t).follow(NAMES[n])
    except SymrefLoop:
        return ("loop",)
    return (NIDX[names[-1]], None if v is None else unsha(v))


def apply_spec(st, op, real=None, ff=None):
    """expected (flag, store) for op under the CAS specification.  `real` = real ref index (set), `ff` =
    fresh_follow result (add); both default to spec_follow on `st`."""
    st2 = dict(loose=dict(st["loose"]), packed=dict(st["packed"]))
    kind = op[0]
    if kind == "set":
        _, n, old, new = op
        if real is None:
            f = spec_follow(st, n)
            real = n if f is None else f[0][-1]
        if old is not None and spec_current(st, real) != ("S", old):
            return False, st2
        st2["loose"][real] = ("S", new)
        return True, st2
    if kind == "rm":
        _, n, old = op
        if old is not None and spec_current(st, n) != ("S", old):
            return False, st2
        st2["loose"].pop(n, None)
        st2["packed"].pop(n, None)
        return True, st2
    if kind == "add":
        _, n, new = op
        if ff is None:
            f = spec_follow(st, n)
            ff = ("loop",) if f is None else (f[0][-1], f[1])
        if ff == ("loop",):
            return "E:Loop", st2
        if ff[1] is not None:
            return False, st2
        st2["loose"][ff[0]] = ("S", new)
        return True, st2
    if kind == "pack":
        v = st["loose"].get(op[1])
        if v is None or v[0] != "S":
            return False, st2
        st2["loose"].pop(op[1])
        st2["packed"][op[1]] = v[1]
        return True, st2
    raise ValueError(kind)


def run_op(refs, op):
    from dulwich.refs import SymrefLoop
    try:
        if op[0] == "set":
            return refs.set_if_equals(NAMES[op[1]], None if op[2] is None else sha(op[2]), sha(op[3]))
        if op[0] == "rm":
            return refs.remove_if_equals(NAMES[op[1]], None if op[2] is None else sha(op[2]))
        if op[0] == "add":
            return refs.add_if_new(NAMES[op[1]], sha(op[2]))
    except SymrefLoop:
        return "E:Loop"
    raise ValueError(op)


def op_line(op, st, legacy=False, cache=True):
    if op[0] == "set":
        return "%s %s %d %s %d" % ("setL" if legacy else "set", enc_store(st), op[1], "~" if op[2] is None else op[2], op[3])
    if op[0] == "rm":
        if legacy:
            return "rmL %s %s %d %s" % ("T" if cache else "F", enc_store(st), op[1], "~" if op[2] is None else op[2])
        return "rm %s %d %s" % (enc_store(st), op[1], "~" if op[2] is None else op[2])
    return "add %s %d %d" % (enc_store(st), op[1], op[2])


def enc_op(op):
    if op[0] == "set":
        return "s:%d:%s:%d" % (op[1], "~" if op[2] is None else op[2], op[3])
    if op[0] == "rm":
        return "r:%d:%s" % (op[1], "~" if op[2] is None else op[2])
    if op[0] == "add":
        return "a:%d:%d" % (op[1], op[2])
    return "p:%d" % op[1]


def res_tok(flag):
    return flag if flag == "E:Loop" else ("T" if flag else "F")


def res_str(flag, st):
    if flag == "E:Loop":
        return flag
    return "%s %s" % ("T" if flag else "F", enc_store(st))


def gen_op(rng, st):
    n = rng.randrange(len(NAMES))
    k = rng.random()
    if k < 0.5:
        kind = "set"
    elif k < 0.8:
        kind = "rm"
    else:
        kind = "add"
    if kind == "add":
        return ("add", n, rng.randint(1, 5))
    # expected value: None / the current value of the name that will be compared / something else / ZERO
    target = n
    if kind == "set":
        seen = []
        cur = n
        for _ in range(7):
            v = spec_read(st, cur)
            if v is None or v[0] != "R" or cur in seen:
                break
            seen.append(cur)
            cur = v[1]
        target = cur
    cur = spec_current(st, target)
    r = rng.random()
    if r < 0.2:
        old = None
    elif r < 0.6:
        old = cur[1] if cur[0] == "S" else rng.randint(0, 4)
    elif r < 0.7:
        old = 0
    else:
        old = rng.randint(0, 5)
    if kind == "set":
        return ("set", n, old, rng.randint(1, 5))
    return ("rm", n, old)


def nontrivial(op, st):
    if op[0] == "pack":
        return False
    v = st["loose"].get(op[1])
    plain = v is not None and v[0] == "S" and op[1] not in st["packed"]
    return not (op[0] == "set" and op[2] is None and plain)


# --------------------------------------------------------------------------


def check_one(ctx, st0, ops, kind="memory", preload=True, pending=None):
    """run `ops` in sequence on one container; oracle per op; queue T2 lines"""
    from breezy.git.transportgit import TransportRefsContainer
    t = make_transport(st0, kind)
    refs = TransportRefsContainer(t)
    if preload:
        refs.get_packed_refs()
    cache = preload
    for k, op in enumerate(ops):
        before = observe(t)
        real = NIDX.get(container_realname(refs, NAMES[op[1]]), op[1]) if op[0] in ("set", "add") else op[1]
        flag = run_op(refs, op)
        after = observe(t)
        case = dict(kind="op", transport=kind, preload=preload, store=js_store(st0), ops=[list(o) for o in ops], at=k)
        ctx.case(["op", kind, preload, enc_store(before), list(op)], nontrivial=nontrivial(op, before))
        ctx.count("op:%s:%s" % (op[0], flag))
        # ---- oracle
        if op[0] in ("set", "rm"):
            exp_flag, exp_st = apply_spec(before, op, real)
            if flag != exp_flag or after != exp_st:
                fam = None
                cur = spec_current(before, real)
                if op[2] is not None and cur != ("S", op[2]) and flag is True:
                    fam = "cas-old-value-ignored"
                elif (op[0] == "rm" and flag is True and exp_flag is True and not cache and op[1] in before["packed"]
                      and after["packed"].get(op[1]) == before["packed"][op[1]] and op[1] not in after["loose"]):
                    fam = "remove-packed-cache-unloaded"
                what = ("%s(%s, old=%s%s) on %s: returned %s, store afterwards %s; the ref compared (%s) held %s "
                        "-> expected %s, %s" % (
                            {"set": "set_if_equals", "rm": "remove_if_equals"}[op[0]], NAMES[op[1]].decode(),
                            "None" if op[2] is None else "sha%d" % op[2], ", new=sha%d" % op[3] if op[0] == "set" else "",
                            enc_store(before), flag, enc_store(after), NAMES[real].decode(), cur, exp_flag,
                            enc_store(exp_st)))
                ctx.violation(case, what, family=fam)
        else:
            # add_if_new never overwrites an existing ref
            for i in set(before["loose"]) | set(before["packed"]):
                if spec_read(before, i) is not None and spec_read(after, i) != spec_read(before, i) and flag != "E:Loop":
                    ctx.violation(case, "add_if_new(%s) changed existing ref %s: %s -> %s" % (
                        NAMES[op[1]].decode(), NAMES[i].decode(), spec_read(before, i), spec_read(after, i)))
            if flag is True and spec_read(before, real) is not None:
                ctx.violation(case, "add_if_new(%s) returned True although %s existed" % (NAMES[op[1]].decode(), NAMES[real].decode()))
            if flag is False and after != before:
                ctx.violation(case, "add_if_new returned False but changed the store")
        # ---- T2
        if pending is not None:
            pending.append((case, op, before, res_str(flag, after), cache))
        cache = cache or refs._packed_refs is not None


def flush(ctx, pending):
    lines = []
    for case, op, before, impl, cache in pending:
        lines.append(op_line(op, before))
        lines.append(op_line(op, before, legacy=True, cache=cache) if op[0] != "add" else op_line(op, before))
    rep = ctx.model(lines)
    for i, (case, op, before, impl, cache) in enumerate(pending):
        model, legacy = rep[2 * i], rep[2 * i + 1]
        ctx.traces += 1
        if impl == model:
            continue
        if impl == legacy and op[0] in ("set", "rm"):
            ctx.count("op:legacy-behaviour")     # reported by the oracle with its family
        else:
            ctx.mismatch(case, impl, model, line=lines[2 * i])
    del pending[:]


# --------------------------------------------------------------------------
# two containers on one transport, one after the other (stale packed-refs caches)


OP_NAME = {"set": "set_if_equals", "rm": "remove_if_equals", "add": "add_if_new", "pack": "pack-refs"}


def gen_cc_act(rng, before, caches):
    """one (who, op) given the store on the transport and both containers' caches"""
    who = 1 if rng.random() < 0.5 else 0
    r = rng.random()
    if r < 0.12:
        cands = [i for i, v in before["loose"].items() if v[0] == "S" and i != 0]
        return who, ("pack", rng.choice(cands) if cands and rng.random() < 0.9 else rng.randrange(1, len(NAMES)))
    op = gen_op(rng, before)
    c = caches[who]
    if c and rng.random() < 0.45:
        # aim at what the acting container remembers: a name in its cache, expecting the remembered value
        n = rng.choice(sorted(c))
        if isinstance(n, int):
            k = rng.random()
            if k < 0.45:
                op = ("set", n, c[n], rng.randint(1, 5))
            elif k < 0.85:
                op = ("rm", n, c[n])
            else:
                op = ("add", n, rng.randint(1, 5))
    elif rng.random() < 0.15:
        # ... or at a name that is packed now
        cands = sorted(before["packed"])
        if cands:
            n = rng.choice(cands)
            op = rng.choice([("rm", n, None), ("rm", n, before["packed"][n]), ("add", n, rng.randint(1, 5)),
                             ("set", n, before["packed"][n], rng.randint(1, 5))])
    return who, op


def check_cc(ctx, st0, acts, variant, kind="memory", preload=(False, False), pending=None, seqs=None, gen=None, nacts=0):
    """two containers A (0) and B (1) on one transport; `acts` = [(who, op)] or generated one at a time by `gen`"""
    from breezy.git.transportgit import TransportRefsContainer
    t = make_transport(st0, kind)
    conts = [TransportRefsContainer(t), TransportRefsContainer(t)]
    for c, p in zip(conts, preload):
        if p:
            c.get_packed_refs()
    c0 = [obs_cache(c) for c in conts]
    acts = list(acts)
    results = []
    k = 0
    while True:
        before = observe(t)
        if gen is not None and k >= len(acts) and k < nacts:
            acts.append(gen(before, [obs_cache(c) for c in conts]))
        if k >= len(acts):
            break
        who, op = acts[k]
        refs = conts[who]
        cb = obs_cache(refs)
        case = dict(kind="cc", transport=kind, preload=list(preload), store=js_store(st0),
                    acts=[[w, list(o)] for w, o in acts[:k + 1]], at=k)
        stale = cb is not None and cb != before["packed"]
        ctx.case(["cc", enc_cache(cb), enc_store(before), list(op)], nontrivial=stale or nontrivial(op, before))
        if op[0] == "pack":
            flag = do_pack(t, op[1])
            ff = None
        else:
            ff = fresh_follow(t, op[1]) if op[0] in ("set", "add") else None
            sf = spec_follow(before, op[1]) if ff is not None else None
            if ff is not None and ff != (("loop",) if sf is None else (sf[0][-1], sf[1])):
                ctx.mismatch(case, str(ff), str(sf), tie="oracle follow (python spec_follow vs dulwich follow of a fresh container)")
            flag = run_op(refs, op)
        after = observe(t)
        ca = obs_cache(refs)
        ctx.count("cc:%s:%s:%s" % (op[0], res_tok(flag), "stale" if stale else ("unloaded" if cb is None else "coherent")))
        # ---- oracle
        if op[0] != "pack":
            real = None
            if op[0] == "set":
                real = op[1] if ff == ("loop",) else ff[0]
            exp_flag, exp_st = apply_spec(before, op, real=real, ff=ff)
            bad = flag != exp_flag or after != exp_st
            if op[0] == "add" and flag == "E:Loop" and exp_flag == "E:Loop":
                bad = after != before
            if bad:
                fam = None
                cmpn = real if op[0] == "set" else op[1]
                cur = spec_current(before, cmpn)
                if stale:
                    # is the cache the reason?  the same operation by a container with a fresh view of an identical transport
                    t2 = make_transport(before, "memory")
                    flag2 = run_op(TransportRefsContainer(t2), op)
                    if (flag2, observe(t2)) == (exp_flag, exp_st):
                        fam = "cas-stale-packed-cache"
                if fam is None and op[0] in ("set", "rm") and op[2] is not None and cur != ("S", op[2]) and flag is True:
                    fam = "cas-old-value-ignored"
                what = ("container %s (packed-refs cache %s; packed-refs file %s) %s(%s%s%s) on %s: returned %s, store "
                        "afterwards %s; on the transport the ref compared (%s) held %s -> expected %s, %s" % (
                            "AB"[who], enc_cache(cb), enc_store(before).split(" ")[1], OP_NAME[op[0]], NAMES[op[1]].decode(),
                            "" if op[0] == "add" else ", old=%s" % ("None" if op[2] is None else "sha%d" % op[2]),
                            ", new=sha%d" % op[-1] if op[0] in ("set", "add") else "",
                            enc_store(before), flag, enc_store(after), NAMES[cmpn].decode() if isinstance(cmpn, int) else cmpn,
                            cur, exp_flag, enc_store(exp_st)))
                ctx.violation(case, what, family=fam)
        # ---- T2 (one step, with the cache observed before it)
        if pending is not None:
            pending.append((case, "%s %s %s %s" % ("step" + variant, enc_cache(cb), enc_store(before), enc_op(op)),
                            "%s %s %s" % (res_tok(flag), enc_store(after), enc_cache(ca))))
        results.append(res_tok(flag))
        k += 1
    if seqs is not None and acts:
        final = observe(t)
        case = dict(kind="cc", transport=kind, preload=list(preload), store=js_store(st0),
                    acts=[[w, list(o)] for w, o in acts], at=len(acts) - 1)
        seqs.append((case, "runcc %s %s %s %s %s" % (variant, enc_cache(c0[0]), enc_cache(c0[1]), enc_store(st0),
                                                    ";".join("AB"[w] + enc_op(o) for w, o in acts)),
                     "%s %s %s %s" % (",".join(results), enc_store(final), enc_cache(obs_cache(conts[0])),
                                      enc_cache(obs_cache(conts[1])))))
    return acts


def flush_cc(ctx, pending, seqs):
    if pending:
        ctx.diff([p[0] for p in pending], [p[1] for p in pending], [p[2] for p in pending], tie="T2 container step")
    if seqs:
        rep = ctx.model([q[1] for q in seqs])
        for (case, line, impl), m in zip(seqs, rep):
            ctx.traces += 1
            f = m.split(" ")
            # reply: results loose packed cacheA cacheB coh=X spec-results spec-loose spec-packed
            if len(f) != 9:
                ctx.mismatch(case, impl, m, line=line, tie="T2 container sequence")
                continue
            run_part, coh, spec_part = " ".join(f[:5]), f[5], " ".join(f[6:])
            ctx.count("cc-seq:" + coh)
            if impl != run_part:
                ctx.mismatch(case, impl, run_part, line=line, tie="T2 container sequence")
            elif coh == "coh=T" and " ".join(impl.split(" ")[:3]) != spec_part:
                # hypothesis of containers_coherent_is_cas_partial holds, yet the real run is not the specification
                ctx.mismatch(case, impl, spec_part, line=line, tie="hypothesis coh=T but the real run differs from runSpec")
    del pending[:]
    del seqs[:]


def probe_reload():
    """does a conditional update re-read packed-refs (cache dropped first)?  selects the model variant"""
    from breezy.git.transportgit import TransportRefsContainer
    t = make_transport(dict(loose={}, packed={1: 1}))
    a = TransportRefsContainer(t)
    a.get_packed_refs()
    t.delete("packed-refs")
    return a.set_if_equals(NAMES[1], sha(1), sha(2)) is False


def sec_cc(ctx, variant):
    pending, seqs = [], []
    # exhaustive small family: one name; A has (not) loaded packed-refs; someone else acts; A acts on what it remembers
    inits = [dict(loose={}, packed={1: 1}), dict(loose={1: ("S", 1)}, packed={}),
             dict(loose={1: ("S", 1)}, packed={1: 3}), dict(loose={}, packed={}),
             dict(loose={0: ("R", 1)}, packed={1: 1})]
    firsts = [None, (1, ("rm", 1, None)), (1, ("set", 1, None, 2)), (1, ("pack", 1)), (1, ("add", 1, 2))]
    seconds = ([("set", n, o, 4) for n in (1, 0) for o in (0, 1, 2, 3)] + [("rm", 1, o) for o in (0, 1, 2, 3)]
               + [("add", 1, 4), ("add", 0, 4)])
    for st, pre, first, second in itertools.product(inits, (True, False), firsts, seconds):
        if second[1] == 0 and 0 not in st["loose"]:
            continue
        acts = ([first] if first else []) + [(0, second)]
        check_cc(ctx, st, acts, variant, preload=(pre, False), pending=pending, seqs=seqs)
    ctx.extra["exhaustive_two_container_single_name"] = True
    for i in range(ctx.pick(500, 6000)):
        st = gen_store(ctx.rng)
        pre = (ctx.rng.random() < 0.7, ctx.rng.random() < 0.5)
        kind = "disk" if i % 25 == 0 else "memory"
        check_cc(ctx, st, [], variant, kind=kind, preload=pre, pending=pending, seqs=seqs,
                 gen=lambda before, caches: gen_cc_act(ctx.rng, before, caches), nacts=ctx.rng.randint(2, 6))
    flush_cc(ctx, pending, seqs)


# --------------------------------------------------------------------------
# two updaters


class HookTransport:
    """delegates to a transport; the first mutation (put_bytes / delete / open_write_stream) first reports to
    the scheduler and waits"""

    def __init__(self, inner, gate):
        self._inner = inner
        self._gate = gate

    def __getattr__(self, name):
        return getattr(self._inner, name)

    def _stop(self, what, relpath):
        g = self._gate
        if g.passed:
            return
        g.passed = True
        g.intent = (what, relpath)
        g.reached.set()
        if not g.go.wait(THREAD_WAIT):
            g.timed_out = True

    def put_bytes(self, relpath, *a, **kw):
        self._stop("will", relpath)
        return self._inner.put_bytes(relpath, *a, **kw)

    def delete(self, relpath, *a, **kw):
        self._stop("del", relpath)
        return self._inner.delete(relpath, *a, **kw)

    def open_write_stream(self, relpath, *a, **kw):
        self._stop("del", relpath)
        return self._inner.open_write_stream(relpath, *a, **kw)


class Gate:
    def __init__(self):
        self.reached = threading.Event()
        self.go = threading.Event()
        self.passed = False
        self.intent = None
        self.timed_out = False


UKIND = {"set": 0, "add": 1, "rm": 2}


def qidx():
    from breezy import urlutils
    return {urlutils.quote_from_bytes(n): i for i, n in enumerate(NAMES)}


class Updater:
    """upd = (kind, name, old, new)"""

    def __init__(self, t, upd):
        from breezy.git.transportgit import TransportRefsContainer
        self.gate = Gate()
        self.refs = TransportRefsContainer(HookTransport(t, self.gate))
        self.upd = upd
        self.result = None
        self.thread = None
        self.finished = threading.Event()

    def _run(self):
        try:
            k, n, o, w = self.upd
            if k == "set":
                self.result = self.refs.set_if_equals(NAMES[n], sha(o), sha(w))
            elif k == "add":
                self.result = self.refs.add_if_new(NAMES[n], sha(w))
            else:
                self.result = self.refs.remove_if_equals(NAMES[n], sha(o))
        except Exception as e:  # noqa: BLE001
            self.result = "E:" + type(e).__name__
        finally:
            self.finished.set()
            self.gate.reached.set()

    def step(self):
        if self.thread is None:
            self.thread = threading.Thread(target=self._run, daemon=True)
            self.thread.start()
            if not self.gate.reached.wait(THREAD_WAIT):      # read phase done: at the first mutation, or finished
                raise env.InfraError("C37: updater thread did not reach its write phase within %d s" % THREAD_WAIT)
        elif not self.finished.is_set():
            self.gate.go.set()
            if not self.finished.wait(THREAD_WAIT):
                raise env.InfraError("C37: updater thread did not finish within %d s" % THREAD_WAIT)

    def phase(self):
        if self.thread is None:
            return "idle"
        if self.finished.is_set():
            if self.result == "E:SymrefLoop":
                return "raised"
            if self.result is True or self.result is False:
                return "done:" + ("T" if self.result else "F")
            return str(self.result)
        what, relpath = self.gate.intent
        return "%s:%s" % (what, qidx().get(relpath, relpath))

    def close(self):
        self.gate.go.set()
        if self.thread is not None:
            self.thread.join(THREAD_WAIT)
            if self.thread.is_alive() or self.gate.timed_out:
                raise env.InfraError("C37: updater thread timed out")


SCHEDULES = ["AABB", "ABAB", "ABBA", "BAAB", "BABA", "BBAA"]
MIXED = ("ABAB", "ABBA", "BAAB", "BABA")


def norm_upd(u):
    u = tuple(u)
    return ("set",) + u if len(u) == 3 else u


def run_schedule(st0, a, b, sched):
    """-> (phase A, phase B, store) as they are when the schedule's moves are done (pending writes not yet
    released), then releases everything"""
    t = make_transport(st0)
    ua, ub = Updater(t, norm_upd(a)), Updater(t, norm_upd(b))
    try:
        for c in sched:
            (ua if c == "A" else ub).step()
        out = (ua.phase(), ub.phase(), observe(t))
    finally:
        ua.close()
        ub.close()
    return out


def seq_outcome(st0, first, second):
    """CAS specification applied sequentially (oracle) -> (phase first, phase second, store)"""
    def one(st, u):
        k, n, o, w = u
        op = ("set", n, o, w) if k == "set" else (("add", n, w) if k == "add" else ("rm", n, o))
        f, s2 = apply_spec(st, op)
        return ("raised" if f == "E:Loop" else "done:" + ("T" if f else "F")), s2
    f1, s1 = one(st0, norm_upd(first))
    f2, s2 = one(s1, norm_upd(second))
    return f1, f2, s2


def race_family(st0, a, b, sched, pa, pb, final):
    """the committed known finding is exactly the lost update: both updaters read the initial store and decided
    to write, then both writes were applied on top of each other; anything else is not that family"""
    if sorted(sched[:2]) != ["A", "B"] or pa != "done:T" or pb != "done:T":
        return None
    second = sorted("AB", key=lambda c: sched.index(c, sched.index(c) + 1))      # order of the write phases
    st = dict(loose=dict(st0["loose"]), packed=dict(st0["packed"]))
    for c in second:
        k, n, _o, w = norm_upd(a if c == "A" else b)
        if k == "rm":
            st["loose"].pop(n, None)
            st["packed"].pop(n, None)
        else:
            f = spec_follow(st0, n)
            st["loose"][n if f is None else f[0][-1]] = ("S", w)
    return "cas-race-unlocked" if st == final else None


def upd_field(u):
    u = norm_upd(u)
    return "%d,%d,%d,%d" % (UKIND[u[0]], u[1], u[2], u[3])


def gen_upd_pair(rng, st0):
    if rng.random() < 0.2:
        # both updaters rewrite packed-refs: removals of two different packed-only refs (the write phase of the
        # second must start from the packed-refs file the first one left, not from what it read earlier)
        p1, p2 = rng.sample(range(1, len(NAMES)), 2)
        for p in (p1, p2):
            st0["loose"].pop(p, None)
            st0["packed"][p] = rng.randint(1, 4)
        mk = lambda p: ("rm", p, st0["packed"][p] if rng.random() < 0.85 else 0, 0)   # noqa: E731
        return mk(p1), mk(p2)
    n = rng.randrange(len(NAMES))
    f = spec_follow(st0, n)
    if f is None or len(f[0]) > 5:
        return None            # no symref loops / over-long chains here (follow must succeed for the oracle's real name)
    real = f[0][-1]
    curv = spec_current(st0, real)

    def mk(name):
        k = rng.random()
        kind = "set" if k < 0.5 else ("add" if k < 0.72 else "rm")
        cmpv = spec_current(st0, name) if kind == "rm" else curv
        old = cmpv[1] if cmpv[0] == "S" and rng.random() < 0.8 else rng.randint(0, 4)
        return (kind, name, 0 if kind == "add" else old, rng.randint(5, 6))
    a = mk(n)
    if rng.random() < 0.25:
        # an unrelated ref, preferably a packed one (both write phases rewrite packed-refs)
        others = [i for i in sorted(st0["packed"]) if i not in (n, real)] or [i for i in range(1, len(NAMES)) if i not in (n, real)]
        b = mk(rng.choice(others))
    else:
        b = mk(rng.choice([n, n, real]))
    if b[3] == a[3]:
        b = b[:3] + (11 - a[3],)
    return a, b


def sec_sched(ctx, legacy_f2):
    cases, lines, impls = [], [], []
    done = 0
    for _ in range(ctx.pick(60, 600)):
        if done >= ctx.pick(30, 300):
            break
        st0 = gen_store(ctx.rng)
        pair = gen_upd_pair(ctx.rng, st0)
        if pair is None:
            continue
        done += 1
        a, b = pair
        extra = ["".join(ctx.rng.choice("AB") for _ in range(ctx.rng.randint(1, 6))) for _ in range(2)]
        for sched in SCHEDULES + extra:
            pa, pb, final = run_schedule(st0, a, b, sched)
            case = dict(kind="sched", store=js_store(st0), a=list(a), b=list(b), sched=sched)
            ctx.case(["sched", enc_store(st0), list(a), list(b), sched])
            complete = sched.count("A") >= 2 and sched.count("B") >= 2
            ctx.count("sched:%s:%s+%s:%s/%s" % (sched if sched in SCHEDULES else "other", a[0], b[0], pa.split(":")[0] + pa[-1:],
                                                 pb.split(":")[0] + pb[-1:]))
            if complete:
                o1 = seq_outcome(st0, a, b)
                o2 = seq_outcome(st0, b, a)
                o2 = (o2[1], o2[0], o2[2])
                if (pa, pb, final) not in (o1, o2):
                    fam = "cas-old-value-ignored" if legacy_f2 else race_family(st0, a, b, sched, pa, pb, final)
                    ctx.violation(case, "two updaters %s and %s of %s, schedule %s (read/write phases): results %s/%s, final "
                                  "store %s; no sequential order of the two operations gives this (A;B -> %s, B;A -> %s)"
                                  % (a, b, enc_store(st0), sched, pa, pb, enc_store(final), o1[:2], o2[:2]), family=fam)
            if not legacy_f2:
                cases.append(case)
                lines.append("sched %s %s %s %s" % (enc_store(st0), upd_field(a), upd_field(b), sched))
                impls.append("%s %s %s" % (enc_store(final), pa, pb))
    if lines:
        ctx.diff(cases, lines, impls, tie="T2 schedules")


# --------------------------------------------------------------------------
# fetch_refs: the caller of the conditional updates during push


FETCH_NAMES = [b"refs/heads/master", b"HEAD"]
FAKE = b"5" * 40


def fetch_source():
    """a bzr branch with three revisions (built once per run)"""
    global _SRC
    try:
        return _SRC
    except NameError:
        pass
    wt = env.make_tree("2a")
    revs = []
    for i in range(3):
        with open(os.path.join(wt.basedir, "f"), "a") as f:
            f.write("%d\n" % i)
        if i == 0:
            wt.add(["f"])
        revs.append(wt.commit("r%d" % i, committer="a <a@b>", timestamp=1000000000 + i, timezone=0))
    _SRC = (wt, revs)
    return _SRC


def fetch_case(ctx, name, initial, conc):
    """fetch_refs updating `name` to a new revision while another container changes refs/heads/master between
    fetch_refs' snapshot of the refs and its conditional update (the update_refs callback runs exactly there)"""
    from breezy.controldir import ControlDir, format_registry
    from breezy.repository import InterRepository
    from breezy.git.transportgit import TransportRefsContainer
    from dromedary.errors import NoSuchFile
    wt, revs = fetch_source()
    master = b"refs/heads/master"
    gd = env.fresh_dir("git")
    ControlDir.create(gd, format=format_registry.make_controldir("git-bare"))
    repo = ControlDir.open(gd).open_repository()
    ct = repo._git._controltransport
    case = dict(kind="fetch", name=name.decode(), initial=initial, conc=conc)
    ctx.case(["fetch", name.decode(), initial, conc])
    seen = {}

    def packed_bytes():
        try:
            return ct.get_bytes("packed-refs")
        except NoSuchFile:
            return None

    with wt.branch.repository.lock_read():
        inter = InterRepository.get(wt.branch.repository, repo)
        if initial != "absent":
            inter.fetch_refs(lambda old: {master: (None, revs[0])}, lossy=True)
            if initial == "packed":
                v = TransportRefsContainer(ct).read_ref(master)
                ct.put_bytes("packed-refs", b"# pack-refs with: peeled\n" + v + b" " + master + b"\n")
                ct.delete("refs/heads/master")
                repo = ControlDir.open(gd).open_repository()
                inter = InterRepository.get(wt.branch.repository, repo)

        def update_refs(old_refs):
            other = TransportRefsContainer(ct)
            seen["old"] = other.get(name)
            seen["packed0"] = packed_bytes()
            if conc == "set":
                other.set_if_equals(master, None, FAKE)
            elif conc == "rm":
                other.remove_if_equals(master, None)
            elif conc == "add":
                other.add_if_new(master, FAKE)
            seen["mid"] = TransportRefsContainer(ct).get(name)
            seen["packed1"] = packed_bytes()
            seen["loose"] = TransportRefsContainer(ct).read_loose_ref(master)
            return {name: (None, revs[1])}
        err = None
        result = {}
        try:
            _revidmap, _old, result = inter.fetch_refs(update_refs, lossy=True)
        except Exception as e:  # noqa: BLE001
            import errno
            if isinstance(e, MemoryError) or (isinstance(e, OSError) and e.errno in (
                    errno.ENOSPC, errno.EDQUOT, errno.EMFILE, errno.ENFILE, errno.ENOMEM)):
                raise env.InfraError("C37: %s during fetch_refs: %s" % (type(e).__name__, e))
            err = type(e).__name__
    actual = TransportRefsContainer(ct).get(name)
    claimed = result.get(name, (None, None))[0] if err is None else None
    changed = seen["mid"] != seen["old"]
    ctx.count("fetch:%s:%s:%s:%s" % (name.decode().split("/")[-1], initial, conc,
                                    "raised" if err else ("updated" if actual == claimed else "claimed-only")))
    show = lambda v: None if v is None else v.decode()  # noqa: E731
    desc = ("fetch_refs({%s: new revision}) into a bare git repository, %s %s before, another container does %s on it "
            "between fetch_refs' snapshot and its conditional update (value then %s): %s; the ref afterwards resolves to %s"
            % (name.decode(), master.decode(), initial, {"none": "nothing", "set": "set", "rm": "remove", "add": "add_if_new"}[conc],
               show(seen["mid"]), "raised " + err if err else "reported %s" % show(claimed), show(actual)))
    if err is None and claimed is not None and claimed != actual:
        ctx.violation(case, desc + " -> success reported for an update that did not happen",
                      family="fetch-refs-claims-failed-update" if changed else "fetch-refs-symref-update-dropped")
    if changed and actual != seen["mid"]:
        stale = seen["packed0"] != seen["packed1"] and seen["loose"] is None
        ctx.violation(case, desc + " -> the ref no longer held the value fetch_refs had seen, yet it was overwritten",
                      family="cas-stale-packed-cache" if stale else None)
    if not changed and (err is not None or actual is None or claimed != actual or actual == seen["old"]):
        if not (err is None and claimed is not None and claimed != actual):      # already reported above
            ctx.violation(case, desc + " -> nobody interfered, the update must happen and be reported")
    return dict(err=err, claimed=show(claimed), actual=show(actual), old=show(seen["old"]), mid=show(seen["mid"]))


def sec_fetch(ctx):
    for name, initial, conc in itertools.product(FETCH_NAMES, ("absent", "loose", "packed"), ("none", "set", "rm", "add")):
        fetch_case(ctx, name, initial, conc)
    ctx.extra["fetch_refs_cases"] = "2 names x 3 initial states x 4 concurrent actions, all enumerated"


# --------------------------------------------------------------------------


def probe_legacy():
    """does the code as found ignore the expected value? (decides how schedule results are classified)"""
    from breezy.git.transportgit import TransportRefsContainer
    t = make_transport(dict(loose={1: ("S", 1)}, packed={}))
    return TransportRefsContainer(t).set_if_equals(NAMES[1], sha(2), sha(3)) is True


def follow_check(ctx):
    """RefsContainer.follow vs the model (chain of names, end value, SymrefLoop)"""
    from breezy.git.transportgit import TransportRefsContainer
    from dulwich.refs import SymrefLoop
    cases, lines, impls = [], [], []
    for _ in range(ctx.pick(300, 3000)):
        st = gen_store(ctx.rng)
        refs = TransportRefsContainer(make_transport(st))
        n = ctx.rng.randrange(len(NAMES))
        try:
            names, v = refs.follow(NAMES[n])
            out = "%s %s" % (",".join(str(NIDX[x]) for x in names) or "-", "~" if v is None else unsha(v))
        except SymrefLoop:
            out = "E:Loop"
        cases.append(dict(kind="follow", store=js_store(st), n=n))
        lines.append("follow %s %d" % (enc_store(st), n))
        impls.append(out)
        ctx.count("follow:" + ("loop" if out == "E:Loop" else "len%d" % len(out.split(" ")[0].split(","))))
    ctx.diff(cases, lines, impls, tie="T2 follow")


def corpus_cases():
    d = os.path.join(env.VERIF, "corpus", "C37")
    out = []
    if os.path.isdir(d):
        import json
        for fn in sorted(os.listdir(d)):
            if fn.endswith(".json"):
                out.append(json.load(open(os.path.join(d, fn))))
    return out


def run(ctx):
    pending = []
    for rec in corpus_cases():
        replay(ctx, rec["case"])
        ctx.count("corpus")
    legacy_f2 = probe_legacy()
    ctx.extra["expected_value_ignored_by_code"] = legacy_f2
    reloaded = probe_reload()
    ctx.extra["packed_cache_reloaded"] = reloaded
    follow_check(ctx)
    # exhaustive: one name, every kind of current value x every expected value x both conditional ops
    for lo, pk, oldv in itertools.product([None, ("S", 1), ("S", 2), ("R", 2), ("R", 1)], [None, 1, 3],
                                          [None, 0, 1, 2, 3]):
        for tgt_lo, tgt_pk in itertools.product([None, ("S", 1), ("S", 3)], [None, 1]):
            st = dict(loose={}, packed={})
            if lo is not None:
                st["loose"][1] = lo
            if pk is not None:
                st["packed"][1] = pk
            if tgt_lo is not None:
                st["loose"][2] = tgt_lo
            if tgt_pk is not None:
                st["packed"][2] = tgt_pk
            for op in (("set", 1, oldv, 4), ("rm", 1, oldv), ("add", 1, 4)):
                if op[0] == "add" and oldv is not None:
                    continue
                check_one(ctx, st, [op], pending=pending)
    ctx.extra["exhaustive_single_name"] = True
    for _ in range(ctx.pick(1500, 15000)):
        st = gen_store(ctx.rng)
        check_one(ctx, st, [gen_op(ctx.rng, st)], pending=pending)
    for _ in range(ctx.pick(300, 3000)):       # sequences on one container (repeated CAS)
        st = gen_store(ctx.rng)
        ops, cur = [], st
        for _ in range(ctx.rng.randint(2, 4)):
            ops.append(gen_op(ctx.rng, cur))
        check_one(ctx, st, ops, pending=pending)
    for _ in range(ctx.pick(300, 3000)):       # container whose packed-refs cache has not been loaded
        st = gen_store(ctx.rng)
        check_one(ctx, st, [gen_op(ctx.rng, st)], preload=False, pending=pending)
    for _ in range(ctx.pick(100, 1500)):       # local disk transport
        st = gen_store(ctx.rng)
        check_one(ctx, st, [gen_op(ctx.rng, st)], kind="disk", pending=pending)
    flush(ctx, pending)
    if not legacy_f2:
        sec_cc(ctx, "f" if reloaded else "c")
    sec_sched(ctx, legacy_f2)
    sec_fetch(ctx)


def replay(ctx, case):
    n0 = len(ctx.violations)
    if case["kind"] == "op":
        st = unjs_store(case["store"])
        ops = [tuple(o) for o in case["ops"]]
        pending = []
        check_one(ctx, st, ops, kind=case.get("transport", "memory"), preload=case.get("preload", True), pending=pending)
        impl = [p[3] for p in pending]
        model = ctx.model([op_line(p[1], p[2]) for p in pending])
        return dict(case=case, names={i: n.decode() for i, n in enumerate(NAMES)}, impl=impl, model=model,
                    oracle_failures=[v["what"] for v in ctx.violations[n0:]])
    if case["kind"] == "cc":
        st = unjs_store(case["store"])
        acts = [(w, tuple(o)) for w, o in case["acts"]]
        variant = "f" if probe_reload() else "c"
        pending, seqs = [], []
        check_cc(ctx, st, acts, variant, kind=case.get("transport", "memory"), preload=tuple(case.get("preload", (False, False))),
                 pending=pending, seqs=seqs)
        model = ctx.model([p[1] for p in pending] + [q[1] for q in seqs])
        return dict(case=case, names={i: n.decode() for i, n in enumerate(NAMES)},
                    impl=[p[2] for p in pending] + [q[2] for q in seqs], model=model,
                    oracle_failures=[v["what"] for v in ctx.violations[n0:]])
    if case["kind"] == "fetch":
        r = fetch_case(ctx, case["name"].encode(), case["initial"], case["conc"])
        return dict(case=case, impl=r, model="(oracle only)", oracle_failures=[v["what"] for v in ctx.violations[n0:]])
    if case["kind"] == "sched":
        st = unjs_store(case["store"])
        a, b = norm_upd(case["a"]), norm_upd(case["b"])
        sched = case["sched"]
        pa, pb, final = run_schedule(st, a, b, sched)
        if sched.count("A") >= 2 and sched.count("B") >= 2:
            o1 = seq_outcome(st, a, b)
            o2 = seq_outcome(st, b, a)
            o2 = (o2[1], o2[0], o2[2])
            if (pa, pb, final) not in (o1, o2):
                ctx.violation(case, "schedule %s: results %s/%s final %s is not the outcome of a sequential order"
                              % (sched, pa, pb, enc_store(final)),
                              family="cas-old-value-ignored" if probe_legacy() else race_family(st, a, b, sched, pa, pb, final))
        m = ctx.model(["sched %s %s %s %s" % (enc_store(st), upd_field(a), upd_field(b), sched)])[0]
        return dict(case=case, impl="%s %s %s" % (enc_store(final), pa, pb), model=m,
                    oracle_failures=[v["what"] for v in ctx.violations[n0:]])
    if case["kind"] == "follow":
        from breezy.git.transportgit import TransportRefsContainer
        st = unjs_store(case["store"])
        refs = TransportRefsContainer(make_transport(st))
        try:
            names, v = refs.follow(NAMES[case["n"]])
            out = "%s %s" % (",".join(str(NIDX[x]) for x in names) or "-", "~" if v is None else unsha(v))
        except Exception as e:  # noqa: BLE001
            out = "E:" + type(e).__name__
        return dict(case=case, impl=out, model=ctx.model(["follow %s %d" % (enc_store(st), case["n"])])[0])
    raise ValueError(case["kind"])
