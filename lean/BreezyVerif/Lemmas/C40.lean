import BreezyVerif.Model.C40
import BreezyVerif.Lemmas.C03
/-
C40 — helper lemmas: line splitting, the payload sections, the normaliser,
membership in the bundled revision set, lookups after an install.
-/
namespace BreezyVerif.C40

open BreezyVerif.C03 (Rev FileId TextKey Entry RevRec Inv Repo get hasRev graph reach anc invOrEmpty
  Exclusion streamEntries testament agree agreeOn complete)
open BreezyVerif.C33 (Reach)

/-! ### lines -/

theorem joinLines_splitLines (b : Bytes) : joinLines (splitLines b) = b := by
  fun_induction splitLines b <;> simp_all [joinLines]

theorem joinLines_splitNL (b : Bytes) : joinLines (splitNL b) = b := by
  induction b with
  | nil => rfl
  | cons x rest ih =>
    unfold splitNL
    by_cases hx : x = 10
    · simp [hx, joinLines] at ih ⊢; exact ih
    · simp only [hx, if_false]
      cases hs : splitNL rest with
      | nil => simp [hs, joinLines] at ih ⊢; simp [ih]
      | cons l ls => simp [hs, joinLines] at ih ⊢; simp [ih]

theorem span_all {α : Type} (p : α → Bool) (l₁ : List α) (x : α) (l₂ : List α)
    (h1 : ∀ a ∈ l₁, p a = true) (hx : p x = false) :
    (l₁ ++ x :: l₂).takeWhile p = l₁ ∧ (l₁ ++ x :: l₂).dropWhile p = x :: l₂ := by
  induction l₁ with
  | nil => simp [List.takeWhile, List.dropWhile, hx]
  | cons a as ih =>
    have ha := h1 a (by simp)
    have := ih (fun b hb => h1 b (by simp [hb]))
    simp [List.takeWhile, List.dropWhile, ha, this]

theorem span_all_nil {α : Type} (p : α → Bool) (l₁ : List α) (h1 : ∀ a ∈ l₁, p a = true) :
    l₁.takeWhile p = l₁ ∧ l₁.dropWhile p = [] := by
  induction l₁ with
  | nil => simp
  | cons a as ih =>
    have ha := h1 a (by simp)
    have := ih (fun b hb => h1 b (by simp [hb]))
    simp [List.takeWhile, List.dropWhile, ha, this]

/-- no line of the patch looks like the bundle marker -/
def noMarker (ls : List Line) : Bool := ls.all fun l => !isPrefix beginBundlePrefix l

/-- the payload lines `to_lines` produces from a given line splitting -/
def payload (split : Bytes → List Line) (p b : Option Bytes) : List Line :=
  (match p with | none => [] | some p => beginPatch :: split p) ++
  (match b with | none => [] | some b => beginBundle :: split b)

theorem sections_payload (split : Bytes → List Line) (hj : ∀ x, joinLines (split x) = x)
    (p b : Option Bytes) (hp : ∀ x, p = some x → noMarker (split x) = true) :
    sections (payload split p b) = .ok (p, b) := by
  have hbp : isPrefix beginPatchPrefix beginPatch = true := by decide
  have hbb : isPrefix beginBundlePrefix beginBundle = true := by decide
  have hpb : isPrefix beginPatchPrefix beginBundle = false := by decide
  cases p with
  | none =>
    cases b with
    | none => rfl
    | some b => simp [payload, sections, hpb, hbb, hj]
  | some p =>
    have hall : ∀ a ∈ split p, (fun l => !isPrefix beginBundlePrefix l) a = true := by
      have := hp p rfl
      unfold noMarker at this
      exact fun a ha => List.all_eq_true.mp this a ha
    cases b with
    | none =>
      obtain ⟨h1, h2⟩ := span_all_nil _ (split p) hall
      simp [payload, sections, hbp, h1, h2, hj]
    | some b =>
      obtain ⟨h1, h2⟩ := span_all (fun l => !isPrefix beginBundlePrefix l) (split p) beginBundle (split b) hall
        (by simp [hbb])
      simp only [payload, sections, hbp, if_true, List.cons_append, List.nil_append]
      rw [h1, h2]
      simp [hj]

/-! ### reading the serialised bytes back line by line -/

/-- a single physical line: non-empty, ends with `\n`, no other `\n` -/
def isLine (l : Line) : Bool :=
  match l.reverse with
  | [] => false
  | x :: rest => x == 10 && !rest.contains 10

/-- empty, or ends with a newline -/
def endsNL (b : Bytes) : Bool := b.isEmpty || b.getLast? == some 10

theorem splitNL_cons_ne (x : UInt8) (rest : Bytes) (hx : x ≠ 10) :
    splitNL (x :: rest) = match splitNL rest with | [] => [[x]] | l :: ls => (x :: l) :: ls := by
  cases h : splitNL rest <;> simp [splitNL, hx, h]

theorem splitNL_ne_nil (b : Bytes) (h : b ≠ []) : splitNL b ≠ [] := by
  cases b with
  | nil => exact absurd rfl h
  | cons x rest =>
    by_cases hx : x = 10
    · rw [splitNL]; simp [hx]
    · rw [splitNL_cons_ne x rest hx]; cases splitNL rest <;> simp

theorem splitNL_append (a b : Bytes) (ha : endsNL a = true) : splitNL (a ++ b) = splitNL a ++ splitNL b := by
  induction a with
  | nil => simp [splitNL]
  | cons x rest ih =>
    by_cases hx : x = 10
    · subst hx
      have hr : endsNL rest = true := by
        cases rest with
        | nil => rfl
        | cons y ys => simpa [endsNL] using ha
      rw [List.cons_append, splitNL, splitNL]
      simp [ih hr]
    · have hrne : rest ≠ [] := by
        intro h; subst h; simp [endsNL] at ha; exact hx ha
      have hr : endsNL rest = true := by
        cases rest with
        | nil => exact absurd rfl hrne
        | cons y ys => simpa [endsNL] using ha
      rw [List.cons_append, splitNL_cons_ne _ _ hx, splitNL_cons_ne _ _ hx, ih hr]
      have := splitNL_ne_nil rest hrne
      cases hs : splitNL rest with
      | nil => exact absurd hs this
      | cons l ls => simp

theorem splitNL_noNL (l : Bytes) (h : l.contains 10 = false) (hne : l ≠ []) : splitNL l = [l] := by
  induction l with
  | nil => exact absurd rfl hne
  | cons x rest ih =>
    have hx : x ≠ 10 := by intro e; subst e; simp at h
    have hr : rest.contains 10 = false := by
      simp only [List.contains_cons, Bool.or_eq_false_iff] at h; exact h.2
    rw [splitNL_cons_ne _ _ hx]
    cases rest with
    | nil => simp [splitNL]
    | cons y ys => rw [ih hr (by simp)]

theorem splitNL_isLine (l : Line) (h : isLine l = true) : splitNL l = [l] := by
  unfold isLine at h
  cases hrev : l.reverse with
  | nil => simp [hrev] at h
  | cons x rest =>
    simp only [hrev, Bool.and_eq_true, beq_iff_eq, Bool.not_eq_true'] at h
    obtain ⟨hx, hrest⟩ := h
    subst hx
    have hl : l = rest.reverse ++ [10] := by
      have := congrArg List.reverse hrev
      simpa using this
    have hc : (rest.reverse).contains 10 = false := by
      simpa using hrest
    rw [hl]
    by_cases hr : rest.reverse = []
    · rw [hr]; simp [splitNL]
    · have hend : endsNL ([10] : Bytes) = true := by decide
      -- split after the body
      have key : ∀ (a : Bytes), a.contains 10 = false → a ≠ [] → splitNL (a ++ [10]) = [a ++ [10]] := by
        intro a
        induction a with
        | nil => intro _ h; exact absurd rfl h
        | cons y ys ih =>
          intro hc _
          have hy : y ≠ 10 := by intro e; subst e; simp at hc
          have hys : ys.contains 10 = false := by
            simp only [List.contains_cons, Bool.or_eq_false_iff] at hc; exact hc.2
          rw [List.cons_append, splitNL_cons_ne _ _ hy]
          cases ys with
          | nil => simp [splitNL]
          | cons z zs => rw [ih hys (by simp)]
      exact key _ hc hr

theorem isLine_endsNL {l : Line} (h : isLine l = true) : endsNL l = true := by
  unfold isLine at h
  cases hrev : l.reverse with
  | nil => simp [hrev] at h
  | cons x rest =>
    simp only [hrev, Bool.and_eq_true, beq_iff_eq] at h
    have hl : l = rest.reverse ++ [x] := by
      have := congrArg List.reverse hrev
      simpa using this
    rw [hl, h.1]
    simp [endsNL]

theorem endsNL_append {a b : Bytes} (ha : endsNL a = true) (hb : endsNL b = true) : endsNL (a ++ b) = true := by
  cases b with
  | nil => simpa using ha
  | cons y ys =>
    unfold endsNL at hb ⊢
    simp only [List.isEmpty_cons, Bool.false_or, beq_iff_eq] at hb
    have : (a ++ y :: ys).getLast? = some 10 := by
      rw [List.getLast?_append, hb]; rfl
    simp [this]

theorem joinLines_endsNL (ls : List Line) (h : ∀ l ∈ ls, endsNL l = true) : endsNL (joinLines ls) = true := by
  induction ls with
  | nil => rfl
  | cons l rest ih =>
    have := ih (fun x hx => h x (by simp [hx]))
    simp only [joinLines, List.flatten_cons] at this ⊢
    exact endsNL_append (h l (by simp)) this

/-- re-reading a list of physical lines -/
theorem splitNL_joinLines (ls : List Line) (h : ∀ l ∈ ls, isLine l = true) : splitNL (joinLines ls) = ls := by
  induction ls with
  | nil => rfl
  | cons l rest ih =>
    simp only [joinLines, List.flatten_cons]
    rw [splitNL_append _ _ (isLine_endsNL (h l (by simp))), splitNL_isLine l (h l (by simp))]
    have := ih (fun x hx => h x (by simp [hx]))
    simp only [joinLines] at this
    simp [this]

/-! ### the normaliser -/

def nonws (b : Bytes) : Bytes := b.filter fun x => !isWs x

theorem nonws_normEol (b : Bytes) : nonws (normEol b) = nonws b := by
  fun_induction normEol b <;> simp_all [nonws, isWs, List.filter_cons]

theorem nonws_stripTrail (b : Bytes) : nonws (stripTrail b) = nonws b := by
  induction b with
  | nil => rfl
  | cons x rest ih =>
    unfold stripTrail
    split
    · rename_i h
      rw [ih, h.1]; simp [nonws, isWs]
    · simp only [nonws, List.filter_cons] at ih ⊢; rw [ih]

theorem nonws_norm (b : Bytes) : nonws (norm b) = nonws b := by
  unfold norm; rw [nonws_stripTrail, nonws_normEol]

/-! ### the bundled revision set -/

theorem mem_bundleRevs (src : Repo) (base target k : Rev) :
    k ∈ bundleRevs src base target ↔ k ∈ anc src target ∧ ¬ Reach (graph src) [] [base] k := by
  unfold bundleRevs
  simp [List.mem_filter, C03.mem_reach]

theorem mem_targetLast (m : List Rev) (t k : Rev) : k ∈ targetLast m t ↔ k ∈ m := by
  unfold targetLast
  split
  · rename_i ht
    simp only [List.mem_append, List.mem_filter, List.mem_singleton, decide_eq_true_eq]
    constructor
    · rintro (⟨h, _⟩ | h)
      · exact h
      · exact h ▸ ht
    · intro h
      by_cases hk : k = t
      · exact Or.inr hk
      · exact Or.inl ⟨h, hk⟩
  · rfl

/-- every source-present ancestor of the target is bundled or an ancestor of the base -/
theorem anc_cases (src : Repo) (base target k : Rev) (hk : k ∈ anc src target) :
    k ∈ bundleRevs src base target ∨ k ∈ anc src base := by
  by_cases hr : Reach (graph src) [] [base] k
  · exact Or.inr ((C03.mem_anc src base k).mpr ⟨hr, ((C03.mem_anc src target k).mp hk).2⟩)
  · exact Or.inl ((mem_bundleRevs src base target k).mpr ⟨hk, hr⟩)

/-! ### lookups after a v4 install -/

theorem writeV4_ok {sel : TextSel} {src : Repo} {base target : Rev} {b : Bundle}
    (h : writeV4 sel src base target = .ok b) :
    writable sel src (bundleRevs src base target) = true ∧
    b.revs = (targetLast (bundleRevs src base target) target).filterMap (fun k => (get src.revs k).map fun v => (k, v)) ∧
    b.invs = (bundleRevs src base target).filterMap (fun k => (get src.invs k).map fun v => (k, v)) ∧
    b.texts = (bundleEntries sel src (bundleRevs src base target)).filterMap
      (fun e => (get src.texts e.key).map fun c => (e.key, c)) := by
  unfold writeV4 at h
  simp only at h
  split at h
  · cases h
  · rename_i hw
    simp only [Bool.not_eq_true, Bool.not_eq_false'] at hw
    injection h with h
    subst h
    simp_all

theorem bundle_revs_get {sel : TextSel} {src : Repo} {base target : Rev} {b : Bundle}
    (h : writeV4 sel src base target = .ok b) (k : Rev) :
    get b.revs k = if k ∈ bundleRevs src base target then get src.revs k else none := by
  rw [(writeV4_ok h).2.1, C03.get_filterMap_keyed]
  simp only [mem_targetLast]

theorem bundle_invs_get {sel : TextSel} {src : Repo} {base target : Rev} {b : Bundle}
    (h : writeV4 sel src base target = .ok b) (k : Rev) :
    get b.invs k = if k ∈ bundleRevs src base target then get src.invs k else none := by
  rw [(writeV4_ok h).2.2.1, C03.get_filterMap_keyed]

theorem bundle_texts_get {sel : TextSel} {src : Repo} {base target : Rev} {b : Bundle}
    (h : writeV4 sel src base target = .ok b) (k : TextKey) :
    get b.texts k = if k ∈ (bundleEntries sel src (bundleRevs src base target)).map Entry.key
      then get src.texts k else none := by
  rw [(writeV4_ok h).2.2.2]
  have := C03.get_filterMap_keyOf Entry.key (get src.texts) (bundleEntries sel src (bundleRevs src base target)) k
  by_cases hk : k ∈ (bundleEntries sel src (bundleRevs src base target)).map Entry.key
  · rw [if_pos hk] at this ⊢; exact this
  · rw [if_neg hk] at this ⊢; exact this

theorem install_get {α β : Type} [DecidableEq α] (a b : List (α × β)) (k : α) :
    get (a ++ b) k = match get a k with | some v => some v | none => get b k := by
  cases h : get a k with
  | some v => exact C03.get_append_some h
  | none => exact C03.get_append_none h


/-! ### the 0.9 records -/

theorem mapM_ok {α β ε : Type} (f : α → Except ε β) :
    ∀ (l : List α) (rs : List β), l.mapM f = .ok rs →
      (∀ a ∈ l, ∃ r ∈ rs, f a = .ok r) ∧ (∀ r ∈ rs, ∃ a ∈ l, f a = .ok r) := by
  intro l
  induction l with
  | nil =>
    intro rs h
    simp only [List.mapM_nil, pure, Except.pure] at h
    injection h with h; subst h
    simp
  | cons a as ih =>
    intro rs h
    rw [List.mapM_cons] at h
    cases hfa : f a with
    | error e => simp [hfa, bind, Except.bind] at h
    | ok r =>
      cases hrest : as.mapM f with
      | error e => simp [hfa, hrest, bind, Except.bind] at h
      | ok rs' =>
        simp only [hfa, hrest, bind, Except.bind, pure, Except.pure] at h
        injection h with h; subst h
        obtain ⟨h1, h2⟩ := ih rs' hrest
        constructor
        · intro x hx
          rcases List.mem_cons.mp hx with hx | hx
          · subst hx; exact ⟨r, by simp, hfa⟩
          · obtain ⟨r', hr', hf⟩ := h1 x hx
            exact ⟨r', by simp [hr'], hf⟩
        · intro r' hr'
          rcases List.mem_cons.mp hr' with hr' | hr'
          · subst hr'; exact ⟨a, by simp, hfa⟩
          · obtain ⟨x, hx, hf⟩ := h2 r' hr'
            exact ⟨x, by simp [hx], hf⟩

theorem rec09_ok {src : Repo} {base target k : Rev} {r : Rec09} (h : rec09 src base target k = .ok r) :
    r.rev = k ∧ get src.revs k = some r.info ∧ get src.invs k = some r.inv ∧
    r.texts = (r.inv.filterMap fun e => (get src.texts e.key).map fun c => (e.key, c)) ∧
    (∀ e ∈ r.inv, (get src.texts e.key).isSome = true) := by
  unfold rec09 at h
  split at h
  · rename_i rr inv hr hi
    simp only at h
    split at h
    · cases h
    · split at h
      · cases h
      · rename_i hall
        injection h with h
        subst h
        simp only [Bool.not_eq_true, Bool.not_eq_false'] at hall
        exact ⟨rfl, hr, hi, rfl, fun e he => List.all_eq_true.mp hall e he⟩
  · cases h

theorem get_map_unique {ρ κ β : Type} [DecidableEq κ] (key : ρ → κ) (val : ρ → β) (l : List ρ) (k : κ) (v : β)
    (hex : ∃ r ∈ l, key r = k) (hall : ∀ r ∈ l, key r = k → val r = v) :
    get (l.map fun r => (key r, val r)) k = some v := by
  induction l with
  | nil => obtain ⟨r, hr, _⟩ := hex; cases hr
  | cons x xs ih =>
    simp only [List.map_cons, C03.get]
    split
    · rename_i hk; rw [hall x (by simp) hk]
    · rename_i hk
      obtain ⟨r, hr, hrk⟩ := hex
      rcases List.mem_cons.mp hr with h | h
      · subst h; exact absurd hrk hk
      · exact ih ⟨r, h, hrk⟩ (fun r' hr' => hall r' (by simp [hr']))

theorem get_map_none {ρ κ β : Type} [DecidableEq κ] (key : ρ → κ) (val : ρ → β) (l : List ρ) (k : κ)
    (hno : ∀ r ∈ l, key r ≠ k) : get (l.map fun r => (key r, val r)) k = none := by
  induction l with
  | nil => rfl
  | cons x xs ih =>
    simp only [List.map_cons, C03.get]
    split
    · rename_i hk; exact absurd hk (hno x (by simp))
    · exact ih (fun r hr => hno r (by simp [hr]))

theorem install09_ok {rs : List Rec09} {tgt t' : Repo} (h : install09 rs tgt = .ok t') :
    deps09ok rs tgt = true ∧
    t' = { revs := tgt.revs ++ (rs.filter fun r => !hasRev tgt r.rev).map (fun r => (r.rev, r.info))
           invs := tgt.invs ++ (rs.filter fun r => !hasRev tgt r.rev).map (fun r => (r.rev, r.inv))
           texts := tgt.texts ++ (rs.filter fun r => !hasRev tgt r.rev).flatMap (·.texts) } := by
  unfold install09 at h
  split at h
  · cases h
  · rename_i hd
    simp only [Bool.not_eq_true, Bool.not_eq_false'] at hd
    injection h with h
    exact ⟨hd, h.symm⟩

end BreezyVerif.C40
