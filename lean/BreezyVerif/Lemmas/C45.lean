import BreezyVerif.Model.C45
/-! C45 — converter-level lemmas. -/
namespace BreezyVerif.C45

@[simp] theorem nul_eq_lf : (NUL = LF) = False := by decide
@[simp] theorem nul_eq_cr : (NUL = CR) = False := by decide
@[simp] theorem lf_eq_nul : (LF = NUL) = False := by decide
@[simp] theorem cr_eq_nul : (CR = NUL) = False := by decide
@[simp] theorem cr_eq_lf : (CR = LF) = False := by decide
@[simp] theorem lf_eq_cr : (LF = CR) = False := by decide

/-! ### neither converter creates or removes a NUL -/

theorem hasNul_cons (a : UInt8) (c : Bytes) :
    hasNul (a :: c) = (decide (a = NUL) || hasNul c) := by
  simp [hasNul, eq_comm]

theorem hasNul_replCrlf (c : Bytes) : hasNul (replCrlf c) = hasNul c := by
  fun_induction replCrlf c with
  | case1 => rfl
  | case2 a => rfl
  | case3 a b rest h ih =>
    obtain ⟨rfl, rfl⟩ := h
    simp [hasNul_cons, ih]
  | case4 a b rest h ih =>
    rw [hasNul_cons, ih, hasNul_cons a]

theorem hasNul_subUnixNl (p : Bool) (c : Bytes) : hasNul (subUnixNl p c) = hasNul c := by
  induction c generalizing p with
  | nil => rfl
  | cons b rest ih =>
    simp only [subUnixNl]
    split
    · rename_i h
      obtain ⟨rfl, _⟩ := h
      simp [hasNul_cons, ih]
    · simp [hasNul_cons, ih]

theorem hasNul_replCrlfGuarded (p : Bool) (c : Bytes) : hasNul (replCrlfGuarded p c) = hasNul c := by
  fun_induction replCrlfGuarded p c with
  | case1 => rfl
  | case2 => rfl
  | case3 p a b rest h ih =>
    obtain ⟨rfl, rfl, _⟩ := h
    simp [hasNul_cons, ih]
  | case4 p a b rest h ih =>
    rw [hasNul_cons, ih, hasNul_cons a]

/-! ### canonical forms -/

theorem noCrLf_head (p : Bool) (b : UInt8) (rest : Bytes) :
    noCrLf p (b :: rest) = (!(p && b = LF) && noCrLf false (b :: rest)) := by
  simp [noCrLf]

theorem length_replCrlf_le (c : Bytes) : (replCrlf c).length ≤ c.length := by
  fun_induction replCrlf c with
  | case1 => simp
  | case2 a => simp
  | case3 a b rest h ih => simp; omega
  | case4 a b rest h ih => simp at ih ⊢; omega

/-- `content.replace(b"\r\n", b"\n") == content` exactly when there is no `\r\n` -/
theorem replCrlf_fix_iff (c : Bytes) : replCrlf c = c ↔ noCrLf false c = true := by
  fun_induction replCrlf c with
  | case1 => simp [noCrLf]
  | case2 a => simp [noCrLf]
  | case3 a b rest h ih =>
    obtain ⟨rfl, rfl⟩ := h
    constructor
    · intro e
      have := congrArg List.length e
      have h2 := length_replCrlf_le rest
      simp at this; omega
    · intro e; simp [noCrLf] at e
  | case4 a b rest h ih =>
    simp only [List.cons.injEq, true_and]
    rw [ih]
    have : noCrLf false (a :: b :: rest) = noCrLf (a = CR) (b :: rest) := by simp [noCrLf]
    rw [this, noCrLf_head (decide (a = CR))]
    have h' : (decide (a = CR) && decide (b = LF)) = false := by
      simpa using h
    rw [h']; simp

/-- `_UNIX_NL_RE.sub(b"\r\n", content) == content` exactly when every `\n` follows a `\r` -/
theorem subUnixNl_fix_iff (p : Bool) (c : Bytes) : subUnixNl p c = c ↔ allCrLf p c = true := by
  induction c generalizing p with
  | nil => simp [subUnixNl, allCrLf]
  | cons b rest ih =>
    simp only [subUnixNl, allCrLf]
    split
    · rename_i h
      obtain ⟨rfl, rfl⟩ := h
      simp
    · rename_i h
      simp only [List.cons.injEq, true_and, ih, Bool.and_eq_true, Bool.or_eq_true, bne_iff_ne]
      constructor
      · intro e
        refine ⟨?_, e⟩
        by_cases hb : b = LF
        · right; cases p <;> simp_all
        · left; exact hb
      · intro e; exact e.2

/-! ### the round trips -/

theorem replCrlf_cons_of_not (a : UInt8) (y : Bytes) (h : ¬ (a = CR ∧ y.head? = some LF)) :
    replCrlf (a :: y) = a :: replCrlf y := by
  cases y with
  | nil => simp [replCrlf]
  | cons b rest =>
    simp only [replCrlf]
    rw [if_neg]
    simpa using h

theorem head_subUnixNl_true (rest : Bytes) :
    (subUnixNl true rest).head? = some LF → rest.head? = some LF := by
  cases rest with
  | nil => simp [subUnixNl]
  | cons b r =>
    simp only [subUnixNl]
    simp only [Bool.true_eq_false, and_false, if_false, List.head?_cons]
    exact id

/-- LF in the repository, CRLF in the tree: `toLf ∘ toCrlf` on canonical text -/
theorem replCrlf_subUnixNl (p : Bool) (c : Bytes) (h : noCrLf p c = true) :
    replCrlf (subUnixNl p c) = c := by
  induction c generalizing p with
  | nil => simp [subUnixNl, replCrlf]
  | cons b rest ih =>
    simp only [noCrLf, Bool.and_eq_true, Bool.not_eq_true'] at h
    obtain ⟨h1, h2⟩ := h
    simp only [subUnixNl]
    split
    · rename_i hb
      obtain ⟨rfl, rfl⟩ := hb
      have h2' : noCrLf false rest = true := by
        simpa using h2
      simp [replCrlf, ih false h2']
    · rename_i hb
      rw [replCrlf_cons_of_not, ih _ h2]
      intro ⟨hcr, hh⟩
      subst hcr
      simp only [decide_true] at hh h2
      have := head_subUnixNl_true rest hh
      cases rest with
      | nil => simp at this
      | cons x r =>
        simp only [List.head?_cons, Option.some.injEq] at this
        subst this
        simp [noCrLf] at h2

/-- CRLF in the repository, LF in the tree: `toCrlf ∘ toLf` on canonical text
gives the text back exactly when it has no `\r\r\n` -/
theorem subUnixNl_replCrlf_iff (p : Bool) (c : Bytes) (h : allCrLf p c = true) :
    subUnixNl p (replCrlf c) = c ↔ noCrCrLf p c = true := by
  fun_induction replCrlf c generalizing p with
  | case1 => simp [subUnixNl, noCrCrLf]
  | case2 a =>
    simp only [allCrLf, Bool.and_true, Bool.or_eq_true, bne_iff_ne] at h
    simp only [subUnixNl, noCrCrLf, iff_true]
    rw [if_neg]
    intro ⟨h1, h2⟩
    subst h2
    rcases h with h | h
    · exact h h1
    · simp at h
  | case3 a b rest hab ih =>
    obtain ⟨rfl, rfl⟩ := hab
    have hrest : allCrLf false rest = true := by
      simp only [allCrLf, Bool.and_eq_true] at h
      have := h.2.2
      simpa using this
    cases p with
    | true =>
      -- `\r` `\r\n`: the written `\n` follows a `\r` and is left alone
      simp only [subUnixNl, noCrCrLf]
      simp
    | false =>
      simp only [subUnixNl, and_self, if_true, List.cons.injEq, true_and, noCrCrLf]
      rw [ih false hrest]
      cases rest with
      | nil => simp [noCrCrLf]
      | cons x r => simp [noCrCrLf]
  | case4 a b rest hab ih =>
    simp only [allCrLf, Bool.and_eq_true, Bool.or_eq_true, bne_iff_ne] at h
    obtain ⟨h1, h2, h3⟩ := h
    have htail : allCrLf (a = CR) (b :: rest) = true := by
      simp only [allCrLf, Bool.and_eq_true, Bool.or_eq_true, bne_iff_ne]
      exact ⟨h2, h3⟩
    have hnot : ¬ (a = LF ∧ p = false) := by
      intro ⟨e1, e2⟩
      rcases h1 with h1 | h1
      · exact h1 e1
      · simp [e2] at h1
    simp only [subUnixNl, if_neg hnot, List.cons.injEq, true_and, noCrCrLf]
    rw [ih _ htail]
    have : (p && decide (a = CR) && decide (b = LF)) = false := by
      have : (decide (a = CR) && decide (b = LF)) = false := by simpa using hab
      cases p <;> simp_all
    simp [this]

/-- the proposed guarded writer always round-trips canonical CRLF text -/
theorem subUnixNl_replCrlfGuarded (p : Bool) (c : Bytes) (h : allCrLf p c = true) :
    subUnixNl p (replCrlfGuarded p c) = c := by
  fun_induction replCrlfGuarded p c with
  | case1 => simp [subUnixNl]
  | case2 p a =>
    simp only [allCrLf, Bool.and_true, Bool.or_eq_true, bne_iff_ne] at h
    simp only [subUnixNl]
    rw [if_neg]
    intro ⟨h1, h2⟩
    subst h2
    rcases h with h | h
    · exact h h1
    · simp at h
  | case3 p a b rest hab ih =>
    obtain ⟨rfl, rfl, rfl⟩ := hab
    have hrest : allCrLf false rest = true := by
      simp only [allCrLf, Bool.and_eq_true] at h
      have := h.2.2
      simpa using this
    simp [subUnixNl, ih hrest]
  | case4 p a b rest hab ih =>
    simp only [allCrLf, Bool.and_eq_true, Bool.or_eq_true, bne_iff_ne] at h
    obtain ⟨h1, h2, h3⟩ := h
    have htail : allCrLf (a = CR) (b :: rest) = true := by
      simp only [allCrLf, Bool.and_eq_true, Bool.or_eq_true, bne_iff_ne]
      exact ⟨h2, h3⟩
    have hnot : ¬ (a = LF ∧ p = false) := by
      intro ⟨e1, e2⟩
      rcases h1 with h1 | h1
      · exact h1 e1
      · simp [e2] at h1
    simp only [subUnixNl, if_neg hnot, List.cons.injEq, true_and]
    exact ih htail

end BreezyVerif.C45

namespace BreezyVerif.C45

/-- the output of the CRLF substitution is canonical for it -/
theorem allCrLf_subUnixNl (p : Bool) (d : Bytes) : allCrLf p (subUnixNl p d) = true := by
  induction d generalizing p with
  | nil => rfl
  | cons b rest ih =>
    simp only [subUnixNl]
    split
    · rename_i h
      obtain ⟨rfl, rfl⟩ := h
      have := ih false
      simp [allCrLf, this]
    · rename_i h
      simp only [allCrLf, ih, Bool.and_true, Bool.or_eq_true, bne_iff_ne]
      by_cases hb : b = LF
      · right; cases p <;> simp_all
      · left; exact hb

end BreezyVerif.C45

namespace BreezyVerif.C45

theorem noCrCrLf_tail_after_crlf (p : Bool) (rest : Bytes)
    (h : noCrCrLf p (CR :: LF :: rest) = true) : p = false ∧ noCrCrLf false rest = true := by
  cases rest with
  | nil => cases p <;> simp_all [noCrCrLf]
  | cons x r => cases p <;> simp_all [noCrCrLf]

/-- canonical CRLF text without `\r\r\n` is written by the LF writer without any `\r\n` -/
theorem noCrLf_replCrlf (p : Bool) (c : Bytes) (h1 : allCrLf p c = true) (h2 : noCrCrLf p c = true)
    (h3 : ¬ (p = true ∧ c.head? = some LF)) : noCrLf p (replCrlf c) = true := by
  fun_induction replCrlf c generalizing p with
  | case1 => rfl
  | case2 a =>
    simp only [noCrLf, Bool.and_true, Bool.not_eq_true', Bool.and_eq_false_iff,
      decide_eq_false_iff_not]
    by_cases hp : p = true
    · right; intro e; exact h3 ⟨hp, by simp [e]⟩
    · left; simpa using hp
  | case3 a b rest hab ih =>
    obtain ⟨rfl, rfl⟩ := hab
    obtain ⟨hp, hr⟩ := noCrCrLf_tail_after_crlf p rest h2
    subst hp
    have hrest : allCrLf false rest = true := by
      simp only [allCrLf, Bool.and_eq_true] at h1
      have := h1.2.2
      simpa using this
    have := ih false hrest hr (by simp)
    simp [noCrLf, this]
  | case4 a b rest hab ih =>
    simp only [allCrLf, Bool.and_eq_true, Bool.or_eq_true, bne_iff_ne] at h1
    obtain ⟨h11, h12, h13⟩ := h1
    have htail : allCrLf (a = CR) (b :: rest) = true := by
      simp only [allCrLf, Bool.and_eq_true, Bool.or_eq_true, bne_iff_ne]
      exact ⟨h12, h13⟩
    have h2' : noCrCrLf (a = CR) (b :: rest) = true := by
      simp only [noCrCrLf, Bool.and_eq_true] at h2
      exact h2.2
    have := ih _ htail h2' (by
      intro ⟨e1, e2⟩
      apply hab
      simp only [List.head?_cons, Option.some.injEq] at e2
      exact ⟨by simpa using e1, e2⟩)
    simp only [noCrLf, this, Bool.and_true, Bool.not_eq_true', Bool.and_eq_false_iff,
      decide_eq_false_iff_not]
    by_cases hp : p = true
    · right; intro e; exact h3 ⟨hp, by simp [e]⟩
    · left; simpa using hp

end BreezyVerif.C45

namespace BreezyVerif.C45

/-! ### a file is empty iff its conversion is empty (`FilteredStat`'s
`st_size or base.st_size` therefore never picks the wrong size) -/

theorem replCrlf_eq_nil (c : Bytes) : replCrlf c = [] ↔ c = [] := by
  fun_induction replCrlf c <;> simp

theorem subUnixNl_eq_nil (p : Bool) (c : Bytes) : subUnixNl p c = [] ↔ c = [] := by
  cases c with
  | nil => simp [subUnixNl]
  | cons b rest =>
    simp only [subUnixNl]
    split <;> simp

theorem toLf_eq_nil (c : Bytes) : toLf c = [] ↔ c = [] := by
  unfold toLf
  split
  · exact Iff.rfl
  · exact replCrlf_eq_nil c

theorem toCrlf_eq_nil (c : Bytes) : toCrlf c = [] ↔ c = [] := by
  unfold toCrlf
  split
  · exact Iff.rfl
  · exact subUnixNl_eq_nil false c

/-- with no filter, or filters without readers, nothing is converted -/
theorem readIn_nil (d : Bytes) : readIn [] d = d := by
  simp [readIn, inputFile]

/-- the provider hashes exactly the read-converted file (the `if filters:`
short cut is the identity conversion) -/
theorem hashedText_eq (stack : List Filter) (d : Bytes) : hashedText stack d = readIn stack d := by
  unfold hashedText
  split
  · rename_i h
    have : stack = [] := by simpa using h
    subst this
    exact (readIn_nil d).symm
  · rfl

end BreezyVerif.C45
