import BreezyVerif.Common
/-
C35 — git object export of a revision tree and import of git trees.

Model of

* `breezy/git/mapping.py`: `object_mode`, `entry_mode`, `mode_kind`,
  `mode_is_executable`, the "unusual mode" rule of `fetch.import_git_tree`
  (a child mode outside the five default modes is remembered per path) and of
  `object_store.directory_to_tree` (`unusual_modes[path]` overrides
  `entry_mode`);
* `breezy/git/object_store.py`: `directory_to_tree` (banned names, children
  without a sha dropped, an empty non-root directory is not represented) and
  the from-scratch conversion of a whole tree (`_tree_to_objects` with no
  parents and an empty cache): `expNode` / `expRoot`;
* the incremental conversion (`_tree_to_objects` with parent trees and a warm
  SHA map, `BazaarObjectStore._revision_to_objects`): changed leaves get a
  fresh blob id or — when an identical text is found under the same file id in
  a non-base parent — the cached id of that parent's text; unchanged leaves
  get `idmap.lookup_blob_id(file_id, revision)` with a fall-back to a fresh
  blob; directories are always recomputed; a revision without any change
  re-uses the root tree id recorded for its first parent: `incrRoot`;
* `breezy/git/fetch.py`: `import_git_tree` / `import_git_blob` seen as a
  function from an object store and a root tree id to a tree
  (`impRoot`, with fuel because the store is an arbitrary map).

The hash is a parameter `H : GObj → Sha` everywhere; the driver instantiates
it with git's real object id (`gitId` = SHA-1 of header + serialisation, both
defined below), the theorems hold for every `H` (the import round trip needs
that no two different objects of the store share an id).
-/
namespace BreezyVerif.C35

abbrev Sha := Bytes
abbrev Path := List Bytes

/-- `(file_id, revision)`: the key of a text in the bzr repository and of a
blob in the SHA map -/
structure Key where
  fid : Bytes
  rev : Bytes
  deriving DecidableEq, Repr

mutual
/-- a versioned tree; `um` is the entry of `unusual_modes` for the path, if any -/
inductive Node where
  | file (k : Key) (content : Bytes) (exec : Bool) (um : Option Nat)
  | link (k : Key) (target : Bytes) (um : Option Nat)
  | dir (cs : Children)
inductive Children where
  | nil
  | cons (name : Bytes) (n : Node) (rest : Children)
end

structure Entry where
  mode : Nat
  name : Bytes
  sha : Sha
  deriving DecidableEq, Repr

inductive GObj where
  | blob (data : Bytes)
  | tree (es : List Entry)
  deriving DecidableEq, Repr

/-! ### modes -/

def S_IFDIR : Nat := 0o040000
def S_IFREG : Nat := 0o100000
def S_IFLNK : Nat := 0o120000
def S_IFGITLINK : Nat := 0o160000
def sIFMT (m : Nat) : Nat := m &&& 0o170000
def sISDIR (m : Nat) : Bool := sIFMT m == S_IFDIR
def sISLNK (m : Nat) : Bool := sIFMT m == S_IFLNK
def sISGITLINK (m : Nat) : Bool := sIFMT m == S_IFGITLINK

inductive Kind where
  | file | directory | symlink | treeref
  deriving DecidableEq, Repr

/-- `mapping.object_mode(kind, executable)` -/
def objectMode : Kind → Bool → Nat
  | .directory, _ => S_IFDIR
  | .symlink, x => if x then S_IFLNK ||| 0o111 else S_IFLNK
  | .file, x => if x then S_IFREG ||| 0o644 ||| 0o111 else S_IFREG ||| 0o644
  | .treeref, _ => S_IFGITLINK

/-- `mapping.mode_kind(mode)`; `none` = AssertionError -/
def modeKind (m : Nat) : Option Kind :=
  let ek := m &&& 0o700000
  if ek = 0 then some .directory
  else if ek = 0o100000 then
    let fk := m &&& 0o70000
    if fk = 0 then some .file
    else if fk = 0o20000 then some .symlink
    else if fk = 0o60000 then some .treeref
    else none
  else none

/-- `mapping.mode_is_executable` -/
def modeIsExecutable (m : Nat) : Bool := (m &&& 0o111) != 0

/-- how `fetch.import_git_tree` dispatches on a child mode -/
inductive ImportClass where
  | tree | gitlink | symlink | file
  deriving DecidableEq, Repr

def importClass (m : Nat) : ImportClass :=
  if sISDIR m then .tree else if sISGITLINK m then .gitlink
  else if sISLNK m then .symlink else .file

def ImportClass.kind : ImportClass → Kind
  | .tree => .directory | .gitlink => .treeref | .symlink => .symlink | .file => .file

/-- the five modes `import_git_tree` does not record as unusual -/
def defaultModes : List Nat := [S_IFDIR, 0o100644, S_IFLNK, 0o100755, S_IFGITLINK]

/-- `child_modes[child_path] = child_mode` iff the mode is not a default one -/
def unusualOf (m : Nat) : Option Nat := if defaultModes.contains m then none else some m

/-- `executable` of the inventory entry `import_git_blob` creates (`None` → not
executable for symlinks; directories and tree references have no flag) -/
def importExec (m : Nat) : Bool :=
  match importClass m with
  | .file => modeIsExecutable m
  | _ => false

/-- the mode `directory_to_tree` writes: `unusual_modes[path]` or `entry_mode(ie)` -/
def exportMode (um : Option Nat) (k : Kind) (x : Bool) : Nat :=
  match um with
  | some m => m
  | none => objectMode k x

/-! ### ordering of tree entries (dulwich `key_entry`: directories sort as `name/`) -/

def bytesLe : Bytes → Bytes → Bool
  | [], _ => true
  | _ :: _, [] => false
  | a :: as, b :: bs => if a < b then true else if b < a then false else bytesLe as bs

def insertBy {α : Type} (key : α → Bytes) (x : α) : List α → List α
  | [] => [x]
  | y :: ys => if bytesLe (key x) (key y) then x :: y :: ys else y :: insertBy key x ys

def sortBy {α : Type} (key : α → Bytes) : List α → List α
  | [] => []
  | x :: xs => insertBy key x (sortBy key xs)

def gitKey (name : Bytes) (isDir : Bool) : Bytes := if isDir then name ++ [0x2f] else name

def Entry.key (e : Entry) : Bytes := gitKey e.name (sISDIR e.mode)

def sortEntries (es : List Entry) : List Entry := sortBy Entry.key es

/-! ### from-scratch export -/

/-- `BANNED_FILENAMES` -/
def banned (name : Bytes) : Bool := name == [0x2e, 0x67, 0x69, 0x74]

mutual
/-- mode and id of the git object for a node; `none` = not represented (a
directory without represented children) -/
def expNode (H : GObj → Sha) : Node → Option (Nat × Sha)
  | .file _ c x um => some (exportMode um .file x, H (.blob c))
  | .link _ t um => some (exportMode um .symlink false, H (.blob t))
  | .dir cs =>
    let es := expChildren H cs
    if es.isEmpty then none else some (S_IFDIR, H (.tree (sortEntries es)))
/-- `directory_to_tree`: the entries of the tree object before sorting -/
def expChildren (H : GObj → Sha) : Children → List Entry
  | .nil => []
  | .cons name n rest =>
    if banned name then expChildren H rest else
    match expNode H n with
    | some (m, s) => ⟨m, name, s⟩ :: expChildren H rest
    | none => expChildren H rest
end

/-- the root tree object (the only directory that may be empty) -/
def rootObj (H : GObj → Sha) (t : Children) : GObj := .tree (sortEntries (expChildren H t))

def expRoot (H : GObj → Sha) (t : Children) : Sha := H (rootObj H t)

mutual
/-- every object of the export of a node, keyed by id -/
def objsNode (H : GObj → Sha) : Node → List (Sha × GObj)
  | .file _ c _ _ => [(H (.blob c), .blob c)]
  | .link _ t _ => [(H (.blob t), .blob t)]
  | .dir cs =>
    let es := expChildren H cs
    (if es.isEmpty then [] else [(H (.tree (sortEntries es)), GObj.tree (sortEntries es))]) ++ objsChildren H cs
def objsChildren (H : GObj → Sha) : Children → List (Sha × GObj)
  | .nil => []
  | .cons name n rest => if banned name then objsChildren H rest else objsNode H n ++ objsChildren H rest
end

def objsRoot (H : GObj → Sha) (t : Children) : List (Sha × GObj) :=
  (expRoot H t, rootObj H t) :: objsChildren H t

mutual
/-- (path, id) of every represented node below `pre` — what `_tree_to_objects` yields
from scratch, keyed by path -/
def shasNode (H : GObj → Sha) (pre : Path) : Node → List (Path × Sha)
  | .file _ c _ _ => [(pre, H (.blob c))]
  | .link _ t _ => [(pre, H (.blob t))]
  | .dir cs =>
    let es := expChildren H cs
    (if es.isEmpty then [] else [(pre, H (.tree (sortEntries es)))]) ++ shasChildren H pre cs
def shasChildren (H : GObj → Sha) (pre : Path) : Children → List (Path × Sha)
  | .nil => []
  | .cons name n rest =>
    if banned name then
      -- the entry itself is skipped (`change.name[1] in BANNED_FILENAMES`), but the changes *below* a
      -- directory called `.git` are not: its blobs and trees are yielded although nothing refers to them
      (match n with
        | .dir cs => shasNode H (pre ++ [name]) (.dir cs)
        | _ => []) ++ shasChildren H pre rest
    else shasNode H (pre ++ [name]) n ++ shasChildren H pre rest
end

/-! ### incremental export -/

abbrev Cache := List (Key × Sha)

/-- `idmap.lookup_blob_id(file_id, revision)`; `none` = KeyError -/
def Cache.get : Cache → Key → Option Sha
  | [], _ => none
  | (k, s) :: rest, q => if k = q then some s else Cache.get rest q

def Children.find : Children → Bytes → Option Node
  | .nil, _ => none
  | .cons n x rest, q => if n = q then some x else rest.find q

/-- the node at a path -/
def nodeAt : Node → Path → Option Node
  | n, [] => some n
  | .dir cs, p :: ps =>
    match cs.find p with
    | some c => nodeAt c ps
    | none => none
  | .file .., _ :: _ => none
  | .link .., _ :: _ => none

mutual
/-- the versioned leaf with file id `f` (`find_source_path` + `path2id`) -/
def findFid (f : Bytes) : Node → Option Node
  | .file k c x um => if k.fid = f then some (.file k c x um) else none
  | .link k t um => if k.fid = f then some (.link k t um) else none
  | .dir cs => findFidC f cs
def findFidC (f : Bytes) : Children → Option Node
  | .nil => none
  | .cons _ n rest =>
    match findFid f n with
    | some r => some r
    | none => findFidC f rest
end

mutual
/-- same names in the same order, same kinds, contents, flags and modes (keys ignored) -/
def sameGit : Node → Node → Bool
  | .file _ c x um, .file _ c' x' um' => c == c' && x == x' && um == um'
  | .link _ t um, .link _ t' um' => t == t' && um == um'
  | .dir cs, .dir cs' => sameGitC cs cs'
  | _, _ => false
def sameGitC : Children → Children → Bool
  | .nil, .nil => true
  | .cons n x r, .cons n' x' r' => n == n' && sameGit x x' && sameGitC r r'
  | _, _ => false
end

/-- is the leaf `n` at `path` reported by `iter_changes(base)`: it is unless the
base has the same leaf at the same path -/
def leafChanged (base : Option Children) (path : Path) (n : Node) : Bool :=
  match base with
  | none => true
  | some b =>
    match nodeAt (.dir b) path with
    | some o => !sameGit o n
    | none => true

/-- `find_unchanged_parent_ie` over the non-base parents for a file: the key of
an identical text under the same file id -/
def reuseKey (others : List Children) (fid : Bytes) (content : Bytes) : Option Key :=
  match others with
  | [] => none
  | o :: rest =>
    match findFidC fid o with
    | some (.file k c _ _) => if c = content then some k else reuseKey rest fid content
    | _ => reuseKey rest fid content

/-- blob id of a leaf in the incremental conversion -/
def incrFile (H : GObj → Sha) (cache : Cache) (base : Option Children) (others : List Children)
    (path : Path) (k : Key) (c : Bytes) (n : Node) : Sha :=
  if leafChanged base path n then
    -- changed: other-parent reuse through the cache, else a new blob
    match reuseKey others k.fid c with
    | some pk =>
      match cache.get pk with
      | some s => s
      | none => H (.blob c)
    | none => H (.blob c)
  else
    -- unchanged: `ie_to_hexsha`
    match cache.get k with
    | some s => s
    | none => H (.blob c)

def incrLink (H : GObj → Sha) (cache : Cache) (base : Option Children)
    (path : Path) (k : Key) (t : Bytes) (n : Node) : Sha :=
  if leafChanged base path n then H (.blob t)
  else
    match cache.get k with
    | some s => s
    | none => H (.blob t)

mutual
def incrNode (H : GObj → Sha) (cache : Cache) (base : Option Children) (others : List Children)
    (path : Path) : Node → Option (Nat × Sha)
  | .file k c x um => some (exportMode um .file x, incrFile H cache base others path k c (.file k c x um))
  | .link k t um => some (exportMode um .symlink false, incrLink H cache base path k t (.link k t um))
  | .dir cs =>
    let es := incrChildren H cache base others path cs
    if es.isEmpty then none else some (S_IFDIR, H (.tree (sortEntries es)))
def incrChildren (H : GObj → Sha) (cache : Cache) (base : Option Children) (others : List Children)
    (path : Path) : Children → List Entry
  | .nil => []
  | .cons name n rest =>
    if banned name then incrChildren H cache base others path rest else
    match incrNode H cache base others (path ++ [name]) n with
    | some (m, s) => ⟨m, name, s⟩ :: incrChildren H cache base others path rest
    | none => incrChildren H cache base others path rest
end

/-- `_revision_to_objects`: `base` = first parent's tree with the root tree id
recorded for it (`self[self[base_sha1].tree]`), `others` = the remaining parent
trees.  Nothing changed → the parent's root tree id. -/
def incrRoot (H : GObj → Sha) (cache : Cache) (base : Option (Children × Sha))
    (others : List Children) (t : Children) : Sha :=
  match base with
  | some (b, bsha) =>
    if sameGitC b t then bsha
    else H (.tree (sortEntries (incrChildren H cache (some b) others [] t)))
  | none => H (.tree (sortEntries (incrChildren H cache none others [] t)))

mutual
/-- (key, payload) of every leaf -/
def leaves : Node → List (Key × Bytes)
  | .file k c _ _ => [(k, c)]
  | .link k t _ => [(k, t)]
  | .dir cs => leavesC cs
def leavesC : Children → List (Key × Bytes)
  | .nil => []
  | .cons _ n rest => leaves n ++ leavesC rest
end

/-- every cached id of a key that occurs in `ls` is the id of that leaf's blob -/
def cacheOK (H : GObj → Sha) (cache : Cache) (ls : List (Key × Bytes)) : Bool :=
  ls.all fun (k, payload) =>
    match cache.get k with
    | some s => s == H (.blob payload)
    | none => true

/-! ### import -/

/-- what a fetch from git produces, without file ids -/
inductive PNode where
  | file (content : Bytes) (mode : Nat)
  | link (target : Bytes) (mode : Nat)
  | dir (cs : List (Bytes × PNode))

abbrev Store := List (Sha × GObj)

def Store.get : Store → Sha → Option GObj
  | [], _ => none
  | (k, o) :: rest, q => if k = q then some o else Store.get rest q

def PNode.isDir : PNode → Bool
  | .dir _ => true
  | _ => false

def pkey (c : Bytes × PNode) : Bytes := gitKey c.1 c.2.isDir

/-- map an entry importer over the entries of a tree object, keeping the names;
`none` as soon as one entry cannot be imported -/
def impList (g : Entry → Option PNode) : List Entry → Option (List (Bytes × PNode))
  | [] => some []
  | e :: es =>
    match g e, impList g es with
    | some p, some ps => some ((e.name, p) :: ps)
    | _, _ => none

/-- `import_git_tree` for one child entry; `none` = object missing, of the
wrong type, a submodule, or fuel exhausted -/
def impEntry (st : Store) : Nat → Entry → Option PNode
  | 0, _ => none
  | f + 1, e =>
    match importClass e.mode with
    | .tree =>
      match st.get e.sha with
      | some (.tree es) => (impList (impEntry st f) es).map PNode.dir
      | _ => none
    | .gitlink => none
    | .symlink =>
      match st.get e.sha with
      | some (.blob d) => some (.link d e.mode)
      | _ => none
    | .file =>
      match st.get e.sha with
      | some (.blob d) => some (.file d e.mode)
      | _ => none

def impEntries (st : Store) (f : Nat) (es : List Entry) : Option (List (Bytes × PNode)) :=
  impList (impEntry st f) es

def impRoot (st : Store) (fuel : Nat) (root : Sha) : Option (List (Bytes × PNode)) :=
  match st.get root with
  | some (.tree es) => impEntries st fuel es
  | _ => none

mutual
def depth : Node → Nat
  | .file .. => 1
  | .link .. => 1
  | .dir cs => depthC cs + 1
def depthC : Children → Nat
  | .nil => 0
  | .cons _ n rest => max (depth n) (depthC rest)
end

mutual
/-- the tree a round trip through git gives back: keys, banned names and
unrepresented directories dropped, children in git order -/
def canonNode (H : GObj → Sha) : Node → Option PNode
  | .file _ c x um => some (.file c (exportMode um .file x))
  | .link _ t um => some (.link t (exportMode um .symlink false))
  | .dir cs =>
    if (expChildren H cs).isEmpty then none else some (.dir (sortBy pkey (canonChildren H cs)))
def canonChildren (H : GObj → Sha) : Children → List (Bytes × PNode)
  | .nil => []
  | .cons name n rest =>
    if banned name then canonChildren H rest else
    match canonNode H n with
    | some p => (name, p) :: canonChildren H rest
    | none => canonChildren H rest
end

def canonRoot (H : GObj → Sha) (t : Children) : List (Bytes × PNode) := sortBy pkey (canonChildren H t)

mutual
/-- the final mode of every file is imported as a file and of every link as a
symlink (true of the default modes and of every unusual mode a fetch records) -/
def modesOK : Node → Bool
  | .file _ _ x um => importClass (exportMode um .file x) == .file
  | .link _ _ um => importClass (exportMode um .symlink false) == .symlink
  | .dir cs => modesOKC cs
def modesOKC : Children → Bool
  | .nil => true
  | .cons _ n rest => modesOK n && modesOKC rest
end

mutual
/-- export of an imported tree (`um` is the mode itself: the revision records
every non-default mode) -/
def expP (H : GObj → Sha) : PNode → Option (Nat × Sha)
  | .file c m => some (m, H (.blob c))
  | .link t m => some (m, H (.blob t))
  | .dir cs =>
    let es := expPL H cs
    if es.isEmpty then none else some (S_IFDIR, H (.tree (sortEntries es)))
def expPL (H : GObj → Sha) : List (Bytes × PNode) → List Entry
  | [] => []
  | (name, p) :: rest =>
    if banned name then expPL H rest else
    match expP H p with
    | some (m, s) => ⟨m, name, s⟩ :: expPL H rest
    | none => expPL H rest
end

def expRootP (H : GObj → Sha) (cs : List (Bytes × PNode)) : Sha := H (.tree (sortEntries (expPL H cs)))

/-! ### whole histories: the SHA map as it evolves revision by revision -/

/-- adjacent elements are in key order -/
def sortedBy {α : Type} (key : α → Bytes) : List α → Bool
  | [] => true
  | [_] => true
  | x :: y :: r => bytesLe (key x) (key y) && sortedBy key (y :: r)

/-- one revision of a history: `parents` are positions of earlier revisions in
the (topologically ordered) history — a position that is not earlier is a
parent that is not present and is skipped, as `_revision_to_objects` skips the
parents `has_revisions` does not report —, `evict` are the keys that have
disappeared from the SHA map since the previous conversion (a cache may lose
or never have stored any entry: `_tree_to_objects` itself only records the
leaves it looked at). -/
structure Rev where
  parents : List Nat
  evict : List Key
  tree : Children

mutual
/-- the `(file_id, revision) ↦ blob id` entries the incremental conversion of a
tree hands to `add_cache_entry`, with the ids *it* computed (possibly taken
from the cache) -/
def incrEntries (H : GObj → Sha) (cache : Cache) (base : Option Children) (others : List Children)
    (path : Path) : Node → List (Key × Sha)
  | .file k c x um => [(k, incrFile H cache base others path k c (.file k c x um))]
  | .link k t um => [(k, incrLink H cache base path k t (.link k t um))]
  | .dir cs => incrEntriesC H cache base others path cs
def incrEntriesC (H : GObj → Sha) (cache : Cache) (base : Option Children) (others : List Children)
    (path : Path) : Children → List (Key × Sha)
  | .nil => []
  | .cons name n rest =>
    if banned name then incrEntriesC H cache base others path rest
    else incrEntries H cache base others (path ++ [name]) n ++ incrEntriesC H cache base others path rest
end

/-- the converted prefix of a history: trees and recorded root tree ids by
position, and the SHA map -/
structure HState where
  trees : List Children
  roots : List Sha
  cache : Cache

def HState.empty : HState := ⟨[], [], []⟩

/-- the present parents of a revision with the root tree ids recorded for them -/
def presentParents (s : HState) (ps : List Nat) : List (Children × Sha) :=
  ps.filterMap fun i =>
    match s.trees[i]?, s.roots[i]? with
    | some t, some x => some (t, x)
    | _, _ => none

/-- `_update_sha_map_revision` for the next revision of the history: entries
are evicted, the tree is converted against its present parents with the SHA
map as it is, the root tree id is recorded and the new blob entries are added
in front (a newer entry for a key shadows an older one) -/
def stepRev (H : GObj → Sha) (s : HState) (r : Rev) : HState :=
  let cache := s.cache.filter fun e => !r.evict.contains e.1
  let present := presentParents s r.parents
  let base := present.head?
  let others := present.tail.map (·.1)
  let root := incrRoot H cache base others r.tree
  let new := match base with
    | some (b, _) =>
      if sameGitC b r.tree then [] else incrEntriesC H cache (some b) others [] r.tree
    | none => incrEntriesC H cache none others [] r.tree
  ⟨s.trees ++ [r.tree], s.roots ++ [root], new ++ cache⟩

/-- `_update_sha_map` over a history in topological order -/
def runHist (H : GObj → Sha) (s : HState) (h : List Rev) : HState := h.foldl (stepRev H) s

/-- `(file_id, revision)` identifies one text: no key occurs with two payloads -/
def keysFunctional (ls : List (Key × Bytes)) : Bool :=
  ls.all fun a => ls.all fun b => a.1 != b.1 || a.2 == b.2

def histLeaves (h : List Rev) : List (Key × Bytes) := h.flatMap fun r => leavesC r.tree

/-! ### a fetched git tree as a native tree, well-formed git trees -/

mutual
/-- the inventory entries `import_git_blob` / `import_git_tree` create for an
imported tree: kind from the mode class, `executable` from the mode, every
non-default mode recorded as unusual (file ids are generated from the path and
play no role in the export: left empty) -/
def nativeOf : PNode → Node
  | .file c m => .file ⟨[], []⟩ c (importExec m) (unusualOf m)
  | .link t m => .link ⟨[], []⟩ t (unusualOf m)
  | .dir cs => .dir (nativeOfL cs)
def nativeOfL : List (Bytes × PNode) → Children
  | [] => .nil
  | (n, p) :: rest => .cons n (nativeOf p) (nativeOfL rest)
end

/-- a tree entry git itself could have written and breezy represents without
loss: no `.git` name, no submodule, a subtree has mode `040000` exactly, is
present, non-empty, in git's entry order and made of such entries (fuel as in
`impEntry`) -/
def entryOK (st : Store) : Nat → Entry → Bool
  | 0, _ => false
  | f + 1, e =>
    !banned e.name &&
    match importClass e.mode with
    | .tree =>
      e.mode == S_IFDIR &&
      match st.get e.sha with
      | some (.tree es) => !es.isEmpty && sortedBy Entry.key es && es.all (entryOK st f)
      | _ => false
    | .gitlink => false
    | .symlink => true
    | .file => true

/-- the root tree (which may be empty) -/
def gitTreeOK (st : Store) (fuel : Nat) (root : Sha) : Bool :=
  match st.get root with
  | some (.tree es) => sortedBy Entry.key es && es.all (entryOK st fuel)
  | _ => false

/-! ### what a round trip must preserve: the items of a tree -/

inductive ItemKind where
  | file | link | dir
  deriving DecidableEq, Repr

/-- path, kind, content / symlink target, executable bit -/
structure Item where
  path : Path
  kind : ItemKind
  data : Bytes
  exec : Bool
  deriving DecidableEq, Repr

mutual
/-- does the node contain a file or symlink that git can hold (not below a `.git` name) -/
def hasLeaf : Node → Bool
  | .file .. => true
  | .link .. => true
  | .dir cs => hasLeafC cs
def hasLeafC : Children → Bool
  | .nil => false
  | .cons name n rest => (!banned name && hasLeaf n) || hasLeafC rest
end

mutual
/-- the items of a native tree the property speaks about: every file and
symlink with its path, content / target and executable bit, and every
directory that contains one ("empty directories excepted"); entries called
`.git` cannot exist in a git tree and are left out -/
def itemsN (pre : Path) : Node → List Item
  | .file _ c x _ => [⟨pre, .file, c, x⟩]
  | .link _ t _ => [⟨pre, .link, t, false⟩]
  | .dir cs => if hasLeafC cs then ⟨pre, .dir, [], false⟩ :: itemsNC pre cs else []
def itemsNC (pre : Path) : Children → List Item
  | .nil => []
  | .cons name n rest =>
    if banned name then itemsNC pre rest else itemsN (pre ++ [name]) n ++ itemsNC pre rest
end

mutual
/-- the items of a fetched tree, as `import_git_blob` sets them -/
def itemsP (pre : Path) : PNode → List Item
  | .file c m => [⟨pre, .file, c, importExec m⟩]
  | .link t _ => [⟨pre, .link, t, false⟩]
  | .dir cs => ⟨pre, .dir, [], false⟩ :: itemsPL pre cs
def itemsPL (pre : Path) : List (Bytes × PNode) → List Item
  | [] => []
  | (name, p) :: rest => itemsP (pre ++ [name]) p ++ itemsPL pre rest
end

mutual
/-- no unusual mode is recorded anywhere (every native history; a tree fetched
from git may carry some) -/
def plain : Node → Bool
  | .file _ _ _ um => um.isNone
  | .link _ _ um => um.isNone
  | .dir cs => plainC cs
def plainC : Children → Bool
  | .nil => true
  | .cons _ n rest => plain n && plainC rest
end

/-! ### git's object id (used by the driver only) -/

def ascii (s : String) : Bytes := s.toList.map fun c => c.toNat.toUInt8

def natOct (n : Nat) : Bytes := (Nat.toDigits 8 n).map fun c => c.toNat.toUInt8

def serialise : GObj → Bytes
  | .blob d => d
  | .tree es => es.flatMap fun e => natOct e.mode ++ [0x20] ++ e.name ++ [0] ++ e.sha

def typeName : GObj → Bytes
  | .blob _ => ascii "blob"
  | .tree _ => ascii "tree"

def rotl (x : UInt32) (n : UInt32) : UInt32 := (x <<< n) ||| (x >>> (32 - n))

def be32 (a b c d : UInt8) : UInt32 :=
  (a.toUInt32 <<< 24) ||| (b.toUInt32 <<< 16) ||| (c.toUInt32 <<< 8) ||| d.toUInt32

def sha1Pad (msg : Bytes) : Array UInt8 := Id.run do
  let n := msg.length
  let mut a : Array UInt8 := msg.toArray
  a := a.push 0x80
  while a.size % 64 != 56 do
    a := a.push 0
  let bits := n * 8
  for i in [0:8] do
    a := a.push (UInt8.ofNat ((bits >>> (8 * (7 - i))) % 256))
  return a

structure Sha1State where
  h0 : UInt32
  h1 : UInt32
  h2 : UInt32
  h3 : UInt32
  h4 : UInt32

def sha1Block (st : Sha1State) (blk : Array UInt8) (off : Nat) : Sha1State := Id.run do
  let mut w : Array UInt32 := Array.mkEmpty 80
  for i in [0:16] do
    w := w.push (be32 (blk.getD (off + 4 * i) 0) (blk.getD (off + 4 * i + 1) 0)
      (blk.getD (off + 4 * i + 2) 0) (blk.getD (off + 4 * i + 3) 0))
  for i in [16:80] do
    w := w.push (rotl (w.getD (i - 3) 0 ^^^ w.getD (i - 8) 0 ^^^ w.getD (i - 14) 0 ^^^ w.getD (i - 16) 0) 1)
  let mut a := st.h0
  let mut b := st.h1
  let mut c := st.h2
  let mut d := st.h3
  let mut e := st.h4
  for i in [0:80] do
    let (f, k) : UInt32 × UInt32 :=
      if i < 20 then ((b &&& c) ||| ((~~~ b) &&& d), 0x5A827999)
      else if i < 40 then (b ^^^ c ^^^ d, 0x6ED9EBA1)
      else if i < 60 then ((b &&& c) ||| (b &&& d) ||| (c &&& d), 0x8F1BBCDC)
      else (b ^^^ c ^^^ d, 0xCA62C1D6)
    let tmp := rotl a 5 + f + e + k + w.getD i 0
    e := d
    d := c
    c := rotl b 30
    b := a
    a := tmp
  return ⟨st.h0 + a, st.h1 + b, st.h2 + c, st.h3 + d, st.h4 + e⟩

def word4 (x : UInt32) : Bytes :=
  [(x >>> 24).toUInt8, (x >>> 16).toUInt8, (x >>> 8).toUInt8, x.toUInt8]

def sha1 (msg : Bytes) : Bytes := Id.run do
  let a := sha1Pad msg
  let mut st : Sha1State := ⟨0x67452301, 0xEFCDAB89, 0x98BADCFE, 0x10325476, 0xC3D2E1F0⟩
  for j in [0:a.size / 64] do
    st := sha1Block st a (64 * j)
  return word4 st.h0 ++ word4 st.h1 ++ word4 st.h2 ++ word4 st.h3 ++ word4 st.h4

/-- git's object id: SHA-1 of `<type> <len>\0<body>` (20 raw bytes) -/
def gitId (o : GObj) : Sha :=
  let body := serialise o
  sha1 (typeName o ++ [0x20] ++ ascii (toString body.length) ++ [0] ++ body)

end BreezyVerif.C35
