import BreezyVerif.Lemmas.C48
/-! C48 — the Globster / ExceptionGlobster selection theorems, proved once for an
arbitrary *group matcher* `gm` (what one `(regex, patterns)` entry answers) that
is sound and complete with respect to the per-pattern meaning `kindMatches`,
then instantiated for the two modelled shapes of the group regex:
`groupMatchO` (the code since ac6b52e: alternatives tried in order) and
`groupMatch` (the earlier shared greedy extension prefix). -/
namespace BreezyVerif.C48

abbrev GroupMatcher := Kind → List CPat → List Char → Option CPat

/-- a reported pattern belongs to the group and matches -/
def GMSound (gm : GroupMatcher) : Prop :=
  ∀ k grp name p, gm k grp name = some p → p ∈ grp ∧ kindMatches k p name = true

/-- a group with a matching pattern reports something -/
def GMComplete (gm : GroupMatcher) : Prop :=
  ∀ k grp name p, p ∈ grp → kindMatches k p name = true → (gm k grp name).isSome = true

/-- `Globster.match` over a group matcher -/
def globsterWith (gm : GroupMatcher) (g : Nat) (cps : List CPat) (name : List Char) : Option CPat :=
  (groups g cps).findSome? fun kg => gm kg.1 kg.2 name

/-- `ExceptionGlobster.match` over a group matcher -/
def exceptionWith (gm : GroupMatcher) (g : Nat) (p0 p1 p2 : List CPat) (name : List Char) : Option (List Char) :=
  let dn := globsterWith gm g p2 name
  if truthy dn then dn.map fun p => '!' :: '!' :: p.src
  else if truthy (globsterWith gm g p1 name) then none
  else (globsterWith gm g p0 name).map (·.src)

theorem globsterMatch_eq_with : globsterMatch = globsterWith groupMatch := rfl
theorem globsterMatchO_eq_with : globsterMatchO = globsterWith groupMatchO := rfl
theorem exceptionMatch_eq_with : exceptionMatch = exceptionWith groupMatch := rfl
theorem exceptionMatchO_eq_with : exceptionMatchO = exceptionWith groupMatchO := rfl

theorem groupMatch_sound : GMSound groupMatch := fun _ _ _ _ h => groupMatch_some h
theorem groupMatch_complete : GMComplete groupMatch := fun _ _ _ _ hp hm => groupMatch_isSome hp hm

theorem groupMatchO_sound : GMSound groupMatchO := by
  intro k grp name p h
  unfold groupMatchO at h
  exact ⟨List.mem_of_find?_eq_some h, by simpa using List.find?_some h⟩

theorem groupMatchO_complete : GMComplete groupMatchO := by
  intro k grp name p hp hm
  unfold groupMatchO
  rw [List.find?_isSome]
  exact ⟨p, hp, hm⟩

def noEmptySrc (cps : List CPat) : Bool := cps.all fun p => !p.src.isEmpty

section generic
variable {gm : GroupMatcher}

theorem gen_reported (hs : GMSound gm) (g : Nat) (cps : List CPat) (name : List Char) (p : CPat)
    (h : globsterWith gm g cps name = some p) : p ∈ cps ∧ cpMatches p name = true := by
  unfold globsterWith at h
  obtain ⟨⟨k, grp⟩, hmem, hgm⟩ := List.exists_of_findSome?_eq_some h
  obtain ⟨hp, hm⟩ := hs _ _ _ _ hgm
  have hk := (mem_ofKind.mp (chunks_sub g _ grp (mem_groups hmem) p hp))
  refine ⟨hk.1, ?_⟩
  rw [cpMatches_eq, hk.2]; exact hm

theorem gen_ignored_iff (hs : GMSound gm) (hc : GMComplete gm) (g : Nat) (hg : 0 < g)
    (cps : List CPat) (name : List Char) :
    (globsterWith gm g cps name).isSome = true ↔ ∃ p ∈ cps, cpMatches p name = true := by
  constructor
  · intro h
    obtain ⟨p, hp⟩ := Option.isSome_iff_exists.mp h
    exact ⟨p, gen_reported hs g cps name p hp⟩
  · rintro ⟨p, hp, hm⟩
    have hin : p ∈ (chunks g (ofKind p.kind cps)).flatten := by
      rw [chunks_flatten g hg]; exact mem_ofKind.mpr ⟨hp, rfl⟩
    obtain ⟨grp, hgrp, hpg⟩ := List.mem_flatten.mp hin
    unfold globsterWith
    rw [List.findSome?_isSome_iff]
    refine ⟨(p.kind, grp), groups_mem hgrp, ?_⟩
    exact hc _ _ _ _ hpg (by rw [← cpMatches_eq]; exact hm)

theorem gen_truthy_iff (hs : GMSound gm) (hc : GMComplete gm) (g : Nat) (hg : 0 < g)
    (cps : List CPat) (name : List Char) (hne : noEmptySrc cps = true) :
    truthy (globsterWith gm g cps name) = true ↔ ∃ p ∈ cps, cpMatches p name = true := by
  rw [← gen_ignored_iff hs hc g hg]
  cases h : globsterWith gm g cps name with
  | none => simp [truthy]
  | some p =>
    have hp := (gen_reported hs g cps name p h).1
    have := List.all_eq_true.mp hne p hp
    simp [truthy, this]

theorem gen_none_of_no_match (hs : GMSound gm) (g : Nat) (cps : List CPat) (name : List Char)
    (h : ¬ ∃ p ∈ cps, cpMatches p name = true) : globsterWith gm g cps name = none := by
  cases hm : globsterWith gm g cps name with
  | none => rfl
  | some p => exact absurd ⟨p, gen_reported hs g cps name p hm⟩ h

theorem gen_exception_double (hs : GMSound gm) (hc : GMComplete gm) (g : Nat) (hg : 0 < g)
    (p0 p1 p2 : List CPat) (name : List Char)
    (hne : noEmptySrc p2 = true) (h2 : ∃ p ∈ p2, cpMatches p name = true) :
    ∃ q ∈ p2, cpMatches q name = true ∧ exceptionWith gm g p0 p1 p2 name = some ('!' :: '!' :: q.src) := by
  have ht := (gen_truthy_iff hs hc g hg p2 name hne).mpr h2
  cases hm : globsterWith gm g p2 name with
  | none => rw [hm] at ht; simp [truthy] at ht
  | some q =>
    obtain ⟨hq, hqm⟩ := gen_reported hs g p2 name q hm
    refine ⟨q, hq, hqm, ?_⟩
    unfold exceptionWith
    rw [hm] at ht
    simp only [hm, ht, if_true, Option.map_some]

theorem gen_exception_single (hs : GMSound gm) (hc : GMComplete gm) (g : Nat) (hg : 0 < g)
    (p0 p1 p2 : List CPat) (name : List Char)
    (hne : noEmptySrc p1 = true) (h2 : ¬ ∃ p ∈ p2, cpMatches p name = true)
    (h1 : ∃ p ∈ p1, cpMatches p name = true) :
    exceptionWith gm g p0 p1 p2 name = none := by
  have ht := (gen_truthy_iff hs hc g hg p1 name hne).mpr h1
  have hn : truthy (none : Option CPat) = false := rfl
  unfold exceptionWith
  simp only [gen_none_of_no_match hs g p2 name h2, hn, ht, if_true, Bool.false_eq_true, if_false]

theorem gen_exception_plain (hs : GMSound gm) (g : Nat) (p0 p1 p2 : List CPat) (name : List Char)
    (h2 : ¬ ∃ p ∈ p2, cpMatches p name = true) (h1 : ¬ ∃ p ∈ p1, cpMatches p name = true) :
    exceptionWith gm g p0 p1 p2 name = (globsterWith gm g p0 name).map (·.src) := by
  unfold exceptionWith
  simp [gen_none_of_no_match hs g p2 name h2, gen_none_of_no_match hs g p1 name h1, truthy]

theorem gen_exception_ignored_iff (hs : GMSound gm) (hc : GMComplete gm) (g : Nat) (hg : 0 < g)
    (p0 p1 p2 : List CPat) (name : List Char)
    (hne1 : noEmptySrc p1 = true) (hne2 : noEmptySrc p2 = true) :
    (exceptionWith gm g p0 p1 p2 name).isSome = true ↔
      (∃ p ∈ p2, cpMatches p name = true) ∨
      ((¬ ∃ p ∈ p1, cpMatches p name = true) ∧ ∃ p ∈ p0, cpMatches p name = true) := by
  by_cases h2 : ∃ p ∈ p2, cpMatches p name = true
  · obtain ⟨q, _, _, hq⟩ := gen_exception_double hs hc g hg p0 p1 p2 name hne2 h2
    simp [hq, h2]
  · by_cases h1 : ∃ p ∈ p1, cpMatches p name = true
    · rw [gen_exception_single hs hc g hg p0 p1 p2 name hne1 h2 h1]
      simp only [Option.isSome_none, Bool.false_eq_true, false_iff, not_or, not_and]
      exact ⟨h2, fun h => absurd h1 h⟩
    · rw [gen_exception_plain hs g p0 p1 p2 name h2 h1, Option.isSome_map, gen_ignored_iff hs hc g hg]
      constructor
      · intro h; exact Or.inr ⟨h1, h⟩
      · rintro (h | ⟨_, h⟩)
        · exact absurd h h2
        · exact h

end generic

end BreezyVerif.C48
