import BreezyVerif.Model.C49
/-! helper lemmas for Props/C49.lean -/
namespace BreezyVerif.C49

/-! ### string order used by the sort key -/

theorem strLe_refl : ∀ a : Str, strLe a a = true
  | [] => rfl
  | x :: xs => by simp [strLe, strLe_refl xs]

theorem strLe_total : ∀ a b : Str, (strLe a b || strLe b a) = true
  | [], _ => by simp [strLe]
  | _ :: _, [] => by simp [strLe]
  | x :: xs, y :: ys => by
    have ih := strLe_total xs ys
    simp only [strLe, Bool.or_eq_true, Bool.and_eq_true, decide_eq_true_eq, beq_iff_eq] at ih ⊢
    rcases Nat.lt_trichotomy x.toNat y.toNat with h | h | h
    · exact Or.inl (Or.inl h)
    · rcases ih with ih | ih
      · exact Or.inl (Or.inr ⟨h, ih⟩)
      · exact Or.inr (Or.inr ⟨h.symm, ih⟩)
    · exact Or.inr (Or.inl h)

theorem strLe_trans : ∀ a b c : Str, strLe a b = true → strLe b c = true → strLe a c = true
  | [], _, _, _, _ => by simp [strLe]
  | _ :: _, [], _, h, _ => by simp [strLe] at h
  | _ :: _, _ :: _, [], _, h => by simp [strLe] at h
  | x :: xs, y :: ys, z :: zs, h1, h2 => by
    have ih := strLe_trans xs ys zs
    simp only [strLe, Bool.or_eq_true, Bool.and_eq_true, decide_eq_true_eq, beq_iff_eq] at h1 h2 ih ⊢
    rcases h1 with h1 | ⟨e1, h1⟩
    · rcases h2 with h2 | ⟨e2, _⟩
      · exact Or.inl (by omega)
      · exact Or.inl (by omega)
    · rcases h2 with h2 | ⟨e2, h2⟩
      · exact Or.inl (by omega)
      · exact Or.inr ⟨by omega, ih h1 h2⟩

theorem keyGe_total (a b : Nat × Str × LocSection) : (keyGe a b || keyGe b a) = true := by
  simp only [keyGe, Bool.or_eq_true, Bool.and_eq_true, decide_eq_true_eq, beq_iff_eq]
  rcases Nat.lt_trichotomy a.1 b.1 with h | h | h
  · exact Or.inr (Or.inl h)
  · have := strLe_total b.2.1 a.2.1
    simp only [Bool.or_eq_true] at this
    rcases this with t | t
    · exact Or.inl (Or.inr ⟨h, t⟩)
    · exact Or.inr (Or.inr ⟨h.symm, t⟩)
  · exact Or.inl (Or.inl h)

theorem keyGe_trans (a b c : Nat × Str × LocSection) (h1 : keyGe a b = true) (h2 : keyGe b c = true) :
    keyGe a c = true := by
  simp only [keyGe, Bool.or_eq_true, Bool.and_eq_true, decide_eq_true_eq, beq_iff_eq] at h1 h2 ⊢
  rcases h1 with h1 | ⟨e1, s1⟩
  · rcases h2 with h2 | ⟨e2, _⟩
    · exact Or.inl (by omega)
    · exact Or.inl (by omega)
  · rcases h2 with h2 | ⟨e2, s2⟩
    · exact Or.inl (by omega)
    · exact Or.inr ⟨by omega, strLe_trans _ _ _ s2 s1⟩

/-! ### split / join -/

theorem splitSlash_ne_nil (s : Str) : splitSlash s ≠ [] := by
  cases s with
  | nil => simp [splitSlash]
  | cons c s =>
    unfold splitSlash
    split
    · simp
    · split <;> simp

theorem joinSlash_cons (p : Str) (ps : List Str) (h : ps ≠ []) :
    joinSlash (p :: ps) = p ++ '/' :: joinSlash ps := by
  cases ps with
  | nil => exact absurd rfl h
  | cons q qs => rfl

/-- `"/".join(s.split("/")) == s` -/
theorem joinSlash_splitSlash : ∀ s : Str, joinSlash (splitSlash s) = s
  | [] => rfl
  | c :: s => by
    have ih := joinSlash_splitSlash s
    unfold splitSlash
    by_cases hc : c = '/'
    · subst hc
      simp only [beq_self_eq_true, if_true]
      rw [joinSlash_cons _ _ (splitSlash_ne_nil s), ih]; rfl
    · have : (c == '/') = false := by simpa using hc
      simp only [this, Bool.false_eq_true, if_false]
      cases hsp : splitSlash s with
      | nil => exact absurd hsp (splitSlash_ne_nil s)
      | cons p ps =>
        rw [hsp] at ih
        simp only
        cases ps with
        | nil => simp only [joinSlash] at ih ⊢; rw [ih]
        | cons q qs =>
          rw [joinSlash_cons _ _ (by simp)] at ih ⊢
          rw [← ih]; rfl

theorem joinSlash_append (a b : List Str) (ha : a ≠ []) (hb : b ≠ []) :
    joinSlash (a ++ b) = joinSlash a ++ '/' :: joinSlash b := by
  induction a with
  | nil => exact absurd rfl ha
  | cons p ps ih =>
    cases ps with
    | nil =>
      simp only [List.cons_append, List.nil_append]
      rw [joinSlash_cons _ _ hb]; rfl
    | cons q qs =>
      have : q :: qs ++ b ≠ [] := by simp
      simp only [List.cons_append] at this ⊢
      rw [joinSlash_cons p (q :: (qs ++ b)) (by simp), joinSlash_cons p (q :: qs) (by simp)]
      have ih' := ih (by simp)
      simp only [List.cons_append] at ih'
      rw [ih']
      simp

/-! ### takeWhile -/

theorem mem_takeWhile_true {α : Type} (p : α → Bool) : ∀ (l : List α), ∀ x ∈ l.takeWhile p, p x = true
  | [], x, h => by simp at h
  | a :: l, x, h => by
    simp only [List.takeWhile_cons] at h
    split at h
    · rename_i ha
      rcases List.mem_cons.mp h with h | h
      · subst h; exact ha
      · exact mem_takeWhile_true p l x h
    · simp at h

/-! ### lookup / setOpt -/

theorem lookup_setOpt_same (k v : Str) : ∀ opts, lookup k (setOpt k v opts) = some v
  | [] => by simp [setOpt, lookup]
  | (a, w) :: r => by
    unfold setOpt
    by_cases h : a = k
    · simp [h, lookup]
    · simp [h, lookup, lookup_setOpt_same k v r]

theorem lookup_setOpt_other (k k' v : Str) (hne : k' ≠ k) : ∀ opts, lookup k' (setOpt k v opts) = lookup k' opts
  | [] => by simp [setOpt, lookup, hne.symm]
  | (a, w) :: r => by
    unfold setOpt
    by_cases h : a = k
    · subst h; simp [lookup, hne.symm]
    · simp only [h, if_false, lookup, lookup_setOpt_other k k' v hne r]

theorem lookup_some_length {k v : Str} : ∀ {opts : List (Str × Str)}, lookup k opts = some v → 1 ≤ opts.length
  | [], h => by simp [lookup] at h
  | _ :: _, _ => by simp

/-! ### reference scanner -/

theorem scanRefs_idle_plain (s : LocSection) (c : Char) (hc : c ≠ '{') (rest : Str) :
    ((scanRefs .idle (c :: rest)).map (expandChunk s)).flatten
      = c :: ((scanRefs .idle rest).map (expandChunk s)).flatten := by
  have : (c == '{') = false := by simpa using hc
  simp [scanRefs, refStep, refIdle, this, expandChunk]

end BreezyVerif.C49
