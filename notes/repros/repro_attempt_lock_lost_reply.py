"""Repro (C27 family attempt-rename-lost-reply).

LockDir.attempt_lock over a transport whose rename(pending, held) takes effect
on the server but reports a transport error (lost reply / dropped connection):
_attempt_lock takes the error for contention, peeks, finds a live holder —
itself — and raises LockContention.  attempt_lock has failed, _lock_held is
False, and held/ stays on disk with this process's own nonce: the lock is held
by the process whose acquisition failed (unlock() raises LockNotHeld).

Run:  PYTHONPATH=/repo /venv/bin/python repro_attempt_lock_lost_reply.py     (exit 1 = defect present)
"""
import os
import sys
import tempfile

os.environ["HOME"] = tempfile.mkdtemp(prefix="c27-repro-", dir="/var/tmp")

import breezy
import breezy.bzr  # noqa: F401
from breezy import errors, lockdir
from dromedary import errors as terrors
from dromedary.memory import MemoryTransport

breezy.initialize()


class LostReply:
    """MemoryTransport whose first rename takes effect and then raises"""

    def __init__(self, t):
        self._t = t
        self._armed = True

    def __getattr__(self, name):
        return getattr(self._t, name)

    def rename(self, a, b):
        self._t.rename(a, b)
        if self._armed:
            self._armed = False
            raise terrors.ConnectionError("reply lost")


t = MemoryTransport()
t.mkdir("lock")
ld = lockdir.LockDir(LostReply(t), "lock")
try:
    ld.attempt_lock()
    print("attempt_lock succeeded; is_held =", ld.is_held)
    sys.exit(0 if ld.is_held else 1)
except errors.LockContention as e:
    info = lockdir.LockDir(t, "lock").peek()
    print("attempt_lock raised LockContention; is_held =", ld.is_held)
    print("held/info nonce == nonce of the failed attempt:", info is not None and info.nonce == ld.nonce)
    sys.exit(1 if (info is not None and info.nonce == ld.nonce and not ld.is_held) else 0)
