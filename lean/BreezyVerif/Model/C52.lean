import BreezyVerif.Common
/-
C52 — reconfiguration and format conversion of a location.

Model of `breezy/reconfigure.py`:

* `Reconfigure.__init__`: what is found at the control directory — a working
  tree or not, a local branch (bound or not) or a branch reference, the
  repository `find_repository` reaches (inside the control dir, a shared one
  above it, or none);
* `_plan_changes(want_tree, want_branch, want_bound, want_reference)` and
  `_set_use_shared`: the literal flag computation (`plan`, `planShared`);
* the `to_*` factories (`Already…` when nothing is planned), `_check`
  (UncommittedChanges, UnsyncedBranches), `_select_bind_location`
  (NoBindLocation) and `apply` in its real order — a failure in the middle of
  `apply` leaves the steps before it done (`reconfigure` returns the state
  reached together with the error);

and of `breezy/upgrade.py: Convert` at the level the property speaks about: a
conversion changes the format tag of the location and nothing else.

The observation of a location (`Obs`): branch tip, the history behind it
(revision → testament map, abstracted to a code), the tag dictionary and the
working tree state (content code + "has pending changes"), or no tree.
-/
namespace BreezyVerif.C52

inductive BK where
  /-- a branch in this control directory, not bound -/
  | unbound
  /-- a branch in this control directory, bound to a master -/
  | bound
  /-- a branch reference (lightweight checkout) -/
  | reference
  deriving DecidableEq, Repr

inductive RK where
  | none
  /-- repository inside this control directory -/
  | own
  /-- a shared repository in a containing directory -/
  | shared
  deriving DecidableEq, Repr

structure Loc where
  tree : Bool
  /-- the working tree has pending changes (meaningful when `tree`) -/
  dirty : Bool
  branch : BK
  repo : RK
  /-- a shared repository exists above this control directory -/
  sharedAbove : Bool
  /-- `_select_bind_location` finds a location (bound / old bound / push / parent location, or the referenced branch) -/
  bindKnown : Bool
  /-- the branch at that location has the same tip as the local branch -/
  synced : Bool
  format : Nat
  tip : Nat
  hist : Nat
  tags : Nat
  treeCode : Nat
  deriving DecidableEq, Repr

/-- content code of the clean tree of a revision -/
def cleanCode (tip : Nat) : Nat := 2 * tip + 1

structure Obs where
  tip : Nat
  hist : Nat
  tags : Nat
  tree : Option (Nat × Bool)
  deriving DecidableEq, Repr

def obs (l : Loc) : Obs := ⟨l.tip, l.hist, l.tags, if l.tree then some (l.treeCode, l.dirty) else none⟩

structure Flags where
  unbind : Bool := false
  bind : Bool := false
  destroyReference : Bool := false
  createReference : Bool := false
  destroyBranch : Bool := false
  createBranch : Bool := false
  destroyTree : Bool := false
  createTree : Bool := false
  createRepository : Bool := false
  destroyRepository : Bool := false
  deriving DecidableEq, Repr

inductive Err where
  | already
  | notSupported
  | uncommittedChanges
  | unsyncedBranches
  | noBindLocation
  /-- `to_use_shared` without a shared repository above: opening the containing control dir fails -/
  | noSharedRepository
  deriving DecidableEq, Repr

/-- `_plan_changes` -/
def plan (l : Loc) (wantTree wantBranch wantBound wantReference : Bool) : Except Err Flags :=
  if !wantBranch && !wantReference then .error .notSupported
  else if wantBranch && wantReference then .error .notSupported
  else
    let isRef := l.branch == .reference
    .ok {
      createRepository := l.repo == .none && !wantReference
      destroyRepository := l.repo == .own && wantReference
      createReference := !isRef && wantReference
      destroyBranch := !isRef && wantReference
      destroyReference := isRef && !wantReference
      createBranch := isRef && wantBranch
      bind := (isRef && wantBranch && wantBound) || (l.branch == .unbound && wantBound)
      unbind := l.branch == .bound && !wantBound
      destroyTree := !wantTree && l.tree
      createTree := wantTree && !l.tree }

/-- `_set_use_shared` -/
def planShared (l : Loc) (useShared : Bool) : Flags :=
  if useShared then { destroyRepository := l.repo == .own }
  else { createRepository := l.repo != .own }

/-- `changes_planned` (note: `_destroy_branch` is not consulted) -/
def Flags.any (f : Flags) : Bool :=
  f.unbind || f.bind || f.destroyTree || f.createTree || f.destroyReference || f.createBranch ||
  f.createRepository || f.createReference || f.destroyRepository

inductive Target where
  | branch | tree | checkout | lightweightCheckout | standalone | useShared
  deriving DecidableEq, Repr

/-- the `to_*` factory -/
def factory (l : Loc) : Target → Except Err Flags
  | .branch => plan l false true false false
  | .tree => plan l true true false false
  | .checkout => plan l true true true false
  | .lightweightCheckout => plan l true false false true
  | .standalone => .ok (planShared l false)
  | .useShared => .ok (planShared l true)

/-- `destroy_workingtree` / `create_workingtree` (the new tree is the clean tree of the tip) -/
def stTree (f : Flags) (l : Loc) : Loc :=
  if f.destroyTree then { l with tree := false, dirty := false }
  else if f.createTree then { l with tree := true, dirty := false, treeCode := cleanCode l.tip }
  else l

/-- `create_repository` (+ fetch of the branch's history) -/
def stRepo (f : Flags) (l : Loc) : Loc := if f.createRepository then { l with repo := .own } else l

/-- `destroy_branch` + `set_branch_reference`, or `destroy_branch` (reference) + `create_branch` -/
def stBranch (f : Flags) (l : Loc) : Loc :=
  if f.createReference then { l with branch := .reference, bindKnown := true }
  else if f.createBranch then { l with branch := .unbound, bindKnown := false }
  else l

/-- `unbind` (unbinding the branch object that `destroy_branch` has just removed changes nothing) -/
def stUnbind (f : Flags) (l : Loc) : Loc :=
  if f.unbind && !f.destroyBranch then { l with branch := .unbound, bindKnown := true } else l

def stBind (f : Flags) (l : Loc) : Loc := if f.bind then { l with branch := .bound, bindKnown := true } else l

/-- `destroy_repository`: afterwards `find_repository` reaches the shared repository above, if any -/
def stDropRepo (f : Flags) (above : Bool) (l : Loc) : Loc :=
  if f.destroyRepository then { l with repo := if above then .shared else .none } else l

/-- `apply`: the state reached, and the error that stopped it (if any) -/
def applyFlags (l : Loc) (f : Flags) (force : Bool) : Loc × Option Err :=
  -- _check
  if !force && f.destroyTree && l.dirty then (l, some .uncommittedChanges)
  else if !force && f.createReference && l.branch != .reference && !l.bindKnown then (l, some .noBindLocation)
  else if !force && f.createReference && l.branch != .reference && !l.synced then (l, some .unsyncedBranches)
  -- reference_branch = Branch.open(_select_bind_location())
  else if f.createReference && !l.bindKnown then (stRepo f l, some .noBindLocation)
  -- destroy_repository, part 1: where do the revisions go
  else if f.destroyRepository && !f.createReference && l.branch != .reference && !l.sharedAbove then
    (stRepo f l, some .noSharedRepository)
  else if f.bind && !l.bindKnown then
    (stUnbind f (stTree f (stBranch f (stRepo f l))), some .noBindLocation)
  else
    (stDropRepo f l.sharedAbove (stBind f (stUnbind f (stTree f (stBranch f (stRepo f l))))), none)

/-- factory + apply -/
def reconfigure (t : Target) (force : Bool) (l : Loc) : Loc × Option Err :=
  match factory l t with
  | .error e => (l, some e)
  | .ok f => if f.any then applyFlags l f force else (l, some .already)

/-- a sequence of reconfigurations, each started whatever the outcome of the previous one -/
def runAll (force : Bool) : List Target → Loc → Loc
  | [], l => l
  | t :: ts, l => runAll force ts (reconfigure t force l).1

/-- `upgrade`: only the format tag changes; `none` = UpToDateFormat -/
def convert (fmt : Nat) (l : Loc) : Option Loc :=
  if l.format = fmt then none else some { l with format := fmt }

end BreezyVerif.C52
