import BreezyVerif.Common
import BreezyVerif.Model.C18
/-
C19 — text conflicts are reported exactly when conflict markers are written.

Model of

* `breezy/merge.py: Merge3Merger.text_merge` — the *sentinel* start marker,
  extended with `!` until no BASE/OTHER/THIS line starts with it, the call of
  `merge3.Merge3.merge_lines` with that marker, the `iter_merge3` post-pass
  (`line.startswith(start_marker)` sets the `text_conflicts` flag and the line
  becomes `b"<" * 7 + line[len(start_marker):]`), the conflict record and the
  `_dump_conflicts` / `_conflict_file` helper files `.BASE/.THIS/.OTHER`;
* the content decision of `_do_merge_contents` / `merge_contents` in front of
  it (`_three_way` on the three contents; text merge only when both sides
  changed differently; `BinaryFile` ⇒ contents conflict);
* `merge3.Merge3.merge_lines` itself (external package): how a list of merge
  regions is turned into lines and marker lines.  The *region computation*
  (`merge_regions`, `reprocess_merge_regions`, cherrypick refinement) is NOT
  modelled: regions are an input, resolved to the line lists they denote;
* `breezy/bzr/conflicts.py: TextConflict._resolve`, `ContentsConflict._resolve`
  followed by `Conflict.cleanup` and the record removal of
  `breezy/conflicts.py: resolve`, as a step function on the per-file slot
  (file, three helper files, conflict record, which name carries the file id).
-/
namespace BreezyVerif.C19

abbrev Line := Bytes

/-- one merge region with the lines it denotes
(`merge3`: `('unchanged', z, zend)`, `('a', ia, amatch)`, `('same', ia, amatch)`,
`('b', ib, bmatch)`, `('conflict', iz|None, zmatch|None, ia, amatch, ib, bmatch)`) -/
inductive Region where
  | unchanged (ls : List Line)
  | a (ls : List Line)
  | same (ls : List Line)
  | b (ls : List Line)
  | conflict (base : Option (List Line)) (a b : List Line)
  deriving DecidableEq, Repr

def Region.isConflict : Region → Bool
  | .conflict .. => true
  | _ => false

/-- `b"!START OF MERGE CONFLICT!" + b"I HOPE THIS IS UNIQUE"` -/
def sentinel : Bytes :=
  [33, 83, 84, 65, 82, 84, 32, 79, 70, 32, 77, 69, 82, 71, 69, 32, 67, 79, 78, 70, 76, 73, 67, 84, 33,
   73, 32, 72, 79, 80, 69, 32, 84, 72, 73, 83, 32, 73, 83, 32, 85, 78, 73, 81, 85, 69]
/-- `b"<" * 7` -/
def lt7 : Bytes := [60, 60, 60, 60, 60, 60, 60]
/-- merge3's default mid marker `b"======="` -/
def eq7 : Bytes := [61, 61, 61, 61, 61, 61, 61]
/-- merge3's default end marker `b">>>>>>>"` -/
def gt7 : Bytes := [62, 62, 62, 62, 62, 62, 62]
/-- `b"|" * 7` -/
def bar7 : Bytes := [124, 124, 124, 124, 124, 124, 124]
/-- `name_a=b"TREE"` -/
def nameA : Bytes := [84, 82, 69, 69]
/-- `name_b=b"MERGE-SOURCE"` -/
def nameB : Bytes := [77, 69, 82, 71, 69, 45, 83, 79, 85, 82, 67, 69]
/-- `name_base=b"BASE-REVISION"` -/
def nameBase : Bytes := [66, 65, 83, 69, 45, 82, 69, 86, 73, 83, 73, 79, 78]

def withName (marker name : Bytes) : Bytes := marker ++ 32 :: name

/-- the newline merge3 appends to marker lines: taken from the first line of `a` (= THIS) -/
def newlineOf : List Line → Bytes
  | [] => [10]
  | l :: _ =>
    if [13, 10].isSuffixOf l then [13, 10]
    else if [13].isSuffixOf l then [13]
    else [10]

inductive Err where
  | cantReprocessAndShowBase
  /-- `assert iz is not None` in merge_lines: a reprocessed conflict region under show-base -/
  | assertion
  /-- TextConflict._resolve: the winner helper does not exist (`MalformedTransform: versioning no contents`) -/
  | malformed
  deriving DecidableEq, Repr

instance {ε α : Type} [DecidableEq ε] [DecidableEq α] : DecidableEq (Except ε α) := fun x y =>
  match x, y with
  | .ok a, .ok b => if h : a = b then isTrue (by rw [h]) else isFalse (fun e => h (by cases e; rfl))
  | .error a, .error b => if h : a = b then isTrue (by rw [h]) else isFalse (fun e => h (by cases e; rfl))
  | .ok _, .error _ => isFalse (fun e => by cases e)
  | .error _, .ok _ => isFalse (fun e => by cases e)

/-- lines yielded by `merge_lines` for one region -/
def renderRegion (start : Bytes) (baseMarker : Option Bytes) (nl : Bytes) : Region → Except Err (List Line)
  | .unchanged ls => .ok ls
  | .a ls => .ok ls
  | .same ls => .ok ls
  | .b ls => .ok ls
  | .conflict base ta tb =>
    match baseMarker, base with
    | none, _ => .ok ((start ++ nl) :: ta ++ (eq7 ++ nl) :: tb ++ [withName gt7 nameB ++ nl])
    | some bm, some bl =>
      .ok ((start ++ nl) :: ta ++ (bm ++ nl) :: bl ++ (eq7 ++ nl) :: tb ++ [withName gt7 nameB ++ nl])
    | some _, none => .error .assertion

/-- `merge3.Merge3.merge_lines(name_a=TREE, name_b=MERGE-SOURCE, name_base=BASE-REVISION,
start_marker=start, base_marker=…)` over an explicit region list -/
def mergeLines (start : Bytes) (baseMarker : Option Bytes) (nl : Bytes) : List Region → Except Err (List Line)
  | [] => .ok []
  | r :: rs =>
    match renderRegion start baseMarker nl r with
    | .error e => .error e
    | .ok h =>
      match mergeLines start baseMarker nl rs with
      | .error e => .error e
      | .ok t => .ok (h ++ t)

/-- `while any(line.startswith(start_marker) …): start_marker += b"!"`.
The loop ends at the latest when the marker is longer than every line; `fuel`
is chosen accordingly (`freshMarker`), `extendMarker_fresh` proves it suffices. -/
def extendMarker (lines : List Line) : Nat → Bytes → Bytes
  | 0, m => m
  | fuel + 1, m => if lines.any (fun l => m.isPrefixOf l) then extendMarker lines fuel (m ++ [33]) else m

def maxLen : List Line → Nat
  | [] => 0
  | l :: ls => max l.length (maxLen ls)

/-- the start marker `text_merge` hands to merge3 for the given BASE, OTHER, THIS lines -/
def freshMarker (base other this : List Line) : Bytes :=
  extendMarker (base ++ other ++ this) (maxLen (base ++ other ++ this) + 1) sentinel

/-- the body of `iter_merge3`'s loop for one line: (yielded line, sets the flag) -/
def fixLine (marker : Bytes) (l : Line) : Line × Bool :=
  if marker.isPrefixOf l then (lt7 ++ l.drop marker.length, true) else (l, false)

/-- `iter_merge3`: yielded lines and the final value of `retval["text_conflicts"]` -/
def iterMerge3 (marker : Bytes) (lines : List Line) : List Line × Bool :=
  (lines.map fun l => (fixLine marker l).1, lines.any fun l => (fixLine marker l).2)

structure Opts where
  reprocess : Bool
  showBase : Bool
  deriving DecidableEq, Repr

def baseMarkerOf (o : Opts) : Option Bytes :=
  if o.showBase then some (withName bar7 nameBase) else none

/-- `Merge3Merger.text_merge` up to the file content: lines written to the file
and the `text_conflicts` flag.  `this` = THIS lines (`a` of merge3). -/
def textMerge (o : Opts) (base this other : List Line) (regions : List Region) :
    Except Err (List Line × Bool) :=
  if o.showBase && o.reprocess then .error .cantReprocessAndShowBase
  else
    let marker := freshMarker base other this
    match mergeLines (withName marker nameA) (baseMarkerOf o) (newlineOf this) regions with
    | .error e => .error e
    | .ok lines => .ok (iterMerge3 marker lines)

/-- what a reader of the file expects: the same rendering with `<<<<<<< TREE` as start marker -/
def renderSpec (o : Opts) (this : List Line) (regions : List Region) : Except Err (List Line) :=
  mergeLines (withName lt7 nameA) (baseMarkerOf o) (newlineOf this) regions

/-- the lines a region contributes from the inputs (no marker lines) -/
def Region.emitted (showBase : Bool) : Region → List Line
  | .unchanged ls => ls
  | .a ls => ls
  | .same ls => ls
  | .b ls => ls
  | .conflict base ta tb =>
    ta ++ (match showBase, base with | true, some bl => bl | _, _ => []) ++ tb

/-- the cleanly merged text of a conflict-free region list -/
def Region.chosen : Region → List Line
  | .unchanged ls => ls
  | .a ls => ls
  | .same ls => ls
  | .b ls => ls
  | .conflict _ ta _ => ta

/-- explicit hypothesis: the regions denote lines of the inputs (they are
slices of BASE / THIS / OTHER — checked on every generated case) -/
def FromInputs (showBase : Bool) (base this other : List Line) (regions : List Region) : Prop :=
  ∀ r ∈ regions, ∀ l ∈ r.emitted showBase, l ∈ base ++ other ++ this

instance (sb : Bool) (b t o : List Line) (rs : List Region) : Decidable (FromInputs sb b t o rs) := by
  unfold FromInputs; infer_instance

/-- `osutils.split_lines`: split after every `\n` -/
def splitLinesAux : Bytes → Bytes → List Line
  | acc, [] => if acc.isEmpty then [] else [acc.reverse]
  | acc, c :: cs => if c = 10 then (c :: acc).reverse :: splitLinesAux [] cs else splitLinesAux (c :: acc) cs

def splitLines (t : Bytes) : List Line := splitLinesAux [] t

def joinLines (ls : List Line) : Bytes := ls.flatten

/-! ### the per-file outcome of the tree merge -/

/-- `textfile.check_text_lines` for texts shorter than its 1024-byte window: a NUL byte anywhere -/
def isBinary (ls : List Line) : Bool := ls.any fun l => l.contains 0

inductive Outcome where
  /-- no conflict: the file holds `content`; no helper files, no record -/
  | clean (content : Bytes)
  /-- text conflict recorded; file content and the `.BASE/.THIS/.OTHER` helper contents -/
  | textConflict (content base this other : Bytes)
  /-- contents conflict (binary): the file itself is gone, helpers hold the three versions -/
  | contentsConflict (base this other : Bytes)
  | error (e : Err)
  deriving DecidableEq, Repr

/-- `_do_merge_contents` + `merge_contents` + `text_merge` for a path that is a
file in all three trees. -/
def mergeFile (o : Opts) (base this other : List Line) (regions : List Region) : Outcome :=
  match C18.threeWay (joinLines base) (joinLines other) (joinLines this) with
  | .this => .clean (joinLines this)
  | .other => .clean (joinLines other)
  | .conflict =>
    if isBinary base || isBinary other || isBinary this then
      .contentsConflict (joinLines base) (joinLines this) (joinLines other)
    else
      match textMerge o base this other regions with
      | .error e => .error e
      | .ok (lines, false) => .clean (joinLines lines)
      | .ok (lines, true) =>
        .textConflict (joinLines lines) (joinLines base) (joinLines this) (joinLines other)

/-! ### resolution -/

inductive Kind where
  | text | contents
  deriving DecidableEq, Repr

inductive Side where
  | this | other
  deriving DecidableEq, Repr

/-- which name carries the file id -/
inductive IdLoc where
  | item | hThis | hOther | hBase | nowhere
  deriving DecidableEq, Repr

/-- everything the working tree holds for one merged path `p`:
`p`, `p.BASE`, `p.THIS`, `p.OTHER` (content or absent), the conflict record for
`p`, and which of the four names is versioned with the file id. -/
structure Slot where
  file : Option Bytes
  hBase : Option Bytes
  hThis : Option Bytes
  hOther : Option Bytes
  record : Option Kind
  idOn : IdLoc
  deriving DecidableEq, Repr

def Outcome.slot : Outcome → Option Slot
  | .clean c => some ⟨some c, none, none, none, none, .item⟩
  | .textConflict c b t o => some ⟨some c, some b, some t, some o, some .text, .item⟩
  | .contentsConflict b t o => some ⟨none, some b, some t, some o, some .contents, .hOther⟩
  | .error _ => none

def Slot.helper (s : Slot) : Side → Option Bytes
  | .this => s.hThis
  | .other => s.hOther

/-- `TextConflict._resolve(tt, winner)` (swap `p` and `p.WINNER`, move the file
id to the winner content) followed by `cleanup` (delete `p.THIS`, `p.BASE`,
`p.OTHER`) and the removal of the record.  A missing winner helper makes the
transform malformed: nothing changes and the record stays. -/
def resolveText (w : Side) (s : Slot) : Except Err Slot :=
  match s.helper w with
  | none => .error .malformed
  | some c => .ok ⟨some c, none, none, none, none, .item⟩

/-- `ContentsConflict._resolve(tt, suffix_to_remove)` for `take_this`
(`suffix_to_remove = OTHER`) / `take_other` (`= THIS`), then `cleanup`
(`associated_filenames` = `p.BASE`, `p.OTHER` only) and record removal.

Literal: (1) the contents of `p.<remove>` are deleted; (2) if the file id sits
on the helper just deleted and the other helper exists, the id is handed over
to the helper that is kept; (3) the name that carries the file id is renamed
to `p`. -/
def resolveContents (w : Side) (s : Slot) : Slot :=
  -- (1)
  let s1 : Slot := match w with
    | .this => { s with hOther := none }
    | .other => { s with hThis := none }
  -- (2)
  let s1' : Slot := match w with
    | .this => if s1.idOn = .hOther ∧ s1.hThis.isSome then { s1 with idOn := .hThis } else s1
    | .other => if s1.idOn = .hThis ∧ s1.hOther.isSome then { s1 with idOn := .hOther } else s1
  -- (3) rename the versioned name to `p`
  let s2 : Slot := match s1'.idOn with
    | .item => s1'
    | .hThis => { s1' with file := s1'.hThis, hThis := none, idOn := .item }
    | .hOther => { s1' with file := s1'.hOther, hOther := none, idOn := .item }
    | .hBase => { s1' with file := s1'.hBase, hBase := none, idOn := .item }
    | .nowhere => s1'
  -- cleanup + record removal
  { s2 with hBase := none, hOther := none, record := none }

end BreezyVerif.C19
