import BreezyVerif.Model.C22
/-
C22 — stacked branches and the bzr smart server.

A stacked branch keeps only the revisions made after the stacking point in
its own repository; everything older lives in the fallback repository (which
may be stacked itself).  Opened locally, the repository has its fallbacks
attached and every query of `Model/C22.lean` sees the whole graph.  Opened
through the smart server (`RemoteBranch`, `breezy/bzr/remote.py`), the SERVER
opens each repository WITHOUT its fallbacks, and two conversions are computed
from such partial repositories:

* number → identifier: `RemoteBranch.get_rev_id` →
  `RemoteRepository.get_rev_id_for_revno` → verb `Repository.get_rev_id_for_revno`
  → `Repository.get_rev_id_for_revno` (`breezy/repository.py`, with
  `_iter_for_revno`).  When the server's repository runs out of left-hand
  history it answers `history-incomplete (revno, revid)` and the client goes on
  in the fallback repositories from that pair;
* identifier → number: `RemoteBranch.revision_id_to_revno` /
  `revision_id_to_dotted_revno` → verb `Branch.revision_id_to_revno` → the
  server-side `BzrBranch.revision_id_to_dotted_revno` on the branch without
  fallbacks, which refuses with `GhostRevisionsHaveNoRevno` when the walk
  leaves the repository before it meets the revision.

Everything else a `RemoteBranch` answers (the revno map, merge-sorted
iteration, dotted numbers with several components, the specifiers) is computed
on the client from the complete graph by the code modelled in `Model/C22.lean`.

A chain is a list of repositories, the stacked one first; a repository is the
list of revisions it stores itself.
-/
namespace BreezyVerif.C22

/-- the repository `R` (opened without fallbacks) stores revision `x` -/
def stores (g : Graph) (R : List Nat) (x : Nat) : Bool := decide (x < g.length) && R.contains x

/-- the left-most parent as recorded in the revision (stored anywhere or a ghost) -/
def lpRaw (g : Graph) (x : Nat) : Option Nat := (g[x]?).bind List.head?

/-- the answer of `Repository.get_rev_id_for_revno`: `(True, revid)` or
`(False, (closest_revno, closest_revid))` -/
inductive Lookup where
  | found (r : Nat)
  | incomplete (revno : Int) (r : Nat)
  deriving DecidableEq, Repr

/-- `_iter_for_revno(repo, [x], stop_index)` together with the
`RevisionNotPresent` handler of `get_rev_id_for_revno`: `x` is stored and has
revno `k`; `d` more steps along the left-hand ancestry are wanted.
`graph.iter_lefthand_ancestry` yields a revision only after it has found its
parents, so a revision that is not stored ends the walk — it is known by name
(from its child) and is appended to the partial history. -/
def walkFor (g : Graph) (R : List Nat) : Nat → Nat → Int → Lookup
  | 0, x, _ => .found x
  | d + 1, x, k =>
    match lpRaw g x with
    | none => .incomplete k x                  -- no more history: `earliest_revno = known_revno - len(partial_history) + 1`
    | some p =>
      if stores g R p then walkFor g R d p (k - 1)
      else if d = 0 then .found p              -- `len(partial_history) - 1 == distance_from_known`
      else .incomplete (k - 1) p               -- `len(partial_history) <= distance_from_known`

/-- `Repository.get_rev_id_for_revno(revno, known_pair)` on one repository without fallbacks -/
def repoRevIdForRevno (g : Graph) (R : List Nat) (revno : Int) (known : Int × Nat) : Except Err Lookup :=
  if known.1 - revno < 0 then .error .revnoOutOfBounds
  else if !stores g R known.2 then .error .noSuchRevision
  else .ok (walkFor g R (known.1 - revno).toNat known.2 known.1)

/-- `RemoteRepository.get_rev_id_for_revno`: one call to the server (which has
no fallbacks attached); on `history-incomplete` the client asks its fallback
repository — a `RemoteRepository` again, with its own fallbacks — starting from
the pair the server named.

`fx` selects the variant of the code: `false` = a server that does not store the
known revision at all answers `nosuchrevision` and the client gives up;
`true` = the client treats that answer like `history-incomplete` at the known
pair when it has fallbacks (see the finding `remote-stacked-known-revision-only-in-fallback`). -/
def chainRevIdForRevno (fx : Bool) (g : Graph) : List (List Nat) → Int → Int × Nat → Except Err Lookup
  | [], _, known => .ok (.incomplete known.1 known.2)           -- "Not found in any fallbacks"
  | R :: fbs, revno, known =>
    match repoRevIdForRevno g R revno known with
    | .ok (.found r) => .ok (.found r)
    | .ok (.incomplete k x) => chainRevIdForRevno fx g fbs revno (k, x)
    | .error .noSuchRevision =>
      if fx && !fbs.isEmpty then chainRevIdForRevno fx g fbs revno known else .error .noSuchRevision
    | .error e => .error e

/-- `RemoteBranch.get_rev_id(revno)` -/
def remoteGetRevId (fx : Bool) (b : Branch) (chain : List (List Nat)) (revno : Int) : Except Err RevId :=
  if revno = 0 then .ok .null
  else if revno < 0 then .error .revnoOutOfBounds
  else
    match b.tip with
    | none => .error .revnoOutOfBounds           -- known pair (0, null:): the distance is negative
    | some t =>
      match chainRevIdForRevno fx b.g chain revno (b.lastRevno, t) with
      | .ok (.found r) => .ok (.rev r)
      | .ok (.incomplete _ _) => .error .noSuchRevision
      | .error e => .error e

/-- `RemoteBranch.dotted_revno_to_revision_id` (inherited from `Branch`): a
one-component number goes through `get_rev_id`, everything else through the
revno map computed on the client -/
def remoteDottedToRevId (fx : Bool) (b : Branch) (chain : List (List Nat)) (revno : List Int) : Except Err RevId :=
  match revno with
  | [n] => remoteGetRevId fx b chain n
  | _ => b.dottedToRevId revno

/-! ## identifier → number on the server -/

/-- an answer, or the refusal `GhostRevisionsHaveNoRevno` -/
inductive Answer (α : Type) where
  | ok (a : α)
  | refused
  | error (e : Err)
  deriving DecidableEq, Repr

inductive SWalk where
  | found (idx : Nat)
  | ghost
  | ended
  deriving DecidableEq, Repr

/-- `BzrBranch.revision_id_to_revno` on the server: `_extend_partial_history(stop_revision=id)`
walks the left-hand history (here: the list `h`, newest first, `i` revisions
already walked) through the repository `R` until it meets `id`, a revision that
is not stored (`RevisionNotPresent` → `GhostRevisionsHaveNoRevno`) or the end -/
def serverWalk (g : Graph) (R : List Nat) (id : RevId) : List Nat → Nat → SWalk
  | [], _ => .ended
  | x :: rest, i =>
    if !stores g R x then .ghost
    else if revIdIs id x then .found i
    else match rest with
      | [] => if (lpRaw g x).isSome then .ghost else .ended     -- a ghost as left-most parent ends the history
      | _ :: _ => serverWalk g R id rest (i + 1)

/-- verb `Branch.revision_id_to_revno`: `branch.revision_id_to_dotted_revno(id)`
on the branch opened without fallbacks (caches empty: one branch object per
request).  When the mainline is walked to its end without meeting `id` the
revno map of the server's own graph is consulted; that graph is the client's
only if the repository stores the whole ancestry of the tip (otherwise the
case is outside the model). -/
def serverRevIdToDotted (b : Branch) (R : List Nat) (id : RevId) : Answer (List Int) :=
  match id with
  | .null => .ok [0]
  | _ =>
    match serverWalk b.g R id b.history 0 with
    | .found i => .ok [(b.lastRevno : Int) - i]
    | .ghost => .refused
    | .ended =>
      match b.revnoMap with
      | .error e => .error e
      | .ok m =>
        if m.all (fun e => stores b.g R e.1) then
          match id with
          | .rev r =>
            match lookup m r with
            | some d => .ok (d.map Int.ofNat)
            | none => .error .noSuchRevision
          | _ => .error .noSuchRevision
        else .error .unsupported

/-- `RemoteBranch.revision_id_to_dotted_revno` -/
def remoteRevIdToDotted (b : Branch) (R : List Nat) (id : RevId) : Answer (List Int) :=
  serverRevIdToDotted b R id

/-- `RemoteBranch.revision_id_to_revno`: a response with one number is the
revno, a longer one means "not on the mainline" -/
def remoteRevIdToRevno (b : Branch) (R : List Nat) (id : RevId) : Answer Int :=
  match serverRevIdToDotted b R id with
  | .ok [n] => .ok n
  | .ok _ => .error .noSuchRevision
  | .refused => .refused
  | .error e => .error e

/-! ## when does a chain hold a history -/

/-- consecutive elements are child and recorded left-most parent -/
def isLeftChain (g : Graph) : List Nat → Bool
  | [] => true
  | [_] => true
  | a :: c :: rest => (lpRaw g a == some c) && isLeftChain g (c :: rest)

/-- the left-hand history `h` (newest first) is cut into consecutive segments,
the i-th stored by the i-th repository of the chain: each repository stores the
revision at which the previous one ran out.  With `fx` a repository may hold
nothing of the remaining history as long as a later one goes on. -/
def chainCovers (fx : Bool) (g : Graph) : List (List Nat) → List Nat → Bool
  | _, [] => true
  | [], _ :: _ => false
  | R :: fbs, x :: rest =>
    if stores g R x then chainCovers fx g fbs ((x :: rest).dropWhile (stores g R))
    else fx && !fbs.isEmpty && chainCovers fx g fbs (x :: rest)

end BreezyVerif.C22
