import BreezyVerif.Model.C32
/-
C32, part 2 — lock-scope sessions on ONE long-lived branch object, with the
client-side caches modelled as state.

A branch object (`Obj`) carries its logical lock (`LockSt`: mode, re-entrancy
count, the branch token, the `leave_lock_in_place` flag — which, as in
RemoteBranch, persists while the object is unlocked) and the caches that the real classes keep while the
object is locked:

* `tipC`, `tagsC`        — `Branch._last_revision_info_cache`, `_tags_bytes`
                           (BzrBranch locally, RemoteBranch through the server);
* `real`                 — RemoteBranch only: `_real_branch is not None`, the VFS
                           branch object created by `_ensure_real()`;
* `realTipC`, `realTagsC` — the same two caches of that VFS branch object.

Three step functions over the same operations (`SOp`):

* `specStep`  : no caches at all — every read goes to the stored state;
* `lsStep`    : a local `BzrBranch` object (caches `tipC` / `tagsC`);
* `rsStep v`  : a `RemoteBranch` object: RPC verbs through the wire codecs of
  Model/C32.lean (`Branch.lock_write`, `unlock`, `last_revision_info`,
  `set_last_revision_info`, `get_tags_bytes`, `set_tags_bytes`,
  `Repository.insert_stream`) and, for `pull`, delegation to the VFS branch
  object (`RemoteBranch.pull` → `_real_branch.pull`), which works on the stored
  state directly with ITS OWN caches.

Token locks: `lockTok` = `lock_write(token)` with the token the script
remembers (`St.known`: the last untokened lock by anyone) or one never issued,
`leave` / `dontLeave`, and a SECOND holder object (`ownerLock` / `ownerUnlock`,
`St.owner`) that takes and releases the physical lock; the harness-level guards
of those operations (`notWriteLocked`, `ownerBusy`, `ownerNotHeld`, `ownerLent`,
`ownerLockGone`) are part of the model.

`Variant` selects the cache / flag maintenance of the client:
* `leaveReset`  (true = /repo): `lock_write()` without a token sets
  `_leave_lock = False`; false = the flag of an earlier lock cycle survives.
* `tipCoherent`  (true = /repo): `RemoteBranch.set_last_revision_info` ends with
  `_clear_cached_state()` (own + VFS branch) and primes the VFS branch's tip
  cache; false = only `_clear_cached_state_of_remote_branch_only()`, no priming.
* `tagsOwn` (false = as found): `_clear_cached_state_of_remote_branch_only`
  also drops `_tags_bytes` (the tags file can be rewritten by the VFS branch:
  pull merges tags);
* `tagsReal` (false = as found): `_set_tags_bytes` over RPC drops the VFS
  branch's `_tags_bytes`.
-/
namespace BreezyVerif.C32

inductive Mode
  | unlocked | r | w
  deriving DecidableEq, Repr

abbrev Tags := List (Bytes × RevId)

/-- the logical lock of a branch object -/
structure LockSt where
  mode : Mode := .unlocked
  count : Nat := 0
  token : Option Nat := none
  /-- `leave_lock_in_place`: the last unlock does not release the physical lock.  The value persists while the
  object is unlocked (RemoteBranch._leave_lock does); every acquisition of the write lock overwrites it. -/
  leave : Bool := false
  deriving DecidableEq, Repr

structure Obj where
  lk : LockSt := {}
  tipC : Option (Nat × RevId) := none
  tagsC : Option Tags := none
  real : Bool := false
  realTipC : Option (Nat × RevId) := none
  realTagsC : Option Tags := none
  deriving DecidableEq, Repr

structure Variant where
  tipCoherent : Bool
  tagsOwn : Bool
  tagsReal : Bool
  /-- `RemoteBranch.lock_write()` without a token sets `_leave_lock = False` (true = /repo) -/
  leaveReset : Bool := true
  deriving DecidableEq, Repr

/-- session operations on the long-lived object -/
inductive SOp
  | lockW | lockR | unlock
  | lockTok (good : Bool)                         -- lock_write(token = the remembered token / one never issued)
  | leave | dontLeave                             -- leave_lock_in_place() / dont_leave_lock_in_place()
  | ownerLock | ownerUnlock                       -- a SECOND holder object takes / releases the physical lock
  | tip                                           -- last_revision_info()
  | setTip (n : Nat) (r : RevId)                  -- with lock_write: fetch r; b = tip; set_last_revision_info(n, r)
  | pull (ow : Bool) (n : Nat) (r : RevId) (stags : Tags)   -- pull from a branch with tip (n, r) and tags stags
  | tagSet (name : Bytes) (r : RevId)
  | tagDict
  deriving DecidableEq, Repr

/-- does the operation take the write lock (`with branch.lock_write():`) or the read lock -/
def SOp.needsWrite : SOp → Bool
  | .setTip .. | .pull .. | .tagSet .. | .lockW | .lockTok .. => true
  | _ => false

/-! ### the logical lock -/

/-- `lock_write(token)` / `lock_read()` on the logical lock.  `reset`: an acquisition of the write lock without a
token clears the leave flag (both the local LockDir and /repo's RemoteBranch do). -/
def acquire (plock : St → Option Nat → Except Err (Nat × St)) (reset : Bool) (wr : Bool) (tok : Option Nat)
    (k : LockSt) (st : St) : Except Err (LockSt × St) :=
  match k.mode with
  | .unlocked =>
    if wr then
      match plock st tok with
      | .error e => .error e
      | .ok (t, s1) =>
        .ok ({ mode := .w, count := 1, token := some t,
               leave := if tok.isSome then true else if reset then false else k.leave }, s1)
    else .ok ({ k with mode := .r, count := 1, token := none }, st)
  | .r => if wr then .error .readOnly else .ok ({ k with count := k.count + 1 }, st)
  | .w =>
    if wr then
      match tok with
      | some t => if k.token = some t then .ok ({ k with count := k.count + 1 }, st) else .error .tokenMismatch
      | none => .ok ({ k with count := k.count + 1 }, st)
    else .ok ({ k with count := k.count + 1 }, st)

/-- `unlock()`: (error, new lock state, new store, "the object's caches are dropped").  The last unlock of a
write lock releases the physical lock unless the leave flag is set. -/
def release (prel : St → Nat → Except Err St) (k : LockSt) (st : St) : Option Err × LockSt × St × Bool :=
  match k.mode with
  | .unlocked => (some .lockNotHeld, k, st, false)
  | m =>
    if k.count > 1 then (none, { k with count := k.count - 1 }, st, false)
    else
      match m, k.token with
      | .w, some t =>
        if k.leave then (none, { leave := k.leave }, st, true)
        else
          (match prel st t with
           | .ok s1 => (none, { leave := k.leave }, s1, true)
           | .error e => (some e, { leave := k.leave }, st, true))
      | _, _ => (none, { leave := k.leave }, st, true)

/-- the token a script presents: the remembered one, or one that was never issued -/
def sessTok (st : St) (good : Bool) : Option Nat := some ((presented st good).getD st.nextTok)

/-- `leave_lock_in_place()` / `dont_leave_lock_in_place()` (the harness only calls them on a write-locked object) -/
def setLeave (b : Bool) (k : LockSt) : Except Err LockSt :=
  if k.mode = .w then .ok { k with leave := b } else .error .notWriteLocked

/-- the second holder object: `lock_write()` / `unlock()` of ITS lock, seen from the object `k` under test.
The harness refuses (`ownerLent`) to let the owner release a lock that the object currently borrows. -/
def ownerStep (lock : Bool) (k : LockSt) (st : St) : Res × St :=
  if lock then
    match st.owner with
    | some _ => (.err .ownerBusy, st)
    | none =>
      match primLock st none with
      | .error e => (.err e, st)
      | .ok (t, s1) => (.token, { s1 with owner := some t, known := some t })
  else
    match st.owner with
    | none => (.err .ownerNotHeld, st)
    | some ht =>
      if k.mode = .w ∧ k.token = some ht then (.err .ownerLent, st)
      else if st.lock = some ht then (.ok, { st with lock := none, owner := none })
      else (.err .ownerLockGone, { st with owner := none })

def Obj.clear (o : Obj) : Obj :=
  { o with tipC := none, tagsC := none, realTipC := none, realTagsC := none }

/-! ### graph and tag helpers shared by all three step functions -/

def fetchRevs (src : Graph) (r : RevId) : List RevId := (ancestry src (src.length + 1) [r] []).reverse

/-- `a` is `b`, null:, or an ancestor of `b` in `g` (what `graph.heads([a, b]) == {b}` decides) -/
def isAnc (g : Graph) (a b : RevId) : Bool :=
  decide (a = b) || decide (a = nullRev) || decide (a ∈ ancestry g (g.length + 1) [b] [])

/-- `_reconcile_tags`: (source, destination so far, conflicts so far) -/
def reconcile (ow : Bool) : Tags → Tags → Nat → Tags × Nat
  | [], d, c => (d, c)
  | (name, tgt) :: rest, d, c =>
    match lookup name d with
    | some cur =>
      if cur = tgt then reconcile ow rest d c
      else if ow then reconcile ow rest (dset d name tgt) c
      else reconcile ow rest d (c + 1)
    | none => reconcile ow rest (dset d name tgt) c

/-! ### the specification: no caches -/

def specFetch (src : Graph) (st : St) (r : RevId) : St :=
  if r = nullRev then st else addRevs src st (fetchRevs src r)

/-- `GenericInterBranch._update_revisions` on the stored state: fetch, then keep / move the tip or refuse -/
def specUpdate (src : Graph) (ow : Bool) (n : Nat) (r : RevId) (st : St) : Option Err × St :=
  if r = nullRev then (none, st)
  else match lookup r src with
    | none => (some .noSuchRevision, st)
    | some _ =>
      let s1 := addRevs src st (fetchRevs src r)
      if ow then (none, { s1 with tip := (n, r) })
      else if isAnc s1.revs r st.tip.2 then (none, s1)
      else if isAnc s1.revs st.tip.2 r then (none, { s1 with tip := (n, r) })
      else (some .diverged, s1)

/-- `tags.merge_to` on the stored state (nothing is read or written when the source has no tags) -/
def specMerge (ow : Bool) (stags : Tags) (old : Nat × RevId) (s1 : St) : Res × St :=
  match stags with
  | [] => (.moved old s1.tip 0, s1)
  | _ =>
    let (result, k) := reconcile ow stags s1.tags 0
    (.moved old s1.tip k, if result = s1.tags then s1 else { s1 with tags := result })

def specPull (src : Graph) (ow : Bool) (n : Nat) (r : RevId) (stags : Tags) (st : St) : Res × St :=
  match specUpdate src ow n r st with
  | (some e, s1) => (.err e, s1)
  | (none, s1) => specMerge ow stags st.tip s1

def specBody (src : Graph) : SOp → St → Res × St
  | .tip, st => (.info st.tip.1 st.tip.2, st)
  | .setTip n r, st =>
    if r ≠ nullRev ∧ lookup r src = none then (.err .noSuchRevision, st)
    else
      let s1 := specFetch src st r
      (.moved s1.tip (n, r) 0, { s1 with tip := (n, r) })
  | .pull ow n r stags, st => specPull src ow n r stags st
  | .tagSet name r, st => (.ok, { st with tags := dset st.tags name r })
  | .tagDict, st => (.tags st.tags, st)
  | _, st => (.ok, st)

/-- `with branch.lock_write():` / `with branch.lock_read():` around `body`, on the bare lock state -/
def withLkS (wr : Bool) (k : LockSt) (st : St) (body : St → Res × St) : Res × LockSt × St :=
  match acquire primLock true wr none k st with
  | .error e => (.err e, k, st)
  | .ok (k1, s1) =>
    let (res, s2) := body s1
    let (e, k3, s3, _) := release primRelease k1 s2
    ((match e with | some e => .err e | none => res), k3, s3)

def specStep (src : Graph) (k : LockSt) (st : St) : SOp → Res × LockSt × St
  | .lockW =>
    match acquire primLock true true none k st with
    | .error e => (.err e, k, st)
    | .ok (k1, s1) => (.token, k1, { s1 with known := k1.token })
  | .lockTok good =>
    match acquire primLock true true (sessTok st good) k st with
    | .error e => (.err e, k, st)
    | .ok (k1, s1) => (.token, k1, s1)
  | .lockR =>
    match acquire primLock true false none k st with
    | .error e => (.err e, k, st)
    | .ok (k1, s1) => (.ok, k1, s1)
  | .unlock =>
    let (e, k1, s1, _) := release primRelease k st
    ((match e with | some e => .err e | none => .ok), k1, s1)
  | .leave =>
    match setLeave true k with
    | .error e => (.err e, k, st)
    | .ok k1 => (.ok, k1, st)
  | .dontLeave =>
    match setLeave false k with
    | .error e => (.err e, k, st)
    | .ok k1 => (.ok, k1, st)
  | .ownerLock => ((ownerStep true k st).1, k, (ownerStep true k st).2)
  | .ownerUnlock => ((ownerStep false k st).1, k, (ownerStep false k st).2)
  | op => withLkS op.needsWrite k st (specBody src op)

/-! ### a BzrBranch-like object working on the stored state with a pair of caches

Used for the local object (its own caches) and for the VFS branch object of a
RemoteBranch (the `real…` caches). -/

structure Caches where
  tip : Option (Nat × RevId)
  tags : Option Tags
  deriving DecidableEq, Repr

def cReadTip (c : Caches) (st : St) : (Nat × RevId) × Caches :=
  match c.tip with
  | some v => (v, c)
  | none => (st.tip, { c with tip := some st.tip })

def cReadTags (c : Caches) (st : St) : Tags × Caches :=
  match c.tags with
  | some d => (d, c)
  | none => (st.tags, { c with tags := some st.tags })

/-- `BzrBranch.set_last_revision_info`: write, `_clear_cached_state()`, remember the new tip -/
def cSetTip (st : St) (n : Nat) (r : RevId) : Caches × St :=
  ({ tip := some (n, r), tags := none }, { st with tip := (n, r) })

/-- `BzrBranch._set_tags_bytes` -/
def cSetTags (c : Caches) (st : St) (d : Tags) : Caches × St :=
  ({ c with tags := some d }, { st with tags := d })

def updateRevisions (src : Graph) (fetch : St → List RevId → St) (ow : Bool) (n : Nat) (r : RevId)
    (c : Caches) (st : St) (last : RevId) : Option Err × Caches × St :=
  if r = nullRev then (none, c, st)
  else match lookup r src with
    | none => (some .noSuchRevision, c, st)
    | some _ =>
      let s1 := fetch st (fetchRevs src r)
      if ow then (none, cSetTip s1 n r)
      else if isAnc s1.revs r last then (none, c, s1)
      else if isAnc s1.revs last r then (none, cSetTip s1 n r)
      else (some .diverged, c, s1)

def mergeTags (ow : Bool) (stags : Tags) (c : Caches) (st : St) : Nat × Caches × St :=
  match stags with
  | [] => (0, c, st)
  | _ =>
    let (dest, c1) := cReadTags c st
    let (result, k) := reconcile ow stags dest 0
    if result = dest then (k, c1, st)
    else
      let (c2, s2) := cSetTags c1 st result
      (k, c2, s2)

/-- `GenericInterBranch._pull` into a BzrBranch-like object -/
def pullCore (src : Graph) (fetch : St → List RevId → St) (ow : Bool) (n : Nat) (r : RevId) (stags : Tags)
    (c : Caches) (st : St) : Res × Caches × St :=
  let (old, c1) := cReadTip c st
  match updateRevisions src fetch ow n r c1 st old.2 with
  | (some e, c2, s2) => (.err e, c2, s2)
  | (none, c2, s2) =>
    let (k, c3, s3) := mergeTags ow stags c2 s2
    let (new, c4) := cReadTip c3 s3
    (.moved old new k, c4, s3)

/-! ### the local object -/

def Obj.own (o : Obj) : Caches := { tip := o.tipC, tags := o.tagsC }

def Obj.setOwn (o : Obj) (c : Caches) : Obj := { o with tipC := c.tip, tagsC := c.tags }

def lsBody (src : Graph) : SOp → Obj → St → Res × Obj × St
  | .tip, o, st =>
    let (v, c) := cReadTip o.own st
    (.info v.1 v.2, o.setOwn c, st)
  | .setTip n r, o, st =>
    if r ≠ nullRev ∧ lookup r src = none then (.err .noSuchRevision, o, st)
    else
      let s1 := specFetch src st r
      let (before, _) := cReadTip o.own s1
      let (c2, s2) := cSetTip s1 n r
      (.moved before (n, r) 0, o.setOwn c2, s2)
  | .pull ow n r stags, o, st =>
    let (res, c, s1) := pullCore src (addRevs src) ow n r stags o.own st
    (res, o.setOwn c, s1)
  | .tagSet name r, o, st =>
    let (d, c1) := cReadTags o.own st
    let (c2, s2) := cSetTags c1 st (dset d name r)
    (.ok, o.setOwn c2, s2)
  | .tagDict, o, st =>
    let (d, c1) := cReadTags o.own st
    (.tags d, o.setOwn c1, st)
  | _, o, st => (.ok, o, st)

/-- `with branch.lock_write():` / `with branch.lock_read():` around `body`, on an object: leaving the
outermost lock drops the object's caches -/
def withLk (plock : St → Option Nat → Except Err (Nat × St)) (prel : St → Nat → Except Err St) (reset : Bool)
    (wr : Bool) (o : Obj) (st : St) (body : Obj → St → Res × Obj × St) : Res × Obj × St :=
  match acquire plock reset wr none o.lk st with
  | .error e => (.err e, o, st)
  | .ok (k1, s1) =>
    let (res, o2, s2) := body { o with lk := k1 } s1
    let (e, k3, s3, clr) := release prel o2.lk s2
    ((match e with | some e => .err e | none => res),
     (if clr then { o2 with lk := k3 }.clear else { o2 with lk := k3 }), s3)

/-- lock plumbing common to the local and the remote object: `plock` / `prel`
reach the physical lock, `body` runs inside the lock scope of the operation -/
def sessStep (plock : St → Option Nat → Except Err (Nat × St)) (prel : St → Nat → Except Err St) (reset : Bool)
    (body : SOp → Obj → St → Res × Obj × St) (o : Obj) (st : St) : SOp → Res × Obj × St
  | .lockW =>
    match acquire plock reset true none o.lk st with
    | .error e => (.err e, o, st)
    | .ok (k1, s1) => (.token, { o with lk := k1 }, { s1 with known := k1.token })
  | .lockTok good =>
    match acquire plock reset true (sessTok st good) o.lk st with
    | .error e => (.err e, o, st)
    | .ok (k1, s1) => (.token, { o with lk := k1 }, s1)
  | .lockR =>
    match acquire plock reset false none o.lk st with
    | .error e => (.err e, o, st)
    | .ok (k1, s1) => (.ok, { o with lk := k1 }, s1)
  | .unlock =>
    let (e, k1, s1, clr) := release prel o.lk st
    ((match e with | some e => .err e | none => .ok),
     (if clr then { o with lk := k1 }.clear else { o with lk := k1 }), s1)
  | .leave =>
    match setLeave true o.lk with
    | .error e => (.err e, o, st)
    | .ok k1 => (.ok, { o with lk := k1 }, st)
  | .dontLeave =>
    match setLeave false o.lk with
    | .error e => (.err e, o, st)
    | .ok k1 => (.ok, { o with lk := k1 }, st)
  | .ownerLock => ((ownerStep true o.lk st).1, o, (ownerStep true o.lk st).2)
  | .ownerUnlock => ((ownerStep false o.lk st).1, o, (ownerStep false o.lk st).2)
  | op => withLk plock prel reset op.needsWrite o st (body op)

def lsStep (src : Graph) : Obj → St → SOp → Res × Obj × St :=
  sessStep primLock primRelease true (lsBody src)

/-! ### the remote object -/

def rReadTip (src : Graph) (st : St) (ex : List RevId) : Except Err (Nat × RevId) :=
  let (g, _) := serve src st ex { verb := .lastRevisionInfo, args := [] }
  match g.args with
  | [_, n, r] =>
    (match BreezyVerif.C33.parseDec n with
     | some n => .ok (n, r)
     | none => .error .protocol)
  | _ => .error .protocol

def rWriteTip (src : Graph) (st : St) (ex : List RevId) (t n : Nat) (r : RevId) : Except Err St :=
  let (g, s1) := serve src st ex
    { verb := .setLastRevisionInfo, args := [encTok (some t), BreezyVerif.C33.toDec n, r] }
  if g.okay then .ok s1 else .error (respErr g)

def rReadTags (src : Graph) (st : St) (ex : List RevId) : Except Err Tags :=
  let (g, _) := serve src st ex { verb := .getTagsBytes, args := [] }
  match g.payload with
  | .tags d => .ok d
  | _ => .error .protocol

def rWriteTags (src : Graph) (st : St) (ex : List RevId) (t : Nat) (d : Tags) : Except Err St :=
  let (g, s1) := serve src st ex { verb := .setTagsBytes, args := [encTok (some t)], payload := .tags d }
  if g.okay then .ok s1 else .error (respErr g)

def rFetch (src : Graph) (ex : List RevId) (st : St) (rs : List RevId) : St :=
  (serve src st ex { verb := .insertStream, args := [], payload := .revs rs }).2

/-- `Branch.last_revision_info()` on the RemoteBranch: cache, else RPC -/
def rTip (src : Graph) (ex : List RevId) (o : Obj) (st : St) : Except Err ((Nat × RevId) × Obj) :=
  match o.tipC with
  | some v => .ok (v, o)
  | none =>
    match rReadTip src st ex with
    | .error e => .error e
    | .ok v => .ok (v, { o with tipC := some v })

/-- `RemoteBranch._get_tags_bytes()`: cache, else RPC -/
def rTags (src : Graph) (ex : List RevId) (o : Obj) (st : St) : Except Err (Tags × Obj) :=
  match o.tagsC with
  | some d => .ok (d, o)
  | none =>
    match rReadTags src st ex with
    | .error e => .error e
    | .ok d => .ok (d, { o with tagsC := some d })

/-- what `RemoteBranch.set_last_revision_info` does to the caches after the verb succeeded -/
def afterSetTip (v : Variant) (o : Obj) (n : Nat) (r : RevId) : Obj :=
  if v.tipCoherent then
    -- _clear_cached_state() (own + VFS branch), own cache := new tip, VFS branch's cache primed
    { o with tipC := some (n, r), tagsC := none,
             realTipC := if o.real then some (n, r) else none, realTagsC := none }
  else
    -- _clear_cached_state_of_remote_branch_only(), own cache := new tip
    { o with tipC := some (n, r), tagsC := if v.tagsOwn then none else o.tagsC }

def rsBody (v : Variant) (src : Graph) (ex : List RevId) : SOp → Obj → St → Res × Obj × St
  | .tip, o, st =>
    match rTip src ex o st with
    | .error e => (.err e, o, st)
    | .ok (c, o1) => (.info c.1 c.2, o1, st)
  | .setTip n r, o, st =>
    if r ≠ nullRev ∧ lookup r src = none then (.err .noSuchRevision, o, st)
    else
      let s1 := if r = nullRev then st else rFetch src ex st (fetchRevs src r)
      match rTip src ex o s1 with
      | .error e => (.err e, o, s1)
      | .ok (before, o1) =>
        match o1.lk.token with
        | none => (.err .protocol, o1, s1)
        | some t =>
          match rWriteTip src s1 ex t n r with
          | .error e => (.err e, o1, s1)
          | .ok s2 => (.moved before (n, r) 0, afterSetTip v o1 n r, s2)
  | .pull ow n r stags, o, st =>
    -- _clear_cached_state_of_remote_branch_only(); _ensure_real(); _real_branch.pull(...)
    let o1 : Obj := { o with tipC := none, tagsC := if v.tagsOwn then none else o.tagsC, real := true }
    let (res, c, s1) := pullCore src (rFetch src ex) ow n r stags { tip := o1.realTipC, tags := o1.realTagsC } st
    (res, { o1 with realTipC := c.tip, realTagsC := c.tags }, s1)
  | .tagSet name r, o, st =>
    match rTags src ex o st with
    | .error e => (.err e, o, st)
    | .ok (d, o1) =>
      let d' := dset d name r
      let o2 : Obj := { o1 with tagsC := some d' }
      match o2.lk.token with
      | none => (.err .protocol, o2, st)
      | some t =>
        match rWriteTags src st ex t d' with
        | .error e => (.err e, o2, st)
        | .ok s1 => (.ok, { o2 with realTagsC := if v.tagsReal then none else o2.realTagsC }, s1)
  | .tagDict, o, st =>
    match rTags src ex o st with
    | .error e => (.err e, o, st)
    | .ok (d, o1) => (.tags d, o1, st)
  | _, o, st => (.ok, o, st)

def rsStep (v : Variant) (src : Graph) (ex : List RevId) : Obj → St → SOp → Res × Obj × St :=
  sessStep (fun st tok => rLock src st ex tok) (fun st t => rUnlock src st ex t) v.leaveReset (rsBody v src ex)

/-- the client as it is in /repo for the tip caches, with the tag caches kept coherent -/
def Variant.fixed : Variant := { tipCoherent := true, tagsOwn := true, tagsReal := true }
/-- /repo before f93993e: tip caches coherent, tag caches not -/
def Variant.asFound : Variant := { tipCoherent := true, tagsOwn := false, tagsReal := false }

/-- a client whose `set_last_revision_info` only runs `_clear_cached_state_of_remote_branch_only()` and does
not prime the VFS branch's tip cache (a regression the check must catch) -/
def Variant.seeded : Variant := { tipCoherent := false, tagsOwn := true, tagsReal := true }

/-- a client whose `lock_write()` without a token no longer resets `_leave_lock`: the flag of an earlier lock
cycle (token lock, `leave_lock_in_place()`) survives into a later cycle of the same object -/
def Variant.leaveSeeded : Variant := { tipCoherent := true, tagsOwn := true, tagsReal := true, leaveReset := false }

/-! ### whole sessions -/

def runSess (step : Obj → St → SOp → Res × Obj × St) : Obj → St → List SOp → List Res × Obj × St
  | o, st, [] => ([], o, st)
  | o, st, op :: ops =>
    let (r, o1, s1) := step o st op
    let (rs, o2, s2) := runSess step o1 s1 ops
    (r :: rs, o2, s2)

def runSpec (src : Graph) : LockSt → St → List SOp → List Res × LockSt × St
  | k, st, [] => ([], k, st)
  | k, st, op :: ops =>
    let (r, k1, s1) := specStep src k st op
    let (rs, k2, s2) := runSpec src k1 s1 ops
    (r :: rs, k2, s2)

end BreezyVerif.C32
