import BreezyVerif.Model.C39
import BreezyVerif.Lemmas.C39Apply
import BreezyVerif.Lemmas.C39Parse
/-! C39 helper lemmas: the hunks `internal_diff` builds are well formed; line statistics. -/
namespace BreezyVerif.C39

def insCount (hl : List HLine) : Nat := (hl.filter (fun l => match l with | .ins _ => true | _ => false)).length
def remCount (hl : List HLine) : Nat := (hl.filter (fun l => match l with | .rem _ => true | _ => false)).length
def ctxCount (hl : List HLine) : Nat := (hl.filter (fun l => match l with | .ctx _ => true | _ => false)).length

theorem counts_append (x y : List HLine) :
    origCount (x ++ y) = origCount x + origCount y ∧ modCount (x ++ y) = modCount x + modCount y ∧
    insCount (x ++ y) = insCount x + insCount y ∧ remCount (x ++ y) = remCount x + remCount y ∧
    ctxCount (x ++ y) = ctxCount x + ctxCount y := by
  simp [origCount, modCount, insCount, remCount, ctxCount]

theorem counts_nil : origCount [] = 0 ∧ modCount [] = 0 ∧ insCount [] = 0 ∧ remCount [] = 0 ∧ ctxCount [] = 0 := by
  simp [origCount, modCount, insCount, remCount, ctxCount]

theorem counts_cons_ctx (x : Line) (hl : List HLine) :
    origCount (.ctx x :: hl) = origCount hl + 1 ∧ modCount (.ctx x :: hl) = modCount hl + 1 ∧
    insCount (.ctx x :: hl) = insCount hl ∧ remCount (.ctx x :: hl) = remCount hl ∧
    ctxCount (.ctx x :: hl) = ctxCount hl + 1 := by
  simp [origCount, modCount, insCount, remCount, ctxCount, cOrig, cMod]; omega

theorem counts_cons_rem (x : Line) (hl : List HLine) :
    origCount (.rem x :: hl) = origCount hl + 1 ∧ modCount (.rem x :: hl) = modCount hl ∧
    insCount (.rem x :: hl) = insCount hl ∧ remCount (.rem x :: hl) = remCount hl + 1 ∧
    ctxCount (.rem x :: hl) = ctxCount hl := by
  simp [origCount, modCount, insCount, remCount, ctxCount, cOrig, cMod]; omega

theorem counts_cons_ins (x : Line) (hl : List HLine) :
    origCount (.ins x :: hl) = origCount hl ∧ modCount (.ins x :: hl) = modCount hl + 1 ∧
    insCount (.ins x :: hl) = insCount hl + 1 ∧ remCount (.ins x :: hl) = remCount hl ∧
    ctxCount (.ins x :: hl) = ctxCount hl := by
  simp [origCount, modCount, insCount, remCount, ctxCount, cOrig, cMod]; omega

theorem counts_ctx (xs : List Line) :
    origCount (xs.map .ctx) = xs.length ∧ modCount (xs.map .ctx) = xs.length ∧
    insCount (xs.map .ctx) = 0 ∧ remCount (xs.map .ctx) = 0 ∧ ctxCount (xs.map .ctx) = xs.length := by
  induction xs with
  | nil => simpa using counts_nil
  | cons x xs ih =>
    obtain ⟨c1, c2, c3, c4, c5⟩ := counts_cons_ctx x (xs.map .ctx)
    simp only [List.map_cons, List.length_cons]
    omega

theorem counts_rem (xs : List Line) :
    origCount (xs.map .rem) = xs.length ∧ modCount (xs.map .rem) = 0 ∧
    insCount (xs.map .rem) = 0 ∧ remCount (xs.map .rem) = xs.length ∧ ctxCount (xs.map .rem) = 0 := by
  induction xs with
  | nil => simpa using counts_nil
  | cons x xs ih =>
    obtain ⟨c1, c2, c3, c4, c5⟩ := counts_cons_rem x (xs.map .rem)
    simp only [List.map_cons, List.length_cons]
    omega

theorem counts_ins (xs : List Line) :
    origCount (xs.map .ins) = 0 ∧ modCount (xs.map .ins) = xs.length ∧
    insCount (xs.map .ins) = xs.length ∧ remCount (xs.map .ins) = 0 ∧ ctxCount (xs.map .ins) = 0 := by
  induction xs with
  | nil => simpa using counts_nil
  | cons x xs ih =>
    obtain ⟨c1, c2, c3, c4, c5⟩ := counts_cons_ins x (xs.map .ins)
    simp only [List.map_cons, List.length_cons]
    omega

/-- line counts of one valid opcode -/
theorem counts_op (a b : List Line) (o : Op) (hv : validOp a b o = true) :
    origCount (opLines a b o) = o.i2 - o.i1 ∧ modCount (opLines a b o) = o.j2 - o.j1 ∧
    insCount (opLines a b o) + ctxCount (opLines a b o) = o.j2 - o.j1 ∧
    remCount (opLines a b o) + ctxCount (opLines a b o) = o.i2 - o.i1 := by
  simp only [validOp, Bool.and_eq_true, decide_eq_true_eq] at hv
  obtain ⟨⟨⟨⟨hi, hj⟩, hia⟩, hjb⟩, htag⟩ := hv
  have la := length_slice a o.i1 o.i2 hia
  have lb := length_slice b o.j1 o.j2 hjb
  unfold opLines
  cases ht : o.tag with
  | equal =>
    simp only [ht, Bool.and_eq_true, decide_eq_true_eq] at htag
    obtain ⟨c1, c2, c3, c4, c5⟩ := counts_ctx (slice a o.i1 o.i2)
    simp only []
    omega
  | replace =>
    obtain ⟨c1, c2, c3, c4, c5⟩ := counts_rem (slice a o.i1 o.i2)
    obtain ⟨d1, d2, d3, d4, d5⟩ := counts_ins (slice b o.j1 o.j2)
    obtain ⟨e1, e2, e3, e4, e5⟩ := counts_append ((slice a o.i1 o.i2).map .rem) ((slice b o.j1 o.j2).map .ins)
    simp only []
    omega
  | delete =>
    simp only [ht, decide_eq_true_eq] at htag
    obtain ⟨c1, c2, c3, c4, c5⟩ := counts_rem (slice a o.i1 o.i2)
    simp only []
    omega
  | insert =>
    simp only [ht, decide_eq_true_eq] at htag
    obtain ⟨c1, c2, c3, c4, c5⟩ := counts_ins (slice b o.j1 o.j2)
    simp only []
    omega

theorem counts_chain (a b : List Line) (ops : List Op) (i j ei ej : Nat)
    (hv : validChain a b i j ops = some (ei, ej)) :
    origCount (ops.flatMap (opLines a b)) = ei - i ∧ modCount (ops.flatMap (opLines a b)) = ej - j ∧
    insCount (ops.flatMap (opLines a b)) + ctxCount (ops.flatMap (opLines a b)) = ej - j ∧
    remCount (ops.flatMap (opLines a b)) + ctxCount (ops.flatMap (opLines a b)) = ei - i ∧
    (∀ l, ops.getLast? = some l → l.i2 = ei ∧ l.j2 = ej ∧ ei ≤ a.length ∧ ej ≤ b.length) := by
  induction ops generalizing i j with
  | nil =>
    simp only [validChain, Option.some.injEq, Prod.mk.injEq] at hv
    obtain ⟨rfl, rfl⟩ := hv
    simp [origCount, modCount, insCount, remCount, ctxCount]
  | cons o os ih =>
    have hle := validChain_le a b (o :: os) i j ei ej hv
    unfold validChain at hv
    split at hv
    · rename_i hc
      obtain ⟨hi1, hj1, hvo⟩ := hc
      have hvo' := hvo
      simp only [validOp, Bool.and_eq_true, decide_eq_true_eq] at hvo'
      obtain ⟨⟨⟨⟨hi, hj⟩, hia⟩, hjb⟩, _⟩ := hvo'
      have hle2 := validChain_le a b os _ _ ei ej hv
      obtain ⟨r1, r2, r3, r4, r5⟩ := ih _ _ hv
      obtain ⟨o1, o2, o3, o4⟩ := counts_op a b o hvo
      obtain ⟨e1, e2, e3, e4, e5⟩ := counts_append (opLines a b o) (os.flatMap (opLines a b))
      simp only [List.flatMap_cons]
      refine ⟨by omega, by omega, by omega, by omega, ?_⟩
      intro l hl
      cases os with
      | nil =>
        simp only [List.getLast?_singleton, Option.some.injEq] at hl
        simp only [validChain, Option.some.injEq, Prod.mk.injEq] at hv
        subst hl
        exact ⟨hv.1, hv.2, by omega, by omega⟩
      | cons o' os' =>
        rw [List.getLast?_cons_cons] at hl
        exact r5 l hl
    · simp at hv

def totalIns (hs : List Hunk) : Nat := (hs.map (fun h => insCount h.lines)).sum
def totalRem (hs : List Hunk) : Nat := (hs.map (fun h => remCount h.lines)).sum

theorem stats_eq (hs : List Hunk) : stats hs = (totalIns hs, totalRem hs, hs.length) := rfl

/-- per-group facts: the hunk is well formed, and its insert/remove counts balance the positions -/
theorem groups_wf (a b : List Line) (gs : List Group) (pi pj : Nat)
    (hla : a.length < 2147483647) (hlb : b.length < 2147483647)
    (hpi : pi ≤ a.length) (hpj : pj ≤ b.length)
    (hv : validGroupsFrom a b pi pj gs = true) (hs : List Hunk) (hm : gs.mapM (groupHunk a b) = some hs) :
    (∀ h ∈ hs, wfHunk h = true ∧ h.tail = none ∧ 1 ≤ h.origPos ∧ 1 ≤ h.modPos) ∧
    totalIns hs + (a.length - pi) = totalRem hs + (b.length - pj) ∧ hs.length = gs.length := by
  induction gs generalizing pi pj hs with
  | nil =>
    simp only [validGroupsFrom, decide_eq_true_eq] at hv
    simp only [List.mapM_nil, Option.pure_def, Option.some.injEq] at hm
    subst hm
    have := congrArg List.length hv
    simp only [List.length_drop] at this
    simp [totalIns, totalRem, this]
  | cons g gs ih =>
    unfold validGroupsFrom at hv
    match g, hv with
    | o :: os, hv =>
      simp only [Bool.and_eq_true, decide_eq_true_eq] at hv
      obtain ⟨⟨⟨⟨hpi', hpj'⟩, hgap⟩, hgaplen⟩, hrest⟩ := hv
      cases hc : validChain a b o.i1 o.j1 (o :: os) with
      | none => simp [hc] at hrest
      | some p =>
        obtain ⟨ei, ej⟩ := p
        simp only [hc] at hrest
        obtain ⟨c1, c2, c3, c4, c5⟩ := counts_chain a b (o :: os) _ _ ei ej hc
        have hle := validChain_le a b (o :: os) _ _ ei ej hc
        cases hl : (o :: os).getLast? with
        | none => simp at hl
        | some l =>
          obtain ⟨l1, l2, l3, l4⟩ := c5 l hl
          simp only [List.mapM_cons, groupHunk, List.head?_cons, hl] at hm
          cases hm' : gs.mapM (groupHunk a b) with
          | none => simp [hm'] at hm
          | some hs' =>
            simp only [hm', Option.pure_def, Option.bind_eq_bind, Option.bind_some, Option.some.injEq] at hm
            subst hm
            obtain ⟨w, bal, len⟩ := ih ei ej l3 l4 hrest hs' hm'
            refine ⟨?_, ?_, by simp [len]⟩
            · intro h hh
              rcases List.mem_cons.mp hh with rfl | hh
              · simp only [wfHunk, small, tailOk, Bool.decide_and, Bool.and_eq_true, decide_eq_true_eq,
                  decide_true, and_true]
                refine ⟨⟨by omega, by omega, ?_⟩, trivial, by omega, by omega⟩
                refine ⟨by omega, by omega, by omega, by omega⟩
              · exact w h hh
            · simp only [totalIns, totalRem, List.map_cons, List.sum_cons] at bal ⊢
              omega

theorem fixFirst_props (a b : List Line) (hs : List Hunk)
    (hw : ∀ h ∈ hs, wfHunk h = true ∧ h.tail = none) :
    (∀ h ∈ fixFirst a b hs, wfHunk h = true ∧ h.tail = none) ∧
    totalIns (fixFirst a b hs) = totalIns hs ∧ totalRem (fixFirst a b hs) = totalRem hs ∧
    (fixFirst a b hs).length = hs.length ∧ (hs ≠ [] → fixFirst a b hs ≠ []) := by
  cases hs with
  | nil => simp [fixFirst, totalIns, totalRem]
  | cons h hs =>
    have hh := hw h (by simp)
    have hrest := fun x hx => hw x (List.mem_cons_of_mem _ hx)
    have hw' := hh.1
    simp only [wfHunk, small, Bool.decide_and, Bool.and_eq_true, decide_eq_true_eq] at hw'
    simp only [fixFirst]
    split
    · split
      · refine ⟨?_, by simp [totalIns, totalRem], by simp [totalIns, totalRem], by simp, by simp⟩
        intro x hx
        rcases List.mem_cons.mp hx with rfl | hx
        · simp only [wfHunk, small, Bool.decide_and, Bool.and_eq_true, decide_eq_true_eq]
          exact ⟨⟨hw'.1, hw'.2.1, ⟨by omega, hw'.2.2.1.2.1, hw'.2.2.1.2.2.1, hw'.2.2.1.2.2.2⟩, hw'.2.2.2⟩, hh.2⟩
        · exact hrest x hx
      · exact ⟨hw, rfl, rfl, rfl, by simp⟩
    · split
      · split
        · refine ⟨?_, by simp [totalIns, totalRem], by simp [totalIns, totalRem], by simp, by simp⟩
          intro x hx
          rcases List.mem_cons.mp hx with rfl | hx
          · simp only [wfHunk, small, Bool.decide_and, Bool.and_eq_true, decide_eq_true_eq]
            exact ⟨⟨hw'.1, hw'.2.1, ⟨hw'.2.2.1.1, hw'.2.2.1.2.1, by omega, hw'.2.2.1.2.2.2⟩, hw'.2.2.2⟩, hh.2⟩
          · exact hrest x hx
        · exact ⟨hw, rfl, rfl, rfl, by simp⟩
      · exact ⟨hw, rfl, rfl, rfl, by simp⟩

end BreezyVerif.C39
