import BreezyVerif.Model.C03Stacked
import BreezyVerif.Lemmas.C03Seq
/-
C03 — the chain of streams from a stacked repository and its fallback yields
exactly what recreating the search in the union graph yields.
-/
namespace BreezyVerif.C03

open BreezyVerif.C33 (PMap parentsOf parentsL bfs Reach mem_parentsL)

theorem mem_served (r : Repo) (start excl : List Rev) (k : Rev) :
    k ∈ served r start excl ↔ Reach (graph r) excl start k ∧ k ∉ excl ∧ hasRev r k = true := by
  obtain ⟨s, hs, hinv⟩ := C33.bfs_inv (graph r) start excl
  unfold served
  rw [hs]
  simp only [C33.mem_included hinv]
  constructor
  · rintro ⟨h1, h2, ps, hps⟩
    refine ⟨h1, h2, ?_⟩
    rw [parentsOf_graph] at hps
    unfold hasRev
    cases hg : get r.revs k with
    | none => simp [hg] at hps
    | some v => rfl
  · rintro ⟨h1, h2, h3⟩
    obtain ⟨rec, hrec⟩ := (hasRev_iff ..).mp h3
    exact ⟨h1, h2, rec.parents, by rw [parentsOf_graph, hrec]; rfl⟩

theorem hasRev_union (st fb : Repo) (k : Rev) : hasRev (unionRepo st fb) k = (hasRev st k || hasRev fb k) := by
  unfold hasRev unionRepo
  cases h : get st.revs k with
  | some v => simp [get_append_some h]
  | none => simp [get_append_none h]

theorem parentsOf_union (st fb : Repo) (k : Rev) :
    parentsOf (graph (unionRepo st fb)) k =
      match parentsOf (graph st) k with
      | some ps => some ps
      | none => parentsOf (graph fb) k := by
  simp only [parentsOf_graph]
  unfold unionRepo
  cases h : get st.revs k with
  | some v => simp [get_append_some h]
  | none => simp [get_append_none h]

theorem parentsOf_none_of_absent {r : Repo} {k : Rev} (h : hasRev r k = false) : parentsOf (graph r) k = none := by
  rw [parentsOf_graph]
  unfold hasRev at h
  cases hg : get r.revs k with
  | none => rfl
  | some v => simp [hg] at h

theorem hasRev_of_parentsOf {r : Repo} {k : Rev} {ps : List Rev} (h : parentsOf (graph r) k = some ps) :
    hasRev r k = true := by
  rw [parentsOf_graph] at h
  unfold hasRev
  cases hg : get r.revs k with
  | none => simp [hg] at h
  | some v => rfl

theorem disjoint_absent {st fb : Repo} (hd : disjointRevs st fb = true) {k : Rev} (hs : hasRev st k = true) :
    hasRev fb k = false := by
  obtain ⟨rec, hrec⟩ := (hasRev_iff ..).mp hs
  unfold disjointRevs at hd
  simpa using List.all_eq_true.mp hd (k, rec) (get_mem hrec)

theorem fallbackClosed_parent {st fb : Repo} (hc : fallbackClosed st fb = true) {j k : Rev} {ps : List Rev}
    (hps : parentsOf (graph fb) j = some ps) (hk : k ∈ ps) : hasRev st k = false := by
  rw [parentsOf_graph] at hps
  cases hrec : get fb.revs j with
  | none => simp [hrec] at hps
  | some rec =>
    simp only [hrec, Option.map_some, Option.some.injEq] at hps
    subst hps
    unfold fallbackClosed at hc
    have := List.all_eq_true.mp hc (j, rec) (get_mem hrec)
    simpa using List.all_eq_true.mp this k hk

section Chain
variable {st fb : Repo} {start excl : List Rev}

/-- a key reached in the stacked repository's graph that the repository lacks is a start key or
a parent of a streamed revision: the refined search starts from it -/
theorem absent_reached_is_head (hk : Reach (graph st) excl start k) (habs : hasRev st k = false) (hne : k ∉ excl) :
    k ∈ (referencedRevs .allParents st (served st start excl) ++ start).filter
      fun k => !decide (k ∈ served st start excl) && !decide (k ∈ excl) := by
  have hnm : k ∉ served st start excl := by
    intro hm
    rw [((mem_served ..).mp hm).2.2] at habs
    cases habs
  refine List.mem_filter.mpr ⟨?_, by simp [hnm, hne]⟩
  cases hk with
  | base hs => exact List.mem_append_right _ hs
  | @step j _ ps hj hjs hps hkp =>
    apply List.mem_append_left
    unfold referencedRevs
    refine List.mem_flatMap.mpr ⟨j, (mem_served ..).mpr ⟨hj, hjs, hasRev_of_parentsOf hps⟩, ?_⟩
    exact mem_parentsL.mpr ⟨ps, hps, hkp⟩

/-- every start key of the refined search is reached by the original search in the stacked graph -/
theorem head_reached {h : Rev}
    (hh : h ∈ (referencedRevs .allParents st (served st start excl) ++ start).filter
      fun k => !decide (k ∈ served st start excl) && !decide (k ∈ excl)) :
    Reach (graph st) excl start h := by
  obtain ⟨hmem, _⟩ := List.mem_filter.mp hh
  rcases List.mem_append.mp hmem with hr | hs
  · unfold referencedRevs at hr
    obtain ⟨j, hj, hpj⟩ := List.mem_flatMap.mp hr
    obtain ⟨hjr, hjs, _⟩ := (mem_served ..).mp hj
    obtain ⟨ps, hps, hkp⟩ := mem_parentsL.mp hpj
    exact Reach.step hjr hjs hps hkp
  · exact Reach.base hs

/-- a revision of the stacked repository met by the fallback's walk was reached by the stacked repository's walk -/
theorem fb_reached_in_st (hc : fallbackClosed st fb = true) {heads excl2 : List Rev}
    (hheads : ∀ h ∈ heads, Reach (graph st) excl start h) {k : Rev}
    (hk : Reach (graph fb) excl2 heads k) (hs : hasRev st k = true) : Reach (graph st) excl start k := by
  cases hk with
  | base hh => exact hheads _ hh
  | step _ _ hps hkp =>
    rw [fallbackClosed_parent hc hps hkp] at hs
    cases hs

theorem reach_st_to_union (hk : Reach (graph st) excl start k) : Reach (graph (unionRepo st fb)) excl start k := by
  induction hk with
  | base hs => exact Reach.base hs
  | step _ hjs hps hkp ih =>
    refine Reach.step ih hjs ?_ hkp
    rw [parentsOf_union, hps]

end Chain

/-- The chain of streams from a repository stacked on a (disjoint, self-contained) fallback yields
exactly the revisions the search stands for in the union graph. -/
theorem chain_mem_iff (st fb : Repo) (hd : disjointRevs st fb = true) (hc : fallbackClosed st fb = true)
    (start excl : List Rev) (k : Rev) :
    (k ∈ (chainRevs .allParents st fb start excl).1 ∨ k ∈ (chainRevs .allParents st fb start excl).2) ↔
      k ∈ served (unionRepo st fb) start excl := by
  -- abbreviations
  have hm1 : (chainRevs .allParents st fb start excl).1 = served st start excl := rfl
  generalize hheads : ((referencedRevs .allParents st (served st start excl) ++ start).filter
      fun k => !decide (k ∈ served st start excl) && !decide (k ∈ excl)) = heads
  generalize hexcl2 : excl ++ start.filter (· ∈ served st start excl) = excl2
  have hm2 : (chainRevs .allParents st fb start excl).2 = served fb heads excl2 := by
    unfold chainRevs
    simp only [hheads, hexcl2]
  rw [hm1, hm2]
  have hheadR : ∀ h ∈ heads, Reach (graph st) excl start h := by
    intro h hh; rw [← hheads] at hh; exact head_reached hh
  have hexcl_sub : ∀ x, x ∉ excl2 → x ∉ excl := by
    intro x hx hxe; apply hx; rw [← hexcl2]; exact List.mem_append_left _ hxe
  have hexcl2_of : ∀ x, x ∉ excl → hasRev st x = false → x ∉ excl2 := by
    intro x hx hs hx2
    rw [← hexcl2] at hx2
    rcases List.mem_append.mp hx2 with h | h
    · exact hx h
    · have := (List.mem_filter.mp h).2
      simp only [decide_eq_true_eq] at this
      rw [((mem_served ..).mp this).2.2] at hs
      cases hs
  -- a step of the fallback's walk is a step of the union's walk
  have fb_to_union : ∀ {k}, Reach (graph fb) excl2 heads k → Reach (graph (unionRepo st fb)) excl start k := by
    intro k hk
    induction hk with
    | base hh => exact reach_st_to_union (hheadR _ hh)
    | step _ hjs hps hkp ih =>
      refine Reach.step ih (hexcl_sub _ hjs) ?_ hkp
      have hfbj := hasRev_of_parentsOf hps
      rename_i j _ _ _
      have hstj : hasRev st j = false := by
        cases hsj : hasRev st j with
        | false => rfl
        | true => rw [disjoint_absent hd hsj] at hfbj; cases hfbj
      rw [parentsOf_union, parentsOf_none_of_absent hstj]
      exact hps
  constructor
  · rintro (h | h)
    · obtain ⟨h1, h2, h3⟩ := (mem_served ..).mp h
      exact (mem_served ..).mpr ⟨reach_st_to_union h1, h2, by rw [hasRev_union, h3]; rfl⟩
    · obtain ⟨h1, h2, h3⟩ := (mem_served ..).mp h
      exact (mem_served ..).mpr ⟨fb_to_union h1, hexcl_sub _ h2, by rw [hasRev_union, h3]; simp⟩
  · intro h
    obtain ⟨hr, hne, hp⟩ := (mem_served ..).mp h
    -- every key the union's walk reaches is reached by one of the two walks
    have key : ∀ {k}, Reach (graph (unionRepo st fb)) excl start k →
        Reach (graph st) excl start k ∨ Reach (graph fb) excl2 heads k := by
      intro k hk
      induction hk with
      | base hs => exact Or.inl (Reach.base hs)
      | @step j k ps _ hjs hps hkp ih =>
        rw [parentsOf_union] at hps
        cases hst : parentsOf (graph st) j with
        | some ps' =>
          simp only [hst, Option.some.injEq] at hps
          subst hps
          have hsj := hasRev_of_parentsOf hst
          have hjr : Reach (graph st) excl start j := by
            rcases ih with h1 | h1
            · exact h1
            · exact fb_reached_in_st hc hheadR h1 hsj
          exact Or.inl (Reach.step hjr hjs hst hkp)
        | none =>
          simp only [hst] at hps
          have hstj : hasRev st j = false := by
            cases hsj : hasRev st j with
            | false => rfl
            | true =>
              obtain ⟨rec, hrec⟩ := (hasRev_iff ..).mp hsj
              rw [parentsOf_graph, hrec] at hst
              cases hst
          have hjf : Reach (graph fb) excl2 heads j := by
            rcases ih with h1 | h1
            · refine Reach.base ?_
              rw [← hheads]
              exact absent_reached_is_head h1 hstj hjs
            · exact h1
          exact Or.inr (Reach.step hjf (hexcl2_of _ hjs hstj) hps hkp)
    rw [hasRev_union] at hp
    cases hsk : hasRev st k with
    | true =>
      left
      have hkr : Reach (graph st) excl start k := by
        rcases key hr with h1 | h1
        · exact h1
        · exact fb_reached_in_st hc hheadR h1 hsk
      exact (mem_served ..).mpr ⟨hkr, hne, hsk⟩
    | false =>
      right
      have hfk : hasRev fb k = true := by simpa [hsk] using hp
      have hkf : Reach (graph fb) excl2 heads k := by
        rcases key hr with h1 | h1
        · refine Reach.base ?_
          rw [← hheads]
          exact absent_reached_is_head h1 hsk hne
        · exact h1
      exact (mem_served ..).mpr ⟨hkf, hexcl2_of _ hne hsk, hfk⟩

/-- … and the records the chain inserts are the records a fetch of those revisions from the union inserts:
same lookups for every revision id, revision records and inventories (both repositories hold the inventories of
their own revisions; where the stacked repository also holds a copy of a fallback revision's inventory - a stored
parent inventory - the two copies agree) -/
theorem chainCopy_eq_union (st fb tgt : Repo) (hd : disjointRevs st fb = true)
    (hai : agreeOn st.invs fb.invs = true)
    (m1 m2 m : List Rev) (hm1 : ∀ k ∈ m1, hasRev st k = true ∧ (get st.invs k).isSome = true)
    (hm2 : ∀ k ∈ m2, hasRev fb k = true ∧ (get fb.invs k).isSome = true)
    (hm : ∀ k, k ∈ m ↔ k ∈ m1 ∨ k ∈ m2) (k : Rev) :
    get (chainCopy st fb tgt m1 m2).revs k = get (copyE (unionRepo st fb) tgt m []).revs k ∧
    get (chainCopy st fb tgt m1 m2).invs k = get (copyE (unionRepo st fb) tgt m []).invs k := by
  constructor
  · unfold chainCopy
    rw [copyE_revs_get, copyE_revs_get, copyE_revs_get]
    cases ht : get tgt.revs k with
    | some v => rfl
    | none =>
      simp only
      by_cases h1 : k ∈ m1
      · obtain ⟨rec, hrec⟩ := (hasRev_iff ..).mp (hm1 k h1).1
        have hkm : k ∈ m := (hm k).mpr (Or.inl h1)
        simp only [h1, hkm, if_true, hrec]
        show some rec = get (st.revs ++ fb.revs) k
        rw [get_append_some hrec]
      · by_cases h2 : k ∈ m2
        · have hfk := (hm2 k h2).1
          have hsk : hasRev st k = false := by
            cases hs : hasRev st k with
            | false => rfl
            | true => rw [disjoint_absent hd hs] at hfk; cases hfk
          have hnone : get st.revs k = none := by
            unfold hasRev at hsk
            cases hg : get st.revs k with
            | none => rfl
            | some v => simp [hg] at hsk
          have hkm : k ∈ m := (hm k).mpr (Or.inr h2)
          simp only [h1, h2, hkm, if_true, if_false]
          show get fb.revs k = get (st.revs ++ fb.revs) k
          rw [get_append_none hnone]
        · have hkm : k ∉ m := fun h => by rcases (hm k).mp h with h | h <;> contradiction
          simp [h1, h2, hkm]
  · unfold chainCopy
    rw [copyE_invs_get, copyE_invs_get, copyE_invs_get]
    cases ht : get tgt.invs k with
    | some v => rfl
    | none =>
      simp only
      by_cases h1 : k ∈ m1
      · have hkm : k ∈ m := (hm k).mpr (Or.inl h1)
        cases hsi : get st.invs k with
        | none => have := (hm1 k h1).2; simp [hsi] at this
        | some i =>
          simp only [h1, hkm, if_true, hsi]
          show some i = get (st.invs ++ fb.invs) k
          rw [get_append_some hsi]
      · by_cases h2 : k ∈ m2
        · have hkm : k ∈ m := (hm k).mpr (Or.inr h2)
          simp only [h1, h2, hkm, if_true, if_false]
          cases hfi : get fb.invs k with
          | none => have := (hm2 k h2).2; simp [hfi] at this
          | some i' =>
            show some i' = get (st.invs ++ fb.invs) k
            cases hsi : get st.invs k with
            | none => rw [get_append_none hsi, hfi]
            | some i =>
              have : i = i' := agreeOn_eq hai hfi hsi
              subst this
              rw [get_append_some hsi]
        · have hkm : k ∉ m := fun h => by rcases (hm k).mp h with h | h <;> contradiction
          simp [h1, h2, hkm]

end BreezyVerif.C03
