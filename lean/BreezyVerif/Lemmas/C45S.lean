import BreezyVerif.Lemmas.C45
/-! C45 — lengths: a converter changes the length of a text exactly when it
changes the text (used for the "sizes differ ⇒ contents differ" shortcut of
the generic tree comparison). -/
namespace BreezyVerif.C45

/-- `content.replace(b"\r\n", b"\n")` keeps the length exactly when it keeps the content -/
theorem length_replCrlf_eq_iff (c : Bytes) : (replCrlf c).length = c.length ↔ replCrlf c = c := by
  fun_induction replCrlf c with
  | case1 => simp
  | case2 a => simp
  | case3 a b rest h ih =>
    obtain ⟨rfl, rfl⟩ := h
    have h2 := length_replCrlf_le rest
    constructor
    · intro e; simp at e; omega
    · intro e; simp at e
  | case4 a b rest h ih =>
    simp only [List.length_cons, Nat.add_right_cancel_iff, List.cons.injEq, true_and]
    simpa using ih

theorem length_le_subUnixNl (p : Bool) (c : Bytes) : c.length ≤ (subUnixNl p c).length := by
  induction c generalizing p with
  | nil => simp [subUnixNl]
  | cons b rest ih =>
    simp only [subUnixNl]
    split
    · have := ih false; simp; omega
    · have := ih (decide (b = CR)); simp; omega

/-- `_UNIX_NL_RE.sub(b"\r\n", content)` keeps the length exactly when it keeps the content -/
theorem length_subUnixNl_eq_iff (p : Bool) (c : Bytes) :
    (subUnixNl p c).length = c.length ↔ subUnixNl p c = c := by
  induction c generalizing p with
  | nil => simp [subUnixNl]
  | cons b rest ih =>
    simp only [subUnixNl]
    split
    · rename_i h
      obtain ⟨rfl, rfl⟩ := h
      have := length_le_subUnixNl false rest
      constructor
      · intro e; simp at e; omega
      · intro e; simp at e
    · simp only [List.length_cons, Nat.add_right_cancel_iff, List.cons.injEq, true_and]
      exact ih _

theorem length_toLf_eq_iff (c : Bytes) : (toLf c).length = c.length ↔ toLf c = c := by
  unfold toLf
  split
  · simp
  · exact length_replCrlf_eq_iff c

theorem length_toCrlf_eq_iff (c : Bytes) : (toCrlf c).length = c.length ↔ toCrlf c = c := by
  unfold toCrlf
  split
  · simp
  · exact length_subUnixNl_eq_iff false c

theorem length_conv_eq_iff (f : Conv) (c : Bytes) : (f.fn c).length = c.length ↔ f.fn c = c := by
  cases f
  · exact length_toLf_eq_iff c
  · exact length_toCrlf_eq_iff c

end BreezyVerif.C45
