import BreezyVerif.Model.C32S
import BreezyVerif.Lemmas.C32B
/-
Helper lemmas for the lock-scope session model (Model/C32S.lean), part 1:
the wire primitives of the remote object equal the direct transitions, the
coherence predicates, cached reads under coherence, `pullCore` = `specPull`.
-/
namespace BreezyVerif.C32

open BreezyVerif.C33 (toDec parseDec parseDec_toDec)

/-! ### wire primitives = direct access -/

theorem rReadTip_eq (src : Graph) (st : St) (ex : List RevId) : rReadTip src st ex = .ok st.tip := by
  simp [rReadTip, serve, parseDec_toDec]

theorem rWriteTip_eq (src : Graph) (st : St) (ex : List RevId) (t n : Nat) (r : RevId) (h : st.lock = some t) :
    rWriteTip src st ex t n r = .ok { st with tip := (n, r) } := by
  simp [rWriteTip, serve, withToken_held h, parseDec_toDec]

theorem rReadTags_eq (src : Graph) (st : St) (ex : List RevId) : rReadTags src st ex = .ok st.tags := by
  simp [rReadTags, serve]

theorem rWriteTags_eq (src : Graph) (st : St) (ex : List RevId) (t : Nat) (d : Tags) (h : st.lock = some t) :
    rWriteTags src st ex t d = .ok { st with tags := d } := by
  simp [rWriteTags, serve, withToken_held h]

theorem rFetch_eq (src : Graph) (ex : List RevId) : rFetch src ex = addRevs src := by
  funext st rs
  simp [rFetch, serve]

theorem rLock_fun_eq (src : Graph) (ex : List RevId) : (fun st tok => rLock src st ex tok) = primLock := by
  funext st tok
  exact rLock_eq src st ex tok

theorem rUnlock_fun_eq (src : Graph) (ex : List RevId) : (fun st t => rUnlock src st ex t) = primRelease := by
  funext st t
  exact rUnlock_eq src st ex t

/-! ### coherence -/

/-- a cache is empty or holds the stored value -/
def cacheOK {α : Type} (c : Option α) (v : α) : Prop := c = none ∨ c = some v

instance {α : Type} [DecidableEq α] (c : Option α) (v : α) : Decidable (cacheOK c v) := by
  unfold cacheOK; infer_instance

/-- **cache coherence** of an object with the stored state: every cache of the
object and of its VFS branch is empty or equal to what is stored, and a write
lock is held with the token of the physical lock -/
def Coherent (o : Obj) (st : St) : Prop :=
  cacheOK o.tipC st.tip ∧ cacheOK o.tagsC st.tags ∧ cacheOK o.realTipC st.tip ∧ cacheOK o.realTagsC st.tags ∧
  (o.lk.mode = .w → o.lk.token.isSome = true ∧ st.lock = o.lk.token)

instance (o : Obj) (st : St) : Decidable (Coherent o st) := by
  unfold Coherent; infer_instance

/-- caches live only inside a lock scope -/
def Scoped (o : Obj) : Prop :=
  o.lk.mode = .unlocked → o.tipC = none ∧ o.tagsC = none ∧ o.realTipC = none ∧ o.realTagsC = none

instance (o : Obj) : Decidable (Scoped o) := by
  unfold Scoped; infer_instance

/-- a local object has no VFS branch -/
def LocalObj (o : Obj) : Prop := o.real = false ∧ o.realTipC = none ∧ o.realTagsC = none

instance (o : Obj) : Decidable (LocalObj o) := by
  unfold LocalObj; infer_instance

/-- the pulls of the operation bring no source tags -/
def NoSrcTags : SOp → Prop
  | .pull _ _ _ stags => stags = []
  | _ => True

instance (op : SOp) : Decidable (NoSrcTags op) := by
  cases op <;> unfold NoSrcTags <;> infer_instance

theorem cacheOK_none {α : Type} (v : α) : cacheOK (none : Option α) v := Or.inl rfl
theorem cacheOK_some {α : Type} (v : α) : cacheOK (some v) v := Or.inr rfl

/-! ### cached reads -/

theorem cReadTip_coh (c : Caches) (st : St) (h : cacheOK c.tip st.tip) :
    cReadTip c st = (st.tip, { c with tip := some st.tip }) := by
  unfold cReadTip
  rcases h with h | h <;> simp [h]
  cases c; simp_all

theorem cReadTags_coh (c : Caches) (st : St) (h : cacheOK c.tags st.tags) :
    cReadTags c st = (st.tags, { c with tags := some st.tags }) := by
  unfold cReadTags
  rcases h with h | h <;> simp [h]
  cases c; simp_all

/-! ### frame facts about the stored state -/

theorem addRevs_tip (src : Graph) (st : St) (rs : List RevId) : (addRevs src st rs).tip = st.tip := rfl
theorem addRevs_tags (src : Graph) (st : St) (rs : List RevId) : (addRevs src st rs).tags = st.tags := rfl
theorem addRevs_lock (src : Graph) (st : St) (rs : List RevId) : (addRevs src st rs).lock = st.lock := rfl

end BreezyVerif.C32
