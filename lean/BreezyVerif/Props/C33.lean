import BreezyVerif.Lemmas.C33Limited
import BreezyVerif.Lemmas.C33Wire
/-!
C33 — theorems.  All parent maps, client caches, missing sets, tips and depth
limits (unbounded — stronger than the property's "up to a bounded size").

Reading guide: `g` is the repository graph as `Repository.get_graph()` shows it
(`null` present without parents), `pm` the client's cached parent map, `Reach`
the declarative walk (Lemmas/C33.lean), `bfs` the executable searcher.
-/
namespace BreezyVerif.C33

/-- The searcher always terminates within its fuel (number of keys it can meet + 1). -/
theorem bfs_total (g : PMap) (start stop : List Key) : (bfs g start stop).isSome = true := by
  obtain ⟨s, hs, _⟩ := bfs_inv g start stop
  simp [hs]

/-- `bfs_spec`: the level-wise searcher with stop set computes exactly the
declarative walk: `seen` = keys reachable from `start` through present non-stop
keys (each once), `_stopped_keys` = the reached stop keys and ghosts, the
looked-up keys = `get_state()` keys = reached, present, non-stop. -/
theorem bfs_spec (g : PMap) (start stop : List Key) (s : Search) (hs : bfs g start stop = some s) :
    s.seen.Nodup ∧ s.included.Nodup ∧
    (∀ k, k ∈ s.seen ↔ Reach g stop start k) ∧
    (∀ k, k ∈ s.stopped ↔ Reach g stop start k ∧ (k ∈ stop ∨ parentsOf g k = none)) ∧
    (∀ k, k ∈ s.queried ↔ Reach g stop start k ∧ k ∉ stop ∧ ∃ ps, parentsOf g k = some ps) ∧
    (∀ k, k ∈ s.included ↔ Reach g stop start k ∧ k ∉ stop ∧ ∃ ps, parentsOf g k = some ps) := by
  obtain ⟨s', hs', hinv⟩ := bfs_inv g start stop
  rw [hs] at hs'
  cases hs'
  have hf := inv_final hinv
  refine ⟨hf.1, nodup_included hinv, hf.2, ?_, ?_, mem_included hinv⟩
  · intro k; rw [hinv.stoppedC, hf.2]
  · intro k; rw [hinv.queriedC, hf.2]

/-- `walk_exact`: in an acyclic graph, if `K` (present, non-stop keys) is
generated from `start` by parent steps inside `K` and every parent step out of
`K` lands on a stop key or a ghost, the searcher's result is exactly `K`. -/
theorem walk_exact (g : PMap) (d : Key → Nat) (start stop K : List Key)
    (hac : Acyclic d g)
    (hKp : ∀ k ∈ K, ∃ ps, parentsOf g k = some ps) (hKs : ∀ k ∈ K, k ∉ stop)
    (hsrc : ∀ k ∈ K, k ∈ start ∨ ∃ j ∈ K, ∃ ps, parentsOf g j = some ps ∧ k ∈ ps)
    (hclosed : ∀ j ∈ K, ∀ ps, parentsOf g j = some ps → ∀ p ∈ ps,
      p ∈ K ∨ p ∈ stop ∨ parentsOf g p = none)
    (hstart : ∀ k ∈ start, k ∈ K ∨ k ∈ stop ∨ parentsOf g k = none)
    (s : Search) (hs : bfs g start stop = some s) (k : Key) :
    k ∈ s.included ↔ k ∈ K := by
  rw [(bfs_spec g start stop s hs).2.2.2.2.2 k]
  exact reach_exact g d start stop K hac hKp hKs hsrc hclosed hstart k

/-- the set the client of `search_result_from_parent_map` intends: its cached
keys, plus NULL_REVISION when it is referenced and was pruned from the stop
keys because it is recorded as missing (the case the code's comment describes) -/
def intended (pm : PMap) (missing : List Key) : List Key :=
  keysOf pm ++ (if null ∈ refsOf pm ∧ null ∈ missing then [null] else [])

theorem sr_eq (pm : PMap) (missing : List Key) :
    searchResultFromParentMap pm missing =
      ⟨(keysOf pm).filter (· ∉ refsOf pm),
       (dedup (refsOf pm)).filter (fun r => r ∉ keysOf pm ∧ r ∉ missing),
       pm.length + (if null ∈ refsOf pm ∧ null ∈ missing then 1 else 0)⟩ := by
  unfold searchResultFromParentMap
  cases pm with
  | nil => simp [keysOf, refsOf, dedup]
  | cons _ _ => simp

/-- `recipe_exact`: for every acyclic repository graph `g`, every client cache
`pm` that agrees with `g` on its keys, every `missing` set made of ghosts of `g`
(NULL may be listed although the server has it): replaying
`search_result_from_parent_map(pm, missing)` on `g` walks exactly the intended
keys — nothing missing, nothing extra — and their number is the recipe's count. -/
theorem recipe_exact (g pm : PMap) (missing : List Key) (d : Key → Nat)
    (hac : Acyclic d g) (hsub : SubMap pm g) (hnd : (keysOf pm).Nodup)
    (hnull : parentsOf g null = some [])
    (hmiss : ∀ m ∈ missing, m ≠ null → parentsOf g m = none)
    (hmn : null ∈ missing → null ∉ keysOf pm)
    (s : Search)
    (hs : bfs g (searchResultFromParentMap pm missing).start
      (searchResultFromParentMap pm missing).stop = some s) :
    (∀ k, k ∈ s.included ↔ k ∈ intended pm missing) ∧
    s.included.length = (searchResultFromParentMap pm missing).count := by
  rw [sr_eq] at hs ⊢
  simp only at hs ⊢
  -- facts about cached keys
  have hkey : ∀ k ∈ keysOf pm, ∃ ps, parentsOf pm k = some ps ∧ parentsOf g k = some ps := by
    intro k hk
    obtain ⟨ps, hps⟩ := parentsOf_isSome_of_mem_keys hk
    exact ⟨ps, hps, subMap_parents hsub hps⟩
  have hrefs : ∀ p, p ∈ refsOf pm ↔ ∃ j ps, parentsOf pm j = some ps ∧ p ∈ ps := by
    intro p
    unfold refsOf
    simp only [List.mem_flatMap]
    constructor
    · rintro ⟨⟨j, ps⟩, hm, hp⟩
      exact ⟨j, ps, parentsOf_of_mem hnd hm, hp⟩
    · rintro ⟨j, ps, hps, hp⟩
      exact ⟨(j, ps), parentsOf_mem hps, hp⟩
  have hmem : ∀ k, k ∈ intended pm missing ↔
      k ∈ keysOf pm ∨ (k = null ∧ null ∈ refsOf pm ∧ null ∈ missing) := by
    intro k
    unfold intended
    by_cases hc : null ∈ refsOf pm ∧ null ∈ missing
    · simp [hc]
    · simp [hc]
  have hexact : ∀ k, k ∈ s.included ↔ k ∈ intended pm missing := by
    apply walk_exact g d _ _ (intended pm missing) hac _ _ _ _ _ s hs
    · -- present
      intro k hk
      rcases (hmem k).mp hk with hk | ⟨rfl, _⟩
      · obtain ⟨ps, _, h⟩ := hkey k hk; exact ⟨ps, h⟩
      · exact ⟨[], hnull⟩
    · -- not stop keys
      intro k hk hst
      simp only [List.mem_filter, mem_dedup, decide_eq_true_eq] at hst
      rcases (hmem k).mp hk with hk | ⟨rfl, _, hm⟩
      · exact hst.2.1 hk
      · exact hst.2.2 hm
    · -- generated from start
      intro k hk
      by_cases hr : k ∈ refsOf pm
      · obtain ⟨j, ps, hps, hp⟩ := (hrefs k).mp hr
        exact Or.inr ⟨j, (hmem j).mpr (Or.inl (mem_keys_of_parentsOf hps)), ps, subMap_parents hsub hps, hp⟩
      · rcases (hmem k).mp hk with hk | ⟨rfl, h, _⟩
        · exact Or.inl (by simp [List.mem_filter, hk, hr])
        · exact absurd h hr
    · -- parent steps stay inside / hit stop keys or ghosts
      intro j hj ps hps p hp
      rcases (hmem j).mp hj with hj | ⟨rfl, _⟩
      · obtain ⟨ps', hpm, hg⟩ := hkey j hj
        obtain rfl : ps' = ps := Option.some.inj (hg.symm.trans hps)
        have hpr : p ∈ refsOf pm := (hrefs p).mpr ⟨j, _, hpm, hp⟩
        by_cases hpk : p ∈ keysOf pm
        · exact Or.inl ((hmem p).mpr (Or.inl hpk))
        · by_cases hpm' : p ∈ missing
          · by_cases hpn : p = null
            · subst hpn
              exact Or.inl ((hmem null).mpr (Or.inr ⟨rfl, hpr, hpm'⟩))
            · exact Or.inr (Or.inr (hmiss p hpm' hpn))
          · exact Or.inr (Or.inl (by simp [List.mem_filter, mem_dedup, hpr, hpk, hpm']))
      · rw [hnull] at hps; cases hps; cases hp
    · -- start keys are cached keys
      intro k hk
      simp only [List.mem_filter, decide_eq_true_eq] at hk
      exact Or.inl ((hmem k).mpr (Or.inl hk.1))
  refine ⟨hexact, ?_⟩
  have hnd' : (intended pm missing).Nodup := by
    unfold intended
    by_cases hc : null ∈ refsOf pm ∧ null ∈ missing
    · simp only [hc, and_self, if_true]
      rw [List.nodup_append]
      refine ⟨hnd, by simp, ?_⟩
      intro a ha b hb hab
      simp only [List.mem_singleton] at hb
      subst hab; subst hb
      exact hmn hc.2 ha
    · simpa [hc] using hnd
  rw [length_eq_of_mem_iff (bfs_spec _ _ _ s hs).2.1 hnd' hexact]
  unfold intended keysOf
  by_cases hc : null ∈ refsOf pm ∧ null ∈ missing <;> simp [hc]

/-- `recipe_accepted`: under the same hypotheses the server's
`recreate_search_from_recipe` passes its count check and returns the intended
keys (never `NoSuchRevision`). -/
theorem recipe_accepted (g pm : PMap) (missing : List Key) (d : Key → Nat)
    (hac : Acyclic d g) (hsub : SubMap pm g) (hnd : (keysOf pm).Nodup)
    (hnull : parentsOf g null = some [])
    (hmiss : ∀ m ∈ missing, m ≠ null → parentsOf g m = none)
    (hmn : null ∈ missing → null ∉ keysOf pm) :
    ∃ a b inc, recreate g (searchResultFromParentMap pm missing) false = some (.ok a b inc) ∧
      ∀ k, k ∈ inc ↔ k ∈ intended pm missing := by
  obtain ⟨s, hs, _⟩ := bfs_inv g (searchResultFromParentMap pm missing).start
    (searchResultFromParentMap pm missing).stop
  have h := recipe_exact g pm missing d hac hsub hnd hnull hmiss hmn s hs
  refine ⟨dedup (searchResultFromParentMap pm missing).start, dedup s.stopped, s.included, ?_, h.1⟩
  unfold recreate
  simp [hs, h.2]

/-- `limited_recipe_exact`: for every acyclic repository graph `g`, every client
cache `pm` agreeing with `g`, all tips and every depth: replaying the recipe of
`limited_search_result_from_parent_map` on `g` walks exactly the keys of the
client's own walk over its cache (`keys`), and their number is the count sent. -/
theorem limited_recipe_exact (g pm : PMap) (tips : List Key) (depth : Nat) (d : Key → Nat)
    (hac : Acyclic d g) (hsub : SubMap pm g)
    (L : Limited) (hL : limitedSearchResult pm tips depth = some L)
    (s : Search) (hs : bfs g L.recipe.start L.recipe.stop = some s) :
    (∀ k, k ∈ s.included ↔ k ∈ L.keys) ∧ s.included.length = L.recipe.count := by
  unfold limitedSearchResult at hL
  split at hL
  · -- empty cache: nothing to walk
    cases hL
    have hexact : ∀ k, k ∈ s.included ↔ k ∈ ([] : List Key) := by
      apply walk_exact g d [] [] [] hac _ _ _ _ _ s hs <;> intro k hk <;> cases hk
    refine ⟨hexact, ?_⟩
    have : s.included = [] := List.eq_nil_iff_forall_not_mem.mpr (fun k hk => by simpa using (hexact k).mp hk)
    simp [this]
  · obtain ⟨sc, hsc, _⟩ := bfs_inv pm (findPossibleHeads pm tips depth) tips
    simp only [runSearch, hsc] at hL
    · cases hL
      simp only at hs ⊢
      obtain ⟨_, hcnd, hseen, hstopped, hqueried, hincl⟩ := bfs_spec pm _ tips sc hsc
      have hin_or : ∀ k, Reach pm tips (findPossibleHeads pm tips depth) k →
          k ∈ sc.included ∨ k ∈ dedup sc.stopped := by
        intro k hr
        by_cases hst : k ∈ tips ∨ parentsOf pm k = none
        · exact Or.inr (mem_dedup.mpr ((hstopped k).mpr ⟨hr, hst⟩))
        · refine Or.inl ((hincl k).mpr ⟨hr, fun h => hst (Or.inl h), ?_⟩)
          cases hp : parentsOf pm k with
          | none => exact absurd (Or.inr hp) hst
          | some ps => exact ⟨ps, rfl⟩
      have hexact : ∀ k, k ∈ s.included ↔ k ∈ sc.included := by
        apply walk_exact g d _ _ sc.included hac _ _ _ _ _ s hs
        · intro k hk
          obtain ⟨_, _, ps, hps⟩ := (hincl k).mp hk
          exact ⟨ps, subMap_parents hsub hps⟩
        · intro k hk hst
          have h1 := (hstopped k).mp (mem_dedup.mp hst)
          obtain ⟨_, hnt, ps, hps⟩ := (hincl k).mp hk
          rcases h1.2 with h | h
          · exact hnt h
          · rw [hps] at h; cases h
        · intro k hk
          obtain ⟨hr, _, _⟩ := (hincl k).mp hk
          cases hr with
          | base hh =>
            by_cases hf : k ∈ sc.queried.flatMap (parentsL pm)
            · obtain ⟨j, hj, hkj⟩ := List.mem_flatMap.mp hf
              obtain ⟨ps, hps, hkps⟩ := mem_parentsL.mp hkj
              have hjq := (hqueried j).mp hj
              exact Or.inr ⟨j, (hincl j).mpr hjq, ps, subMap_parents hsub hps, hkps⟩
            · exact Or.inl (by
                simp only [List.mem_filter, decide_eq_true_eq]
                exact ⟨hh, fun h => hf h.2⟩)
          | step hrj hjs hjp hkp =>
            exact Or.inr ⟨_, (hincl _).mpr ⟨hrj, hjs, _, hjp⟩, _, subMap_parents hsub hjp, hkp⟩
        · intro j hj ps hps p hp
          obtain ⟨hrj, hjs, ps', hps'⟩ := (hincl j).mp hj
          obtain rfl : ps' = ps := Option.some.inj ((subMap_parents hsub hps').symm.trans hps)
          rcases hin_or p (Reach.step hrj hjs hps' hp) with h | h
          · exact Or.inl h
          · exact Or.inr (Or.inl h)
        · intro k hk
          simp only [List.mem_filter] at hk
          rcases hin_or k (Reach.base hk.1) with h | h
          · exact Or.inl h
          · exact Or.inr (Or.inl h)
      exact ⟨hexact, length_eq_of_mem_iff (bfs_spec _ _ _ s hs).2.1 hcnd hexact⟩

/-- `limited_recipe_accepted`: the server's count check passes on the limited
recipe and the reply carries exactly the client's walk. -/
theorem limited_recipe_accepted (g pm : PMap) (tips : List Key) (depth : Nat) (d : Key → Nat)
    (hac : Acyclic d g) (hsub : SubMap pm g) :
    ∃ L, limitedSearchResult pm tips depth = some L ∧
      ∃ a b inc, recreate g L.recipe false = some (.ok a b inc) ∧ ∀ k, k ∈ inc ↔ k ∈ L.keys := by
  have hL : ∃ L, limitedSearchResult pm tips depth = some L := by
    unfold limitedSearchResult
    split
    · exact ⟨_, rfl⟩
    · unfold runSearch
      obtain ⟨sc, hsc, _⟩ := bfs_inv pm (findPossibleHeads pm tips depth) tips
      simp [hsc]
  obtain ⟨L, hL⟩ := hL
  obtain ⟨s, hs, _⟩ := bfs_inv g L.recipe.start L.recipe.stop
  have h := limited_recipe_exact g pm tips depth d hac hsub L hL s hs
  refine ⟨L, hL, dedup L.recipe.start, dedup s.stopped, s.included, ?_, h.1⟩
  unfold recreate
  simp [hs, h.2]

/-- the limited walk never leaves the cache, never includes a tip, and is
duplicate-free (so `count` counts distinct revisions) -/
theorem limited_keys_cached (pm : PMap) (tips : List Key) (depth : Nat)
    (L : Limited) (hL : limitedSearchResult pm tips depth = some L) :
    L.keys.Nodup ∧ L.recipe.count = L.keys.length ∧ ∀ k ∈ L.keys, k ∈ keysOf pm ∧ k ∉ tips := by
  unfold limitedSearchResult at hL
  split at hL
  · cases hL; simp
  · obtain ⟨sc, hsc, _⟩ := bfs_inv pm (findPossibleHeads pm tips depth) tips
    simp only [runSearch, hsc] at hL
    · cases hL
      obtain ⟨_, hcnd, _, _, _, hincl⟩ := bfs_spec pm _ tips sc hsc
      refine ⟨hcnd, rfl, ?_⟩
      intro k hk
      obtain ⟨_, hnt, ps, hps⟩ := (hincl k).mp hk
      exact ⟨mem_keys_of_parentsOf hps, hnt⟩

/-- the server answers `NoSuchRevision` exactly when the number of keys it
walks differs from the count in the recipe (and never with `discard_excess`) -/
theorem recreate_ok_iff (g : PMap) (r : Recipe) (s : Search) (hs : bfs g r.start r.stop = some s) :
    (recreate g r false = some .noSuchRevision ↔ s.included.length ≠ r.count) ∧
    (s.included.length = r.count →
      recreate g r false = some (.ok (dedup r.start) (dedup s.stopped) s.included)) ∧
    recreate g r true = some (.ok (dedup r.start) (dedup s.stopped) s.included) := by
  unfold recreate
  simp only [hs]
  by_cases h : s.included.length = r.count <;> simp [h]

/-- a ghost start key and a ghost stop key (such as the `b""` that
`b"".split(b" ")` yields for an empty start / stop field) change nothing -/
theorem walk_ghost_start (g : PMap) (start stop : List Key) (e e' : Key)
    (he : parentsOf g e = none) (he' : parentsOf g e' = none)
    (s s' : Search) (hs : bfs g start stop = some s) (hs' : bfs g (e :: start) (e' :: stop) = some s') :
    ∀ k, k ∈ s'.included ↔ k ∈ s.included := by
  intro k
  rw [(bfs_spec _ _ _ s hs).2.2.2.2.2 k, (bfs_spec _ _ _ s' hs').2.2.2.2.2 k]
  have h1 : ∀ k, Reach g (e' :: stop) (e :: start) k → Reach g stop start k ∨ k = e := by
    intro k hr
    induction hr with
    | base hk =>
      rcases List.mem_cons.mp hk with h | h
      · exact Or.inr h
      · exact Or.inl (Reach.base h)
    | step _ hjs hjp hkp ih =>
      rcases ih with ih | ih
      · exact Or.inl (Reach.step ih (fun h => hjs (List.mem_cons_of_mem _ h)) hjp hkp)
      · subst ih; rw [he] at hjp; cases hjp
  have h2 : ∀ k, Reach g stop start k → Reach g (e' :: stop) (e :: start) k := by
    intro k hr
    induction hr with
    | base hk => exact Reach.base (List.mem_cons_of_mem _ hk)
    | step _ hjs hjp hkp ih =>
      refine Reach.step ih ?_ hjp hkp
      intro h
      rcases List.mem_cons.mp h with h | h
      · subst h; rw [he'] at hjp; cases hjp
      · exact hjs h
  constructor
  · rintro ⟨hr, hns, ps, hps⟩
    rcases h1 k hr with h | h
    · exact ⟨h, fun hh => hns (List.mem_cons_of_mem _ hh), ps, hps⟩
    · subst h; rw [he] at hps; cases hps
  · rintro ⟨hr, hns, ps, hps⟩
    refine ⟨h2 k hr, ?_, ps, hps⟩
    intro h
    rcases List.mem_cons.mp h with h | h
    · subst h; rw [he'] at hps; cases hps
    · exact hns h

/-- `heads_within_depth`: every start candidate chosen by `_find_possible_heads`
lies at most `depth` child steps above one of the tips -/
theorem heads_within_depth (pm : PMap) (tips : List Key) (depth : Nat) (h : Key)
    (hh : h ∈ findPossibleHeads pm tips depth) :
    ∃ n, n ≤ depth ∧ ∃ t ∈ tips, ChildSteps pm n t h := by
  unfold findPossibleHeads at hh
  rcases headsLoop_within pm depth [] (dedup tips) (dedup tips) h (mem_dedup.mp hh) with h1 | ⟨n, hn, r, hr, hs⟩
  · cases h1
  · exact ⟨n, hn, r, mem_dedup.mp hr, hs⟩

/-! ### wire form -/

/-- `sep.join(l).split(sep)`: `l` itself, except that the empty list comes back
as `[b""]` -/
theorem split_join (sep : UInt8) (l : List Bytes) (h : ∀ x ∈ l, sep ∉ x) :
    split sep (join sep l) = if l = [] then [[]] else l := by
  by_cases hl : l = []
  · subst hl; simp [join, split, splitAux]
  · simp only [hl, if_false]
    exact split_join_ne sep l hl h

theorem parseDec_toDec (n : Nat) : parseDec (toDec n) = some n := by
  unfold parseDec toDec
  have hne := toDecAux_ne_nil (n + 1) n [] (by omega)
  have : (toDecAux (n + 1) n []).isEmpty = false := by
    cases h : toDecAux (n + 1) n [] with
    | nil => exact absurd h hne
    | cons _ _ => rfl
  simp only [this, Bool.false_eq_true, if_false]
  rw [foldl_toDecAux (n + 1) n [] (by omega)]
  rfl

/-- `recipe_serialise_roundtrip`: for revision ids free of space and newline the
server parses back exactly the start keys, stop keys and count that
`_serialise_search_recipe` wrote (an empty key list arriving as `[b""]`). -/
theorem recipe_serialise_roundtrip (r : WireRecipe)
    (h1 : ∀ x ∈ r.start, SP ∉ x ∧ NL ∉ x) (h2 : ∀ x ∈ r.stop, SP ∉ x ∧ NL ∉ x) :
    parseRecipe (serialise r) =
      some ⟨if r.start = [] then [[]] else r.start, if r.stop = [] then [[]] else r.stop, r.count⟩ := by
  have hnl : ∀ l : List Bytes, (∀ x ∈ l, SP ∉ x ∧ NL ∉ x) → NL ∉ join SP l := by
    intro l hl hc
    rcases mem_join hc with h | ⟨x, hx, hcx⟩
    · simp [NL, SP] at h
    · exact (hl x hx).2 hcx
  unfold parseRecipe serialise
  simp only [join]
  rw [split_append_sep (hnl _ h1), split_append_sep (hnl _ h2), split_no_sep (nl_not_mem_toDec _)]
  simp only [parseDec_toDec]
  rw [split_join SP r.start (fun x hx => (h1 x hx).1), split_join SP r.stop (fun x hx => (h2 x hx).1)]

/-- repository: `4 → {2,3}`, `3 → {1, ghost 9}`, `2 → 1`, `1 → null` -/
def exG : PMap := [(0, []), (1, [0]), (2, [1]), (3, [1, 9]), (4, [2, 3])]
def exD : Key → Nat := fun k => if k = 9 then 100 else 20 - k
/-- client cache: revisions 4, 3, 2 seen; 9 known missing -/
def exPM : PMap := [(4, [2, 3]), (3, [1, 9]), (2, [1])]

/-! ### what the limited recipe's "intended" set is (independent of the client's own walk) -/

/-- `heads_char`: `_find_possible_heads(parent_map, tips, depth)` returns exactly the
keys at child distance `depth` from the tips, plus the childless keys at a smaller
distance (`AtDist` = breadth-first level of the child graph of the cache) -/
theorem heads_char (pm : PMap) (tips : List Key) (depth : Nat) (h : Key) :
    h ∈ findPossibleHeads pm tips depth ↔
      (AtDist pm tips depth h ∨ ∃ n, n < depth ∧ AtDist pm tips n h ∧ childrenOf pm h = []) :=
  findPossibleHeads_char pm tips depth h

/-- `limited_keys_char`: the key set the client tells the server it has seen is,
declaratively, the cached non-tip keys reachable — by parent steps through cached
non-tip keys — from a key satisfying `HeadSpec`.  Together with
`limited_recipe_exact` this pins the server's walk to a set defined without
running the client's searcher: a client walk that shrank would violate it. -/
theorem limited_keys_char (pm : PMap) (tips : List Key) (depth : Nat) (L : Limited)
    (hne : pm ≠ []) (hL : limitedSearchResult pm tips depth = some L) (k : Key) :
    k ∈ L.keys ↔ ReachP pm tips (HeadSpec pm tips depth) k ∧ k ∉ tips ∧
      ∃ ps, parentsOf pm k = some ps := by
  rw [limited_keys_mem pm tips depth L hne hL k,
    reach_iff_reachP (fun h => findPossibleHeads_char pm tips depth h) k]

/-- `limited_keys_lower`: in a dict-shaped acyclic cache whose tips are not cached
themselves (they are the keys being requested), EVERY key within `depth` child
steps of a tip is in the set — the "depth-step child closure of the tips" -/
theorem limited_keys_lower (pm : PMap) (tips : List Key) (depth : Nat) (d : Key → Nat) (L : Limited)
    (hac : Acyclic d pm) (hnd : (keysOf pm).Nodup) (htips : ∀ t ∈ tips, t ∉ keysOf pm)
    (hL : limitedSearchResult pm tips depth = some L)
    (n : Nat) (k : Key) (h1 : 1 ≤ n) (hn : n ≤ depth) (hp : PathN pm tips n k) : k ∈ L.keys := by
  obtain ⟨t, ht, hs⟩ := hp
  obtain ⟨n', rfl⟩ : ∃ n', n = n' + 1 := ⟨n - 1, by omega⟩
  obtain ⟨r, _, hkr⟩ := childSteps_unsnoc n' t k hs
  obtain ⟨ps, hmem, _⟩ := mem_childrenOf.mp hkr
  have hpk : parentsOf pm k = some ps := parentsOf_of_mem hnd hmem
  have hkey : k ∈ keysOf pm := mem_keys_of_parentsOf hpk
  have hne : pm ≠ [] := by rintro rfl; cases hmem
  rw [limited_keys_mem pm tips depth L hne hL k]
  exact ⟨reach_of_within pm tips depth d hac hnd htips (d k) k rfl hkey ⟨n' + 1, hn, t, ht, hs⟩,
    fun hkt => htips k hkt hkey, ps, hpk⟩

/-- … and the set is closed under cached non-tip parents (all cached ancestors of
its members, up to the tips) -/
theorem limited_keys_parent_closed (pm : PMap) (tips : List Key) (depth : Nat) (L : Limited)
    (hL : limitedSearchResult pm tips depth = some L) (j p : Key) (ps ps' : List Key)
    (hj : j ∈ L.keys) (hps : parentsOf pm j = some ps) (hp : p ∈ ps) (hpt : p ∉ tips)
    (hpp : parentsOf pm p = some ps') : p ∈ L.keys := by
  have hne : pm ≠ [] := by rintro rfl; cases hps
  rw [limited_keys_mem pm tips depth L hne hL] at hj ⊢
  exact ⟨Reach.step hj.1 hj.2.1 hps hp, hpt, ps', hpp⟩

/-! ### ghosts filled on the server between the client's caching and the replay -/

/-- `limited_recipe_ghost_fill_safe` (the claim in the comment of
`recreate_search_from_recipe`): the limited recipe lists the cache's ghosts as
stop keys, so it is accepted with the same key set on ANY two acyclic server
graphs that agree with the cache on the cached keys — in particular before and
after a key the client saw as missing has been filled in. -/
theorem limited_recipe_ghost_fill_safe (g g' pm : PMap) (tips : List Key) (depth : Nat) (d d' : Key → Nat)
    (hac : Acyclic d g) (hsub : SubMap pm g) (hac' : Acyclic d' g') (hsub' : SubMap pm g') :
    ∃ L, limitedSearchResult pm tips depth = some L ∧
      (∃ a b inc, recreate g L.recipe false = some (.ok a b inc) ∧ ∀ k, k ∈ inc ↔ k ∈ L.keys) ∧
      (∃ a b inc, recreate g' L.recipe false = some (.ok a b inc) ∧ ∀ k, k ∈ inc ↔ k ∈ L.keys) := by
  obtain ⟨L, hL, h1⟩ := limited_recipe_accepted g pm tips depth d hac hsub
  obtain ⟨L', hL', h2⟩ := limited_recipe_accepted g' pm tips depth d' hac' hsub'
  rw [hL] at hL'; cases hL'
  exact ⟨L, hL, h1, h2⟩

/-- the server after ghost `9` of `exG` was filled in (with parent `1`) -/
def exGfilled : PMap := [(0, []), (1, [0]), (2, [1]), (9, [1]), (3, [1, 9]), (4, [2, 3])]
def exDfilled : Key → Nat := fun k => if k = 9 then 18 else 20 - k

/-- `unlimited_ghost_filled_witness`: the UNLIMITED recipe prunes recorded-missing
keys from its stop keys (hypothesis `hmiss` of `recipe_exact`), so once such a key
exists on the server the replay walks through it and the count check fails
(`NoSuchRevision`) — while the limited recipe of the same cache is accepted on both
graphs.  (The unlimited form is only used when `_DEFAULT_SEARCH_DEPTH <= 0`.) -/
theorem unlimited_ghost_filled_witness :
    Acyclic exDfilled exGfilled ∧ SubMap exPM exGfilled ∧
    recreate exG (searchResultFromParentMap exPM [9]) false = some (.ok [4] [1, 9] [4, 2, 3]) ∧
    recreate exGfilled (searchResultFromParentMap exPM [9]) false = some .noSuchRevision ∧
    (limitedSearchResult exPM [1] 2).map (fun L => (recreate exG L.recipe false, recreate exGfilled L.recipe false)) =
      some (some (.ok [4] [1, 9] [4, 2, 3]), some (.ok [4] [1, 9] [4, 2, 3])) := by
  decide

/-! ### end to end: recipe → wire bytes → parsed → replayed -/

def toWire (enc : Key → Bytes) (r : Recipe) : WireRecipe := ⟨r.start.map enc, r.stop.map enc, r.count⟩
def ofWire (dec : Bytes → Key) (w : WireRecipe) : Recipe := ⟨w.start.map dec, w.stop.map dec, w.count⟩

/-- serialising, parsing and replaying a recipe the server accepts gives the same
included keys (an empty start / stop field arrives as the key `b""`, a ghost) -/
theorem wire_transport (g : PMap) (r : Recipe) (enc : Key → Bytes) (dec : Bytes → Key)
    (hdec : ∀ k, dec (enc k) = k) (henc : ∀ k, SP ∉ enc k ∧ NL ∉ enc k)
    (hE : parentsOf g (dec []) = none)
    (a b inc : List Key) (h : recreate g r false = some (.ok a b inc)) :
    ∃ w, parseRecipe (serialise (toWire enc r)) = some w ∧
      ∃ a' b' inc', recreate g (ofWire dec w) false = some (.ok a' b' inc') ∧ ∀ k, k ∈ inc' ↔ k ∈ inc := by
  have hrt := recipe_serialise_roundtrip (toWire enc r)
    (by intro x hx; obtain ⟨k, _, rfl⟩ := List.mem_map.mp hx; exact henc k)
    (by intro x hx; obtain ⟨k, _, rfl⟩ := List.mem_map.mp hx; exact henc k)
  refine ⟨_, hrt, ?_⟩
  have hmm : ∀ l : List Key, (l.map enc).map dec = l := by
    intro l; simp [List.map_map, Function.comp_def, hdec]
  have hstart : ∃ gs, (∀ e ∈ gs, parentsOf g e = none) ∧
      (if (toWire enc r).start = [] then [[]] else (toWire enc r).start).map dec = gs ++ r.start := by
    by_cases he : r.start = []
    · exact ⟨[dec []], by simpa using hE, by simp [toWire, he]⟩
    · exact ⟨[], by simp, by simp [toWire, he, hmm]⟩
  have hstop : ∃ gs', (∀ e ∈ gs', parentsOf g e = none) ∧
      (if (toWire enc r).stop = [] then [[]] else (toWire enc r).stop).map dec = gs' ++ r.stop := by
    by_cases he : r.stop = []
    · exact ⟨[dec []], by simpa using hE, by simp [toWire, he]⟩
    · exact ⟨[], by simp, by simp [toWire, he, hmm]⟩
  obtain ⟨gs, hgs, e1⟩ := hstart
  obtain ⟨gs', hgs', e2⟩ := hstop
  have := recreate_add_ghosts g r gs gs' hgs hgs' a b inc h
  simp only [ofWire, e1, e2]
  exact this

/-- `recipe_end_to_end`: client recipe → `_serialise_search_recipe` → server parse →
replay: accepted, and the walk is exactly the intended set -/
theorem recipe_end_to_end (g pm : PMap) (missing : List Key) (d : Key → Nat)
    (enc : Key → Bytes) (dec : Bytes → Key)
    (hdec : ∀ k, dec (enc k) = k) (henc : ∀ k, SP ∉ enc k ∧ NL ∉ enc k)
    (hE : parentsOf g (dec []) = none)
    (hac : Acyclic d g) (hsub : SubMap pm g) (hnd : (keysOf pm).Nodup)
    (hnull : parentsOf g null = some [])
    (hmiss : ∀ m ∈ missing, m ≠ null → parentsOf g m = none)
    (hmn : null ∈ missing → null ∉ keysOf pm) :
    ∃ w, parseRecipe (serialise (toWire enc (searchResultFromParentMap pm missing))) = some w ∧
      ∃ a b inc, recreate g (ofWire dec w) false = some (.ok a b inc) ∧
        ∀ k, k ∈ inc ↔ k ∈ intended pm missing := by
  obtain ⟨a, b, inc, hr, hinc⟩ := recipe_accepted g pm missing d hac hsub hnd hnull hmiss hmn
  obtain ⟨w, hw, a', b', inc', hr', hinc'⟩ := wire_transport g _ enc dec hdec henc hE a b inc hr
  exact ⟨w, hw, a', b', inc', hr', fun k => (hinc' k).trans (hinc k)⟩

/-- `limited_end_to_end`: the same for the limited recipe -/
theorem limited_end_to_end (g pm : PMap) (tips : List Key) (depth : Nat) (d : Key → Nat)
    (enc : Key → Bytes) (dec : Bytes → Key)
    (hdec : ∀ k, dec (enc k) = k) (henc : ∀ k, SP ∉ enc k ∧ NL ∉ enc k)
    (hE : parentsOf g (dec []) = none)
    (hac : Acyclic d g) (hsub : SubMap pm g) :
    ∃ L, limitedSearchResult pm tips depth = some L ∧
      ∃ w, parseRecipe (serialise (toWire enc L.recipe)) = some w ∧
        ∃ a b inc, recreate g (ofWire dec w) false = some (.ok a b inc) ∧ ∀ k, k ∈ inc ↔ k ∈ L.keys := by
  obtain ⟨L, hL, a, b, inc, hr, hinc⟩ := limited_recipe_accepted g pm tips depth d hac hsub
  obtain ⟨w, hw, a', b', inc', hr', hinc'⟩ := wire_transport g _ enc dec hdec henc hE a b inc hr
  exact ⟨L, hL, w, hw, a', b', inc', hr', fun k => (hinc' k).trans (hinc k)⟩

/-- the harness' key encoding: `r<decimal>` (and everything else, such as `b""`,
decodes to the never-present key 999999) -/
def exEnc (k : Key) : Bytes := 114 :: toDec k
def exDec : Bytes → Key
  | 114 :: rest => match parseDec rest with
    | some n => n
    | none => 999999
  | _ => 999999

theorem sp_not_mem_toDec (n : Nat) : SP ∉ toDec n := by
  intro h
  rcases mem_toDecAux _ _ _ h with h | ⟨m, hm, h⟩
  · cases h
  · have := congrArg UInt8.toNat h
    rw [digit_toNat hm] at this
    simp [SP] at this
    omega

/-- non-vacuity of the encoding hypotheses of the end-to-end theorems -/
theorem exEnc_ok : (∀ k, exDec (exEnc k) = k) ∧ (∀ k, SP ∉ exEnc k ∧ NL ∉ exEnc k) ∧
    parentsOf exG (exDec []) = none := by
  refine ⟨fun k => ?_, fun k => ⟨?_, ?_⟩, by decide⟩
  · simp [exEnc, exDec, parseDec_toDec]
  · intro h
    rcases List.mem_cons.mp h with h | h
    · simp [SP] at h
    · exact sp_not_mem_toDec k h
  · intro h
    rcases List.mem_cons.mp h with h | h
    · simp [NL] at h
    · exact nl_not_mem_toDec k h

/-! ### non-vacuity: the hypotheses hold on concrete non-trivial inputs -/


example : Acyclic exD exG ∧ SubMap exPM exG ∧ (keysOf exPM).Nodup ∧ parentsOf exG null = some [] ∧
    (∀ m ∈ [9], m ≠ null → parentsOf exG m = none) ∧ (null ∈ [9] → null ∉ keysOf exPM) := by
  decide

example : searchResultFromParentMap exPM [9] = ⟨[4], [1], 3⟩ := by decide
example : (bfs exG [4] [1]).map Search.included = some [4, 2, 3] := by decide
example : limitedSearchResult exPM [1] 1 = some ⟨⟨[3, 2], [1, 9], 2⟩, [3, 2]⟩ := by decide
example : recreate exG ⟨[2, 3], [1, 9], 2⟩ false = some (.ok [2, 3] [1, 9] [2, 3]) := by decide
example : recreate exG ⟨[2, 3], [1, 9], 3⟩ false = some .noSuchRevision := by decide
/-- the pruned-NULL case: NULL referenced, recorded missing, not a stop key; count is |pm| + 1 -/
example : searchResultFromParentMap [(1, [0])] [0] = ⟨[1], [], 2⟩ ∧
    (bfs exG [1] []).map Search.included = some [1, 0] := by decide
example : ∀ x ∈ [[114, 52], [114, 51]], SP ∉ x ∧ NL ∉ (x : Bytes) := by decide
example : parseRecipe (serialise ⟨[[114, 52]], [], 3⟩) = some ⟨[[114, 52]], [[]], 3⟩ := by decide
example : parentsOf exG 9 = none ∧ parentsOf exG 7 = none := by decide
example : findPossibleHeads exPM [1] 1 = [3, 2] ∧ findPossibleHeads exPM [1] 2 = [4] := by decide
/-- non-vacuity of `limited_keys_lower`: dict-shaped acyclic cache, uncached tip, and a key two
child steps above it -/
example : Acyclic exD exPM ∧ (keysOf exPM).Nodup ∧ (∀ t ∈ [1], t ∉ keysOf exPM) ∧
    PathN exPM [1] 2 4 ∧ (limitedSearchResult exPM [1] 2).map (·.keys) = some [4, 2, 3] :=
  ⟨by decide, by decide, by decide,
    ⟨1, by decide, ChildSteps.succ (c := 2) (by decide) (ChildSteps.succ (c := 4) (by decide) ChildSteps.zero)⟩,
    by decide⟩
/-- end to end on the example: an empty stop field travels as `b""` -/
example : parseRecipe (serialise (toWire exEnc ⟨[4], [], 5⟩)) = some ⟨[[114, 52]], [[]], 5⟩ ∧
    recreate exG (ofWire exDec ⟨[[114, 52]], [[]], 5⟩) false = some (.ok [4] [9] [4, 2, 3, 1, 0]) := by
  decide

end BreezyVerif.C33
