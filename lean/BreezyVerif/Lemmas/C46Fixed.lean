import BreezyVerif.Lemmas.C46Clean
/-! C46 — the proposed repair of `_filter_out_nested_controldirs` protects every control directory. -/
namespace BreezyVerif.C46
open Forest

theorem mem_of_append_eq_snoc {α : Type} {p r d : List α} {c : α} (h : p ++ r = d ++ [c])
    (hr : r ≠ []) : c ∈ r := by
  induction p generalizing d with
  | nil => simp at h; simp [h]
  | cons a p ih =>
    cases d with
    | nil =>
      simp at h
      exact absurd h.2.2 hr
    | cons b d =>
      simp only [List.cons_append, List.cons.injEq] at h
      exact ih h.2

/-- looking up a longer path passes through the entry at each non-empty prefix -/
theorem get_prefix {f : Forest} {p r : Path} {x : Info × Forest} (hp : p ≠ [])
    (hg : f.get (p ++ r) = some x) :
    ∃ i k, f.get p = some (i, k) ∧ (r ≠ [] → k.get r = some x) := by
  induction f generalizing p with
  | nil => simp [Forest.get] at hg
  | cons j kids rest ih1 ih2 =>
    obtain ⟨n, q, rfl⟩ := List.exists_cons_of_ne_nil hp
    by_cases e : j.name = n
    · subst e
      cases q with
      | nil =>
        refine ⟨j, kids, get_cons_self, ?_⟩
        intro hr
        obtain ⟨a, b, rfl⟩ := List.exists_cons_of_ne_nil hr
        simp only [List.cons_append, List.nil_append] at hg
        rw [get_cons_down] at hg
        exact hg
      | cons a b =>
        simp only [List.cons_append] at hg
        rw [get_cons_down] at hg
        rw [get_cons_down]
        exact ih1 (p := a :: b) (by simp) hg
    · simp only [List.cons_append] at hg
      rw [get_cons_ne e] at hg
      rw [get_cons_ne e]
      exact ih2 (p := n :: q) (by simp) hg

/-- With the repaired filter no selected path is a control entry, contains one,
or lies in a directory (below the tree root) that holds one. -/
theorem fixed_protects {fmt : Fmt} {o : Opts} {f : Forest} {s : Item} (hw : f.wf = true)
    (hs : s ∈ selectedWith (keepFixed f) fmt o f) {d : Path} {c : String}
    (hc : isCtlName c = true) (hm : d ++ [c] ∈ f.paths) :
    ¬ s.path <+: d ++ [c] ∧ (d ≠ [] → ¬ d <+: s.path) := by
  obtain ⟨hse, _, hk⟩ := selected_sub hs
  have hit := extras_sub hse
  have hget := get_of_mem_items hw hit
  simp only [keepFixed, Bool.and_eq_true, Bool.not_eq_true', List.any_eq_false, Bool.and_eq_false_imp,
    beq_iff_eq] at hk
  obtain ⟨⟨h1, h2⟩, h3⟩ := hk
  have hkids : ∀ r, r ≠ [] → r ∈ s.kids.paths → s.info.kind = .dir := by
    intro r _ hr
    rcases wf_items_kids hw hit with h | h
    · exact h
    · rw [h] at hr; simp [Forest.paths] at hr
  constructor
  · rintro ⟨r, e⟩
    by_cases hr : r = []
    · subst hr
      simp only [List.append_nil] at e
      have : c ∈ s.path := by rw [e]; simp
      have := h1 c this
      rw [hc] at this
      exact absurd this (by simp)
    · have hb := paths_below hw hget hr (e ▸ hm)
      have hcr := mem_of_append_eq_snoc e hr
      have := h3 (hkids r hr hb)
      rw [containsCtlName_of_path hb hcr hc] at this
      exact absurd this (by simp)
  · intro hd ⟨r, e⟩
    obtain ⟨x, hx⟩ := get_of_mem_paths hw hm
    obtain ⟨i, k, hgd, hgc⟩ := get_prefix hd hx
    have hck : hasCtlName k = true :=
      hasCtlName_of_single (mem_paths_of_get (hgc (by simp))) hc
    by_cases hr : r = []
    · subst hr
      simp only [List.append_nil] at e
      rw [← e, hgd] at hget
      simp at hget
      have hb : [c] ∈ s.kids.paths := hget.2 ▸ mem_paths_of_get (hgc (by simp))
      have := h3 (hkids [c] (by simp) hb)
      rw [containsCtlName_of_path hb (by simp) hc] at this
      exact absurd this (by simp)
    · -- d is a proper prefix of s.path: `insideNested` sees it
      have hlen : d.length < s.path.length := by
        rw [← e, List.length_append]
        have : 0 < r.length := List.length_pos_iff.mpr hr
        omega
      have hne : d.length ≠ 0 := fun h => hd (List.eq_nil_of_length_eq_zero h)
      have htake : s.path.take d.length = d := by rw [← e]; exact List.take_left
      have : insideNested f s.path = true := by
        simp only [insideNested, List.any_eq_true, List.mem_range, Bool.and_eq_true, bne_iff_ne, ne_eq]
        exact ⟨d.length, hlen, hne, by rw [htake, hgd]; exact hck⟩
      rw [h2] at this
      exact absurd this (by simp)

end BreezyVerif.C46
