"""C48 — ignore patterns match according to their documented semantics
(breezy/globbing.py: Globster, ExceptionGlobster, _OrderedGlobster; the
translators _sub_fullpath/_sub_basename/_sub_extension/_sub_re; normalize_pattern
from bzrformats; breezy/ignores.py + WorkingTree.is_ignored).

T2: pattern lists over a bounded glob grammar (letters, '.', '*', '?', '**/',
character classes, './' and '/' prefixes, backslash / doubled / trailing
slashes, regex specials, one non-ASCII letter; lists of 1..8 patterns and, in
a separate stream, 100..330 patterns with the "live" patterns placed next to
the 99-boundaries) x file names instantiated from the patterns and perturbed.
Real `Globster.match`, `ExceptionGlobster.match`, `_OrderedGlobster.match`,
`normalize_pattern`, `Globster.identify` and `WorkingTree.is_ignored` (2a tree
with a generated .bzrignore) are compared with the Lean model (group size 99).
A ~10 % malformed stream (RE:, unbalanced brackets, named classes, bad ranges)
checks that the model declares them outside its grammar and that the real code
either raises InvalidPattern or reports a pattern of the list.

Oracle (independent of the model): a small reference matcher written here from
the documented rules decides, per pattern, whether it matches; then
  * match() is None  <=>  no pattern matches; a reported pattern is in the
    (normalised) list and matches;
  * padding the list with never-matching patterns of the same type (which moves
    the 99-boundaries) or appending them does not change the result; for an
    ExceptionGlobster the '!' and '!!' lists are padded as well;
  * ExceptionGlobster: some '!!p' matches -> '!!'+such a pattern; else some
    '!p' matches -> None; else the plain result;
  * is_ignored(name) is truthy exactly when the reference says so for the
    tree's ignore list, and the .bzrignore lines all arrive in that list;
  * RE: stream (run_re): lists with `RE:<regex>` patterns built from small regex
    ASTs (literals, '.', escaped metacharacters incl. `\\(`, classes incl. `[(]`,
    capturing and non-capturing groups with alternation, `* ? +`), alone, mixed
    with globs, under '!' / '!!', and next to the 99-boundary of the fullpath
    type; reference for one RE: pattern = Python `re` on the regex AS WRITTEN,
    anchored to the whole path.  All list-level predicates above apply (a user
    capture group must not shift the reported pattern: `lastindex`).  The model
    must answer 'outside grammar' for these lists.

The extension regex exists in two modelled shapes; the harness reads the live
`Globster.pattern_info`: 'inorder' (each alternative carries its own `.*\\.`,
the code since ac6b52e) is what the headline theorems describe; if the live
code has the 'greedy' shared prefix `(?:.*\\.)` again, the run records a tie
break (the theorems about globsterMatchO/exceptionMatchO no longer describe
the code) in addition to whatever the padding oracle finds (family
`ext-multidot-regroup`).

FINDINGS on the unchanged code (classifier on the concrete input, recorded at
most 3x per run, sorted after any violation without family):
  re-escaped-open-paren-rewritten   `_sub_re` rewrites every '(' not followed by
      '?' into '(?:' — also an escaped one: `RE:a\\(b` compiles to `a\\(?:b`, no
      longer matches 'a(b' and matches 'a:b'
  re-open-paren-in-class-rewritten  same rule inside a class: `RE:a[(]b` becomes
      `a[(?:]b` and additionally matches 'a?b', 'a:b'
  (repro + tested 2-line patch: /var/tmp/imp-C47C48/c48/)
  ext-multidot-regroup              repaired by ac6b52e; reported again on regression

Mutants this was built against (scratch worktree; all caught by the oracle with
a concrete input unless noted):
  M1  `patterns = patterns[99:]` -> `[100:]` (pattern #100 of a type lost)
  M2  stored `patterns[:99]` -> `patterns[1:99]` (IndexError / wrong pattern)
  M2b `patterns[match.lastindex - 1]` -> `[max(lastindex - 2, 0)]`
  M2c regex built from `patterns[:98]`, list keeps 99 (pattern #99 of each group never matches)
  M3  ExceptionGlobster tests the '!' list before the '!!' list
  M4  basename prefix `(?:.*/)?(?!.*/)` -> `(?:.*/)?`
  M5  `_sub_fullpath` `\\*+` -> `.*` ('*' crosses '/')
  M6  `_sub_extension`: `pattern[2:]` -> `pattern[1:]`
  M7  identify: `"/" in pattern` dropped
  M8  ignores.parse_ignore_file: `startswith("#")` -> `"#" in` (tree stream)
  M10 `**/` -> `(?:.*/)` (not optional)
  M11 canonicalisation rule `(?:\\.?/)+` of `_sub_fullpath` dropped
  M12 ExceptionGlobster: `p[2:]` -> `p[1:]` for '!!' patterns
  Mshape extension prefix without `(?!.*/)` (also: shape not recognised -> tie broken)
  MA  '!!' wins only when no '!' pattern matches (`if double_neg and not self._ignores[1].match(..)`)
  MB  `_sub_re`: "^RE:" -> ".*" (an RE: pattern matches a suffix of the path)   -> RE: oracle
  MC  ac6b52e reverted (shared greedy extension prefix) -> tie break + padding oracle (ext-multidot-regroup)
  MD  `_sub_re` no longer neutralises user capture groups -> RE: oracle (IndexError / wrong pattern via lastindex)
  ME  the '!' list keeps only its first 99 patterns -> padding oracle with '!' fillers
  H1  harmless: Globster.__init__ builds the three lists with comprehensions — clean.
  FIX the proposed `_sub_re` patch (keep `\\.` and character classes): 0 violations, 0 mismatches.
"""
import functools

from vlib import env

THEOREMS = [
    # live variant (globsterMatchO / exceptionMatchO: the code since ac6b52e)
    "reported_pattern_matches", "ignored_iff_some_matches", "group_size_irrelevant",
    "group_size_irrelevant_reported", "group_size_irrelevant_ignored",
    "truthy_iff", "exception_double", "exception_single", "exception_plain", "exception_ignored_iff",
    "exception_group_size_irrelevant", "exception_spec", "exception_empty_pattern_witness", "splitExc_spec",
    # historical greedy variant (before ac6b52e)
    "reported_pattern_matches_greedy", "ignored_iff_some_matches_greedy", "variants_agree_on_ignored",
    "group_size_irrelevant_partial", "group_size_witness", "first_in_type_order_noext",
    "exception_ignored_iff_greedy",
    # documented matching rules, lexer, normalisation
    "basename_dir_irrelevant", "ext_literal_iff_suffix", "starstar_iff", "lex_starstar_prefix",
    "lex_starstar_mid", "starstar_mid_matches", "normalize_idempotent", "normalize_clean",
    "star_iff", "mode_irrelevant_without_slash", "ordered_first_match",
    "identify_slash_full",
]
RULE = ("one case = (operation, pattern list, file name); non-trivial = at least one pattern of the list "
        "matches the name under the reference matcher, or the list has more than 99 patterns of one type")
ASSUMPTIONS = [
    "file names contain no newline and have a non-empty last component",
    "patterns outside the modelled grammar (named classes, unbalanced brackets, surviving backslashes, arbitrary RE:) "
    "are only checked for: model says 'outside grammar', real code raises InvalidPattern or reports a listed pattern",
    "RE: patterns of the generated regex sub-grammar (no back-references, no inline flags, no named groups, no "
    "trailing slash or backslash) are checked by the oracle against Python re on the regex as written; they are "
    "not modelled in Lean",
]
TRUSTED = [
    "Python re (backtracking order of the greedy prefixes and of alternation) is modelled, not verified",
    "bzrformats normalize_pattern / Replacer (compiled Rust, external) are compared on every generated pattern",
    "the glob->regex translation is validated against the reference matcher on every case, not proved",
]

GROUP = 99


_FAMILY_SEEN = {}


def _violation(ctx, case, what, family=None):
    """record a property violation; a known input family is recorded a few times
    only (and counted), so that it cannot crowd out a NEW violation's replay"""
    if family is not None:
        ctx.count("finding:" + family)
        _FAMILY_SEEN[family] = _FAMILY_SEEN.get(family, 0) + 1
        if _FAMILY_SEEN[family] > 3:
            return
    ctx.violation(case, what, family=family)


# ----------------------------------------------------------------------
# encoding for the driver
def enc(s):
    return ".".join(str(ord(c)) for c in s) or "e"


def enc_list(lst):
    return ",".join(enc(p) for p in lst) or "-"


def dec(s):
    return "" if s == "e" else "".join(chr(int(x)) for x in s.split("."))


def show(res):
    """canonical form of a match() result"""
    return "N" if res is None else "S " + enc(res)


# ----------------------------------------------------------------------
# reference semantics (oracle) — written from the documentation, no `re`
class OutOfGrammar(Exception):
    pass


CLS_EXTRA = "._/*?+,=@ #~"


def _cls_char(c):
    return (c.isascii() and c.isalnum()) or c in CLS_EXTRA or ord(c) >= 128


def _parse_items(body):
    items = []
    i = 0
    if not body:
        raise OutOfGrammar("empty class")
    while i < len(body):
        a = body[i]
        if not _cls_char(a):
            raise OutOfGrammar("class char %r" % a)
        if i + 1 < len(body) and body[i + 1] == "-":
            if i + 2 >= len(body):
                raise OutOfGrammar("trailing dash")
            b = body[i + 2]
            if not _cls_char(b) or b < a:
                raise OutOfGrammar("bad range")
            items.append((a, b))
            i += 3
        else:
            items.append((a, a))
            i += 1
    return tuple(items)


def ref_parse(p, full):
    """normalised pattern text (without '*.' for extensions) -> token tuple"""
    out = []
    i = 0
    n = len(p)
    while i < n:
        c = p[i]
        if c == "[":
            j = p.find("]", i + 1)
            if j < 0:
                raise OutOfGrammar("unterminated class")
            body = p[i + 1:j]
            neg = body[:1] in ("!", "^")
            if neg:
                body = body[1:]
            if "[" in body:
                raise OutOfGrammar("nested bracket")
            out.append(("cls", neg, _parse_items(body)))
            i = j + 1
            continue
        if full and (i == 0 or p[i - 1] == "/"):
            k = i
            while True:
                if p.startswith("./", k):
                    k += 2
                elif p.startswith("/", k):
                    k += 1
                else:
                    break
            if k > i:          # "./" and "/" at the start of a segment mean nothing
                i = k
                continue
            k = i
            while k < n and p[k] == "*":
                k += 1
            if k - i >= 2 and k < n and p[k] == "/":
                out.append(("starstar",))
                i = k + 1
                continue
        if c == "*":
            while i < n and p[i] == "*":
                i += 1
            out.append(("star",))
        elif c == "?":
            out.append(("any1",))
            i += 1
        elif c in "]\\":
            raise OutOfGrammar("stray %r" % c)
        else:
            out.append(("lit", c))
            i += 1
    return tuple(out)


def ref_tokens_match(toks, s, full):
    @functools.lru_cache(maxsize=None)
    def go(ti, si):
        if ti == len(toks):
            return si == len(s)
        t = toks[ti]
        if t[0] == "star":
            k = si
            while True:
                if go(ti + 1, k):
                    return True
                if k < len(s) and (not full or s[k] != "/"):
                    k += 1
                else:
                    return False
        if t[0] == "starstar":
            if go(ti + 1, si):
                return True
            return any(s[k] == "/" and go(ti + 1, k + 1) for k in range(si, len(s)))
        if si >= len(s):
            return False
        x = s[si]
        if t[0] == "lit":
            ok = x == t[1]
        elif t[0] == "any1":
            ok = not full or x != "/"
        else:
            ok = any(lo <= x <= hi for lo, hi in t[2]) != t[1]
        return ok and go(ti + 1, si + 1)
    return go(0, 0)


def ref_kind(p):
    if p.startswith("RE:") or "/" in p:
        return "fullpath"
    if p.startswith("*."):
        return "extension"
    return "basename"


def ref_normalize(p):
    if not (p.startswith("RE:") or p.startswith("!RE:")):
        out = []
        prev = False
        for c in p:
            if c in "/\\":
                if not prev:
                    out.append("/")
                prev = True
            else:
                out.append(c)
                prev = False
        p = "".join(out)
    if len(p) > 1:
        p = p.rstrip("/")
    return p


def exc_body(p):
    """the pattern text an ExceptionGlobster hands to its Globsters"""
    return p[2:] if p.startswith("!!") else p[1:] if p.startswith("!") else p


@functools.lru_cache(maxsize=200000)
def _ref_compiled(p):
    """normalised pattern -> (kind, tokens); raises OutOfGrammar"""
    if p.startswith("RE:"):
        raise OutOfGrammar("RE:")
    k = ref_kind(p)
    if k == "fullpath":
        return k, ref_parse(p, True)
    if k == "extension":
        return k, ref_parse(p[2:], False)
    return k, ref_parse(p, False)


def ref_match(p, name):
    """does the normalised pattern match the path, by the documented rules"""
    if p.startswith("RE:"):
        return bool(_re_ref(p[3:]).match(name))      # the regular expression must match the whole path
    k, toks = _ref_compiled(p)
    if k == "fullpath":
        return ref_tokens_match(toks, name, True)
    base = name.rsplit("/", 1)[-1]
    if k == "basename":
        return ref_tokens_match(toks, base, False)
    # extension: "*.<rest>": some dot of the last component is followed by <rest>
    return any(base[i] == "." and ref_tokens_match(toks, base[i + 1:], False) for i in range(len(base)))


def in_grammar(p):
    try:
        _ref_compiled(ref_normalize(p))
        return True
    except OutOfGrammar:
        return False


# ----------------------------------------------------------------------
# generators
LET = "abcx"
SPECIALS = ["+", "(", ")", "$", "{", "}", "|", "^", " ", "é", "-", "_", "~", "#", ",", "!"]


def g_word(rng, lo=1, hi=3):
    return "".join(rng.choice(LET) for _ in range(rng.randint(lo, hi)))


def g_class(rng):
    neg = rng.choice(["", "", "!", "^"])
    items = []
    for _ in range(rng.randint(1, 3)):
        r = rng.random()
        if r < 0.6:
            items.append(rng.choice(LET + ".0_"))
        else:
            a, b = sorted(rng.sample("abcdwxyz", 2))
            items.append(a + "-" + b)
    return "[" + neg + "".join(items) + "]"


def g_atoms(rng, n=None, allow_dot=True):
    out = []
    for _ in range(n or rng.randint(1, 4)):
        r = rng.random()
        if r < 0.45:
            out.append(rng.choice(LET))
        elif r < 0.60:
            out.append("*" if rng.random() < 0.85 else "**")
        elif r < 0.70:
            out.append("?")
        elif r < 0.80 and allow_dot:
            out.append(".")
        elif r < 0.92:
            out.append(g_class(rng))
        else:
            out.append(rng.choice(SPECIALS))
    return "".join(out)


def g_pattern(rng, kind=None):
    kind = kind or rng.choice(["extension", "basename", "basename", "fullpath", "fullpath"])
    if kind == "extension":
        r = rng.random()
        if r < 0.5:
            return "*." + g_word(rng, 1, 2)
        if r < 0.75:
            return "*." + g_word(rng, 1, 1) + "." + g_word(rng, 1, 1)
        return "*." + g_atoms(rng)
    if kind == "basename":
        p = g_atoms(rng)
        if p.startswith("*.") and rng.random() < 0.7:
            p = "x" + p
        return p
    # fullpath
    segs = []
    for _ in range(rng.randint(1, 3)):
        r = rng.random()
        if r < 0.15:
            segs.append("**")
        elif r < 0.22:
            segs.append(".")
        elif r < 0.27:
            segs.append("***")
        else:
            segs.append(g_atoms(rng, rng.randint(1, 3)))
    sep = "/"
    r = rng.random()
    if r < 0.08:
        sep = "\\"
    elif r < 0.13:
        sep = "//"
    p = sep.join(segs)
    r = rng.random()
    if r < 0.12:
        p = "./" + p
    elif r < 0.22:
        p = "/" + p
    elif r < 0.34:
        p = "**/" + p
    if len(segs) == 1 and "/" not in p and "\\" not in p:
        p = p + "/" + g_atoms(rng, 1)
    if rng.random() < 0.08:
        p += "/"
    return p


def g_malformed(rng):
    r = rng.random()
    if r < 0.3:
        return "RE:" + rng.choice(["a.*", "^x/.*\\.c$", "(a|b)c", "a\\", "a(?P<n>b)", "[", "a/"])
    if r < 0.45:
        return g_word(rng) + "[" + g_word(rng)
    if r < 0.55:
        return "*.[[:digit:]]" if rng.random() < 0.5 else "[[:alnum:]]x"
    if r < 0.65:
        return "[c-a]" + g_word(rng)
    if r < 0.75:
        return g_word(rng) + "]" + g_word(rng)
    if r < 0.85:
        return "[" + rng.choice(["", "!", "^", "]", "a-", "-a"]) + "]" + g_word(rng, 0, 1)
    return "RE:" + g_word(rng) + "\\"


def instantiate(rng, p):
    """a file name that (probably) matches normalised in-grammar pattern p"""
    k, toks = _ref_compiled(p)
    out = []
    for t in toks:
        if t[0] == "lit":
            out.append(t[1])
        elif t[0] == "any1":
            out.append(rng.choice(LET))
        elif t[0] == "star":
            out.append(rng.choice(["", "", "a", "b.c", "xx", "."]))
        elif t[0] == "starstar":
            out.append(rng.choice(["", "a/", "a/b/", "x.a/"]))
        else:
            neg, items = t[1], t[2]
            if not neg:
                lo, hi = rng.choice(items)
                out.append(chr(rng.randint(ord(lo), ord(hi))))
            else:
                cands = [c for c in "abcxz.0_q" if not any(lo <= c <= hi for lo, hi in items)]
                out.append(rng.choice(cands or ["q"]))
    s = "".join(out)
    if k == "extension":
        s = rng.choice(["a", "x", "ab", "x.a", "a.b", ".c", "x.b.a"]) + "." + s
    if k != "fullpath" and rng.random() < 0.6:
        s = rng.choice(["a/", "b/c/", "x.a/", "a.b/c/"]) + s
    return s


def perturb(rng, s):
    r = rng.random()
    if not s:
        return "a"
    i = rng.randrange(len(s))
    if r < 0.3:
        return s[:i] + rng.choice(LET + "./") + s[i:]
    if r < 0.6:
        return s[:i] + s[i + 1:]
    if r < 0.8:
        return s[:i] + rng.choice(LET + ".") + s[i + 1:]
    return rng.choice(["a/", "x/"]) + s


def clean_name(s):
    """make s a file name: no empty components, no newline"""
    parts = [c for c in s.replace("\n", "").split("/") if c != ""]
    return "/".join(parts) or "a"


def g_name(rng):
    return "/".join(rng.choice(["a", "b", "x", "ab", "a.b", "x.a.b", ".a", "c.", "a.c", "b.a"])
                    for _ in range(rng.randint(1, 3)))


def g_names(rng, pats, k):
    names = []
    live = [p for p in pats if "zq" not in p] or pats     # not the fillers of big lists
    good = [q for q in (ref_normalize(p) for p in live) if in_grammar(q)]
    for _ in range(k):
        r = rng.random()
        if good and r < 0.7:
            s = instantiate(rng, rng.choice(good))
            if rng.random() < 0.35:
                s = perturb(rng, s)
        else:
            s = g_name(rng)
        names.append(clean_name(s))
    return names


def generalize(rng, name, kind=None):
    """a pattern of the given type that (probably) matches `name`"""
    comps = name.split("/")
    base = comps[-1]
    kind = kind or rng.choice(["extension", "basename", "fullpath"])

    def blur(seg):
        out = []
        i = 0
        while i < len(seg):
            r = rng.random()
            if r < 0.55:
                out.append(seg[i]); i += 1
            elif r < 0.70:
                out.append("?"); i += 1
            elif r < 0.85:
                out.append("*"); i += rng.randint(0, 2)
            elif seg[i].isalpha():
                out.append(rng.choice(["[%s]" % seg[i], "[!q]", "[a-z]", "[^0-9]"])); i += 1
            else:
                out.append(seg[i]); i += 1
        return "".join(out)
    if kind == "extension":
        dots = [i for i, c in enumerate(base) if c == "."]
        if not dots:
            return blur(base) or "*"
        i = rng.choice(dots)
        return "*." + (blur(base[i + 1:]) if rng.random() < 0.5 else base[i + 1:])
    if kind == "basename":
        p = blur(base) or "*"
        return p
    if len(comps) == 1:
        return rng.choice(["./", "/", "**/"]) + blur(base)
    r = rng.random()
    if r < 0.35:
        return "**/" + "/".join(blur(c) for c in comps[rng.randrange(len(comps)):])
    if r < 0.5:
        return comps[0] + "/**/" + blur(base)
    return rng.choice(["", "", "./", "/"]) + "/".join(blur(c) for c in comps)


def g_multi_list(rng, exc=False):
    """several patterns aimed at ONE name (so that order / precedence decide)"""
    name = g_name(rng)
    pats = [generalize(rng, name) for _ in range(rng.randint(2, 5))]
    pats += [g_pattern(rng) for _ in range(rng.randint(0, 2))]
    rng.shuffle(pats)
    if exc:
        pats = [rng.choice(["", "", "!", "!!"]) + p for p in pats]
    return pats, name


def filler(kind, i):
    return {"extension": "*.zq%d", "basename": "zq%d", "fullpath": "zq/%d"}[kind] % i


def g_small_list(rng, exc=False, malformed=False):
    n = rng.randint(1, 8)
    pats = [g_pattern(rng) for _ in range(n)]
    if rng.random() < 0.25 and pats:
        pats.append(rng.choice(pats))           # duplicate
    if rng.random() < 0.03:
        pats.append("")
    if malformed:
        pats.insert(rng.randrange(len(pats) + 1), g_malformed(rng))
    if exc:
        pats = [rng.choice(["", "", "!", "!!"]) + p for p in pats]
        if rng.random() < 0.05:
            pats.append(rng.choice(["!", "!!"]))
    return pats


def g_big_list(rng, exc=False):
    """>99 patterns of one type; live patterns near the group boundaries"""
    kind = rng.choice(["extension", "basename", "fullpath"])
    total = rng.choice([100, 101, 150, 198, 199, 200, 230, 298, 330])
    aimed = None
    pats = [filler(kind, i) for i in range(total)]
    spots = [98, 99, 100, 197, 198, 199, 296, 297, 298, 0, 1]
    for _ in range(rng.randint(1, 4)):
        i = rng.choice(spots) if rng.random() < 0.8 else rng.randrange(total)
        if i < total:
            pats[i] = g_pattern(rng, kind)
    if kind == "extension" and rng.random() < 0.5:
        # two extension patterns that match one name at different dots
        w1, w2 = g_word(rng, 1, 1), g_word(rng, 1, 2)
        i, j = rng.choice([(98, 99), (99, 98), (97, 99), (0, 99), (98, 98 + 99), (197, 198), (1, 2), (99, 100)])
        if j < total and i < total:
            pats[i] = "*.%s.%s" % (w1, w2)
            pats[j] = "*." + w2
            aimed = rng.choice(["", "a/", "x.a/b/"]) + rng.choice(["x", "a.b", "c"]) + ".%s.%s" % (w1, w2)
    # a few patterns of the other types in between (they do not count for the boundary)
    for _ in range(rng.randint(0, 4)):
        pats.insert(rng.randrange(len(pats) + 1), g_pattern(rng))
    if exc:
        pre = rng.choice(["", "!", "!!"])
        pats = [(pre if p.startswith(("*.zq", "zq")) else rng.choice(["", "!", "!!"])) + p for p in pats]
    return pats, aimed


# ----------------------------------------------------------------------
# RE: patterns — reference = Python `re` on the regex exactly as the user wrote it
# (the whole path must match), generator = small regex ASTs that can be instantiated
import re as _re

RE_LET = "abcx"


def g_re_ast(rng, depth=0):
    """('seq', [nodes]); nodes: lit/esc/dot/cls/grp/rep"""
    nodes = []
    for _ in range(rng.randint(1, 4 if depth == 0 else 2)):
        r = rng.random()
        if r < 0.40:
            n = ("lit", rng.choice(RE_LET + "/"))
        elif r < 0.48:
            n = ("dot",)
        elif r < 0.58:
            n = ("esc", rng.choice(".()[|+*?$\\"))            # an escaped metacharacter = that literal character
        elif r < 0.70:
            chars = "".join(rng.sample(RE_LET + "().:?", rng.randint(1, 3)))
            n = ("cls", rng.random() < 0.25, chars)
        elif r < 0.88 and depth < 2:
            kind = rng.choice(["cap", "cap", "non"])
            alts = [g_re_ast(rng, depth + 1) for _ in range(rng.randint(1, 2))]
            n = ("grp", kind, alts)
        else:
            n = ("lit", rng.choice(RE_LET))
        if n[0] != "grp" or rng.random() < 0.5:
            q = rng.random()
            if q < 0.12:
                n = ("rep", "*", n)
            elif q < 0.2:
                n = ("rep", "?", n)
            elif q < 0.26:
                n = ("rep", "+", n)
        nodes.append(n)
    return ("seq", nodes)


def re_src(n):
    t = n[0]
    if t == "seq":
        return "".join(re_src(x) for x in n[1])
    if t == "lit":
        return n[1]
    if t == "esc":
        return "\\" + n[1]
    if t == "dot":
        return "."
    if t == "cls":
        return "[" + ("^" if n[1] else "") + n[2] + "]"
    if t == "grp":
        return ("(" if n[1] == "cap" else "(?:") + "|".join(re_src(a) for a in n[2]) + ")"
    if t == "rep":
        return re_src(n[2]) + n[1]
    raise ValueError(n)


def re_sample(rng, n):
    """a string the regex (probably) matches"""
    t = n[0]
    if t == "seq":
        return "".join(re_sample(rng, x) for x in n[1])
    if t in ("lit", "esc"):
        return n[1]
    if t == "dot":
        return rng.choice(RE_LET + ".(:")
    if t == "cls":
        if not n[1]:
            if "(" in n[2] and rng.random() < 0.3:
                return rng.choice("?:(")          # what a rewritten '(' inside a class would additionally admit
            return rng.choice(n[2])
        return rng.choice([c for c in RE_LET + "z" if c not in n[2]] or ["z"])
    if t == "grp":
        return re_sample(rng, rng.choice(n[2]))
    if t == "rep":
        k = {"*": rng.choice([0, 1, 2]), "?": rng.choice([0, 1]), "+": rng.choice([1, 2])}[n[1]]
        return "".join(re_sample(rng, n[2]) for _ in range(k))
    raise ValueError(n)


def g_re_pattern(rng):
    """(pattern text 'RE:…', ast); the regex has no trailing slash/backslash (normalisation / the
    trailing-backslash rule would rewrite it) and no top-level alternation issue: `a|b` is legal"""
    while True:
        ast = g_re_ast(rng)
        if rng.random() < 0.15:
            ast = ("seq", [("grp", "non", [ast, g_re_ast(rng, 1)])])     # top-level a|b, grouped
        src = re_src(ast)
        if src.endswith("/") or src.endswith("\\") and not src.endswith("\\\\"):
            continue
        try:
            _re.compile(src)
        except _re.error:
            continue
        return "RE:" + src, ast


@functools.lru_cache(maxsize=50000)
def _re_ref(src):
    return _re.compile("(?:%s)$" % src, _re.UNICODE)


def is_re(p):
    return p.startswith("RE:")


_ESC_PAREN = _re.compile(r"(?<!\\)(?:\\\\)*\\\(")


def _paren_in_class(src):
    """an unescaped '(' inside a character class"""
    i, n, incls = 0, len(src), False
    while i < n:
        c = src[i]
        if c == "\\":
            i += 2
            continue
        if incls:
            if c == "]":
                incls = False
            elif c == "(":
                return True
        elif c == "[":
            incls = True
            if i + 1 < n and src[i + 1] == "^":
                i += 1
            if i + 1 < n and src[i + 1] == "]":
                i += 1
        i += 1
    return False


def re_family(pats, name):
    """classifier on the concrete input: find the RE: patterns whose OWN single-pattern behaviour on `name`
    differs from Python `re` on the regex as written; the family is named only if every such pattern carries
    the construct"""
    from breezy import globbing
    culprits = []
    for p in pats:
        q = ref_normalize(exc_body(p) if p.startswith("!") else p)
        if not is_re(q):
            continue
        try:
            got = globbing.Globster([q]).match(name) is not None
        except Exception:
            got = None
        if got != bool(_re_ref(q[3:]).match(name)):
            culprits.append(q[3:])
    if not culprits:
        return None
    if all(_ESC_PAREN.search(c) for c in culprits):
        return "re-escaped-open-paren-rewritten"
    if all(_paren_in_class(c) or _ESC_PAREN.search(c) for c in culprits):
        return "re-open-paren-in-class-rewritten"
    return None


# ----------------------------------------------------------------------
# running the real code
def _impl(op, pats, name):
    from breezy import globbing, lazy_regex
    try:
        if op == "glob":
            return show(globbing.Globster(list(pats)).match(name))
        if op == "exc":
            return show(globbing.ExceptionGlobster(list(pats)).match(name))
        if op == "ord":
            return show(globbing._OrderedGlobster(list(pats)).match(name))
    except lazy_regex.InvalidPattern:
        return "E:InvalidPattern"
    except Exception as e:      # any other exception is a wrong answer, not an infrastructure problem
        return "E:" + type(e).__name__
    raise ValueError(op)


class _Matchers:
    """build each real matcher once per pattern list"""

    def __init__(self, op, pats):
        from breezy import globbing
        cls = {"glob": globbing.Globster, "exc": globbing.ExceptionGlobster, "ord": globbing._OrderedGlobster}[op]
        self.m = cls(list(pats))

    def match(self, name):
        from breezy import lazy_regex
        try:
            return show(self.m.match(name))
        except lazy_regex.InvalidPattern:
            return "E:InvalidPattern"
        except Exception as e:
            return "E:" + type(e).__name__


def split_exc(pats):
    p0, p1, p2 = [], [], []
    for p in pats:
        if p.startswith("!!"):
            p2.append(p[2:])
        elif p.startswith("!"):
            p1.append(p[1:])
        else:
            p0.append(p)
    return p0, p1, p2


def oracle_list(ctx, op, pats, name, got, case, fam=None):
    """the property's predicate on the real result `got` (canonical string); `fam` = classifier called
    with (pats, name) when a violation is found"""
    _v = globals()["_violation"]

    def _violation(ctx, case, what):        # local wrapper adding the family
        _v(ctx, case, what, family=fam(pats, name) if fam else None)
    if got.startswith("E:"):
        _violation(ctx, case, "in-grammar pattern list raised %s" % got)
        return False
    res = None if got == "N" else dec(got[2:])
    if op in ("glob", "ord"):
        norm = [ref_normalize(p) for p in pats]
        matching = [p for p in norm if ref_match(p, name)]
        if res is None:
            if matching:
                _violation(ctx, case, "%s: not ignored although %r matches %r" % (op, matching[0], name))
                return False
        else:
            if res not in norm:
                _violation(ctx, case, "%s: reported %r is not one of the patterns" % (op, res))
                return False
            if res not in matching:
                _violation(ctx, case, "%s: reported %r does not match %r" % (op, res, name))
                return False
        if op == "ord" and matching and res != matching[0]:
            _violation(ctx, case, "ordered: reported %r, first matching is %r" % (res, matching[0]))
            return False
        return bool(matching)
    p0, p1, p2 = split_exc(pats)
    m = [[q for q in (ref_normalize(p) for p in lst) if ref_match(q, name)] for lst in (p0, p1, p2)]
    if m[2]:
        ok = res is not None and res.startswith("!!") and res[2:] in m[2]
        want = "'!!' + one of %r" % (m[2][:3],)
    elif m[1]:
        ok = res is None
        want = "None (exception %r)" % (m[1][0],)
    elif m[0]:
        ok = res in m[0]
        want = "one of %r" % (m[0][:3],)
    else:
        ok = res is None
        want = "None (nothing matches)"
    if not ok:
        _violation(ctx, case, "exception precedence: %r on %r gave %r, expected %s" % (
            pats if len(pats) < 12 else "<%d patterns>" % len(pats), name, res, want))
    return bool(m[0] or m[1] or m[2])


def ext_regroup_family(pats, name, a, b):
    """specific classifier: both results are extension patterns of the list that
    match the name at DIFFERENT dots of its last component"""
    if a is None or b is None or a == b:
        return None
    if ref_kind(a) != "extension" or ref_kind(b) != "extension":
        return None
    base = name.rsplit("/", 1)[-1]
    try:
        ta, tb = _ref_compiled(a)[1], _ref_compiled(b)[1]
    except OutOfGrammar:
        return None
    da = {i for i in range(len(base)) if base[i] == "." and ref_tokens_match(ta, base[i + 1:], False)}
    db = {i for i in range(len(base)) if base[i] == "." and ref_tokens_match(tb, base[i + 1:], False)}
    if da and db and (max(da) != max(db)):
        return "ext-multidot-regroup"
    return None


def oracle_padding(ctx, op, pats, name, got, case, rng_k):
    """the result must not depend on how many (never matching) patterns there are"""
    if op == "ord" or got.startswith("E:"):
        return
    combos = [("", kind, where) for kind in ("extension", "basename", "fullpath") for where in ("front", "back")]
    if op == "exc":
        # never-matching '!' and '!!' patterns move the 99-boundaries of the two exception lists
        combos += [(pre, kind, ("front", "back")[(i + rng_k) % 2])
                   for pre in ("!", "!!") for i, kind in enumerate(("extension", "basename", "fullpath"))]
    for pre, kind, where in combos:
        pad = [pre + filler(kind, 900000 + i) for i in range(rng_k)]
        if True:
            padded = (pad + list(pats)) if where == "front" else (list(pats) + pad)
            got2 = _impl(op, padded, name)
            if got2 != got:
                def body(x):
                    if not x.startswith("S "):
                        return None
                    t = dec(x[2:])
                    return t[2:] if (op == "exc" and t.startswith("!!")) else t
                a, b = body(got), body(got2)
                fam = ext_regroup_family(pats, name, a, b)
                _violation(ctx, dict(case, pad=dict(kind=kind, n=rng_k, where=where, pre=pre)),
                              "result depends on the number of patterns: %s gives %s, with %d never-matching %r "
                              "patterns at the %s %s" % (op, _pp(got), rng_k, pre + filler(kind, 0)[:-1], where, _pp(got2)),
                              family=fam)
                return


def _pp(s):
    return "None" if s == "N" else (repr(dec(s[2:])) if s.startswith("S ") else s)


_VARIANT = [None]


def variant():
    """which shape the extension regex has in the code under test (read from the
    live objects): 'greedy' = shared prefix `(?:.*\\.)` (current code), 'inorder'
    = every alternative carries its own `.*\\.`; anything else is not modelled"""
    if _VARIANT[0] is None:
        from breezy import globbing
        pi = globbing.Globster.pattern_info
        ext = (pi["extension"]["prefix"], pi["extension"]["translator"]("*.x"))
        base = pi["basename"]["prefix"]
        if ext == (base + r"(?:.*\.)", "x"):
            _VARIANT[0] = "greedy"
        elif ext == (base, r".*\.x") or ext == (base, r"(?:.*\.)x"):
            _VARIANT[0] = "inorder"
        else:
            _VARIANT[0] = "unknown"
    return _VARIANT[0]


def _line(op, pats, name, g=GROUP):
    if op == "ord":
        return "ord %s %s" % (enc_list(pats), enc(name))
    return "%s %s %d %s %s" % (op, variant(), g, enc_list(pats), enc(name))


# ----------------------------------------------------------------------
def run_lists(ctx, n_small, n_big, n_mal):
    rng = ctx.rng
    cases, lines, outs = [], [], []
    plan = [("small", False)] * n_small + [("big", False)] * n_big + [("small", True)] * n_mal
    for size, mal in plan:
        op = rng.choice(["glob", "glob", "exc", "exc", "ord"]) if size == "small" else rng.choice(["glob", "glob", "exc"])
        aimed = None
        if size == "small" and not mal and rng.random() < 0.4:
            pats, aimed = g_multi_list(rng, exc=(op == "exc"))
        elif size == "small":
            pats = g_small_list(rng, exc=(op == "exc"), malformed=mal)
        else:
            pats, aimed = g_big_list(rng, exc=(op == "exc"))
        stripped = [exc_body(p) if op == "exc" else p for p in pats]
        ok_grammar = all(in_grammar(p) for p in stripped)
        names = g_names(rng, stripped, ctx.pick(3, 5) if size == "small" else 4)
        if aimed:
            names[0] = aimed
        try:
            m = _Matchers(op, pats)
        except Exception as e:  # construction is lazy; nothing should raise here
            _violation(ctx, dict(op=op, pats=pats), "constructor raised %r" % (e,))
            continue
        for name in names:
            case = dict(op=op, pats=pats, name=name)
            got = m.match(name)
            ctx.count("op:" + op)
            ctx.count("size:" + ("<=9" if len(pats) <= 9 else ">99"))
            if not ok_grammar:
                # malformed stream: accept/reject only
                ctx.count("malformed:" + ("raised" if got.startswith("E:") else "answered"))
                if got.startswith("E:") and got != "E:InvalidPattern":
                    _violation(ctx, case, "match raised %s" % got[2:])
                if got.startswith("S "):
                    res = dec(got[2:])
                    allowed = set()
                    for p in pats:
                        if op == "exc":
                            if p.startswith("!!"):
                                allowed.add("!!" + ref_normalize(p[2:]))
                            elif not p.startswith("!"):
                                allowed.add(ref_normalize(p))
                        else:
                            allowed.add(ref_normalize(p))
                    if res not in allowed:
                        _violation(ctx, case, "reported %r is not one of the patterns" % (res,))
                ctx.case(case, nontrivial=False)
                cases.append(case)
                lines.append(_line(op, pats, name))
                outs.append("E")
                continue
            hit = oracle_list(ctx, op, pats, name, got, case)
            big = len(pats) > 99
            ctx.case(case, nontrivial=hit or big)
            ctx.count("result:" + ("none" if got == "N" else "some"))
            if hit:
                ctx.count("hit")
            if op != "ord" and (big or rng.random() < 0.22):
                ctx.count("padded:" + op)
                oracle_padding(ctx, op, pats, name, got, case, rng.choice([1, 2, 50, 98, 99]))
            cases.append(case)
            lines.append(_line(op, pats, name))
            outs.append(got)
    ctx.diff(cases, lines, outs)


def run_re(ctx, n):
    """lists with RE: patterns (alone, mixed with globs, under '!' / '!!'): the model does not cover regular
    expressions (it must answer 'outside grammar'); the oracle is the documented rule 'an RE: pattern matches
    when the regular expression matches the whole path' with Python `re` on the regex as written"""
    rng = ctx.rng
    cases, lines, outs = [], [], []
    for _ in range(n):
        op = rng.choice(["glob", "glob", "exc", "ord"])
        res = [g_re_pattern(rng) for _ in range(rng.randint(1, 3))]
        pats = [p for p, _ in res]
        for _ in range(rng.randint(0, 3)):
            q = g_pattern(rng)
            if in_grammar(q):
                pats.append(q)
        rng.shuffle(pats)
        if rng.random() < 0.15:
            # more than 99 fullpath patterns: RE: patterns next to the group boundary
            fill = [filler("fullpath", i) for i in range(rng.choice([97, 98, 99, 120]))]
            k = rng.randrange(len(fill) + 1)
            pats = fill[:k] + pats + fill[k:]
        if op == "exc":
            pats = [rng.choice(["", "", "!", "!!"]) + p for p in pats]
        names = []
        for p, ast in res:
            s = re_sample(rng, ast)
            names.append(s)
            names.append(perturb(rng, s))
        names.append(g_name(rng))
        names = [x.replace("\n", "") for x in names]
        names = [x for x in dict.fromkeys(names) if x and not x.endswith("/") and "//" not in x and not x.startswith("/")]
        try:
            m = _Matchers(op, pats)
        except Exception as e:
            _violation(ctx, dict(op=op, pats=pats), "constructor raised %r" % (e,))
            continue
        for name in names[:5]:
            case = dict(op=op, pats=pats, name=name, stream="re")
            got = m.match(name)
            hit = oracle_list(ctx, op, pats, name, got, case, fam=re_family)
            ctx.case(case, nontrivial=hit)
            ctx.count("op:re-" + op)
            ctx.count("re:" + ("hit" if hit else "miss"))
            if rng.random() < 0.1:
                oracle_padding(ctx, op, pats, name, got, case, rng.choice([1, 50, 99]))
            cases.append(case)
            lines.append(_line(op, pats, name))
            outs.append("E")
    ctx.diff(cases, lines, outs)


def run_norm(ctx, n):
    """normalize_pattern / identify on every kind of generated pattern"""
    from breezy import globbing
    rng = ctx.rng
    cases, lines, outs = [], [], []
    for _ in range(n):
        p = g_malformed(rng) if rng.random() < 0.15 else g_pattern(rng)
        if rng.random() < 0.2:
            p = rng.choice(["!", "!!", "/", "\\", "//", "a//", "./", "!RE:a//b", ""]) + p
        if rng.random() < 0.1:
            p += rng.choice(["/", "//", "\\", "/\\/"])
        np_ = globbing.normalize_pattern(p)
        if globbing.normalize_pattern(np_) != np_:
            _violation(ctx, dict(op="norm", pat=p), "normalize_pattern not idempotent on %r" % p)
        if np_ != ref_normalize(p):
            _violation(ctx, dict(op="norm", pat=p), "normalize_pattern(%r) = %r, documented %r" % (p, np_, ref_normalize(p)))
        k = globbing.Globster.identify(np_)
        if k != ref_kind(np_):
            _violation(ctx, dict(op="ident", pat=p), "identify(%r) = %s, documented %s" % (np_, k, ref_kind(np_)))
        ctx.case(dict(op="norm", pat=p), nontrivial=np_ != p)
        ctx.count("kind:" + k)
        for op, out in (("norm", enc(np_)), ("ident", k)):
            cases.append(dict(op=op, pat=p))
            lines.append("%s %s" % (op, enc(p)))
            outs.append(out)
    ctx.diff(cases, lines, outs)


def _ignore_file_text(rng, pats):
    lines = []
    for p in pats:
        if rng.random() < 0.2:
            lines.append("# " + g_word(rng))
        if rng.random() < 0.1:
            lines.append("")
        lines.append(p)
    eol = rng.choice(["\n", "\n", "\r\n"])
    return eol.join(lines) + rng.choice(["", eol])


def tree_case(tree_path, text, names):
    """is_ignored through a real working tree; returns (ignore list in the order used, results)"""
    import os
    from breezy.workingtree import WorkingTree
    with open(os.path.join(tree_path, ".bzrignore"), "wb") as f:
        f.write(text.encode("utf-8"))
    wt = WorkingTree.open(tree_path)
    with wt.lock_read():
        lst = list(wt.get_ignore_list())
        res = []
        for n in names:
            try:
                res.append(show(wt.is_ignored(n)))
            except Exception as e:
                res.append("E:" + type(e).__name__)
        lst2 = list(wt.get_ignore_list())
    if lst != lst2:
        raise env.InfraError("ignore list order not stable")
    return lst, res


def run_tree(ctx, n):
    rng = ctx.rng
    wt = env.make_tree("2a")
    path = wt.basedir
    cases, lines, outs = [], [], []
    for _ in range(n):
        pats = [p for p in g_small_list(rng, exc=True) if p and not p.startswith("#")]
        pats = [p for p in pats if in_grammar(exc_body(p))]
        text = _ignore_file_text(rng, pats)
        names = g_names(rng, [exc_body(p) for p in pats], 4)
        lst, res = tree_case(path, text, names)
        want = set()
        for p in pats:
            want.add(ref_normalize(p))
        missing = [p for p in want if p not in lst]
        case0 = dict(op="tree", text=text, names=names)
        if missing:
            _violation(ctx, case0, ".bzrignore pattern(s) %r missing from the tree's ignore list" % (missing,))
        extra = [p for p in lst if p not in want and p.startswith("# ")]
        if extra:
            _violation(ctx, case0, "comment line(s) %r taken as patterns" % (extra,))
        for name, got in zip(names, res):
            case = dict(op="tree", text=text, name=name, order=lst)
            hit = oracle_list(ctx, "exc", lst, name, got, case)
            ctx.case(dict(op="tree", text=text, name=name), nontrivial=hit)
            ctx.count("op:tree")
            cases.append(case)
            lines.append(_line("exc", lst, name))
            outs.append(got)
    ctx.diff(cases, lines, outs)


def run(ctx):
    import os
    import json
    import logging
    logging.getLogger("brz").setLevel(logging.ERROR)   # RE: patterns make the translators warn
    cdir = os.path.join(env.VERIF, "corpus", "C48")
    if os.path.isdir(cdir):
        for fn in sorted(os.listdir(cdir)):
            if fn.endswith(".json"):
                case = json.load(open(os.path.join(cdir, fn)))
                _replay_one(ctx, case)
    ctx.extra["extension_regex_variant"] = variant()
    if variant() == "unknown":
        from breezy import globbing
        ctx.mismatch(dict(op="shape"), repr(globbing.Globster.pattern_info["extension"]["prefix"]),
                     "extension prefix/translator shape not modelled")
    elif variant() != "inorder":
        # the theorems about the live model functions (globsterMatchO / exceptionMatchO) do not describe this code
        ctx.mismatch(dict(op="shape"), "extension regex variant %r" % variant(),
                     "inorder (every extension alternative carries its own prefix, ac6b52e); the shared greedy "
                     "prefix makes the reported pattern depend on the grouping (family ext-multidot-regroup)")
    run_norm(ctx, ctx.pick(3000, 30000))
    run_re(ctx, ctx.pick(1200, 12000))
    run_lists(ctx, ctx.pick(6000, 60000), ctx.pick(400, 4000), ctx.pick(600, 6000))
    run_tree(ctx, ctx.pick(60, 600))
    # violations outside the input-classified families first (stable sort)
    # then a regression into the repaired family, then the remaining families
    ctx.violations.sort(key=lambda v: 0 if v.get("family") is None else 1 if v["family"] == "ext-multidot-regroup" else 2)


def _replay_one(ctx, case):
    op = case["op"]
    if op in ("norm", "ident"):
        from breezy import globbing
        p = case["pat"]
        np_ = globbing.normalize_pattern(p)
        impl = enc(np_) if op == "norm" else globbing.Globster.identify(np_)
        if np_ != ref_normalize(p):
            _violation(ctx, case, "normalize_pattern(%r) = %r, documented %r" % (p, np_, ref_normalize(p)))
        model = ctx.model(["%s %s" % (op, enc(p))])[0]
        return dict(impl=impl, model=model)
    if op == "tree":
        wt = env.make_tree("2a")
        names = case.get("names") or [case["name"]]
        lst, res = tree_case(wt.basedir, case["text"], names)
        outs = {}
        for name, got in zip(names, res):
            oracle_list(ctx, "exc", lst, name, got, dict(case, order=lst))
            outs[name] = dict(impl=got, model=ctx.model([_line("exc", lst, name)])[0])
        return dict(order=lst, results=outs)
    pats, name = case["pats"], case["name"]
    got = _impl(op, pats, name)
    model = ctx.model([_line(op, pats, name)])[0]
    if case.get("stream") == "re":
        oracle_list(ctx, op, pats, name, got, case, fam=re_family)
        if "pad" in case:
            oracle_padding(ctx, op, pats, name, got, dict(op=op, pats=pats, name=name, stream="re"), case["pad"]["n"])
        if model != "E":
            ctx.mismatch(case, "E", model)
        return dict(impl=got, model=model, reference={ref_normalize(exc_body(p) if op == "exc" else p): ref_match(
            ref_normalize(exc_body(p) if op == "exc" else p), name) for p in pats if "zq" not in p},
            family=re_family(pats, name))
    grammar = all(in_grammar(exc_body(p) if op == "exc" else p) for p in pats)
    if grammar:
        oracle_list(ctx, op, pats, name, got, case)
        if "pad" in case:
            oracle_padding(ctx, op, pats, name, got, dict(op=op, pats=pats, name=name), case["pad"]["n"])
        if got != model:
            ctx.mismatch(case, got, model)
    return dict(impl=got, model=model, in_grammar=grammar)


def widen(ctx):
    run_lists(ctx, 6000, 600, 0)


def replay(ctx, case):
    r = _replay_one(ctx, case)
    r["oracle_failures"] = [v["what"] for v in ctx.violations]
    return r
