import BreezyVerif.Lemmas.C49
/-!
C49 — theorems.  Quantified over all locations, all lists of sections (any
number, any glob token lists), all option lists and all values.
-/
namespace BreezyVerif.C49

/-! ### section matching -/

/-- component-wise glob prefix match, as a specification -/
inductive PrefixMatch : List Str → List (List GTok) → Prop where
  | nil (loc : List Str) : PrefixMatch loc []
  | cons {l : Str} {s : List GTok} {ls : List Str} {ss : List (List GTok)} :
      gmatch s l = true → PrefixMatch ls ss → PrefixMatch (l :: ls) (s :: ss)

/-- a section matches a location iff its components are a glob-wise prefix of
the location's components -/
theorem section_match_iff (loc : List Str) (sec : List (List GTok)) :
    compsMatch loc sec = true ↔ PrefixMatch loc sec := by
  induction sec generalizing loc with
  | nil =>
    constructor
    · intro _; exact PrefixMatch.nil loc
    · intro _; simp [compsMatch]
  | cons s ss ih =>
    cases loc with
    | nil =>
      constructor
      · intro h; simp [compsMatch] at h
      · intro h; cases h
    | cons l ls =>
      have hstep : compsMatch (l :: ls) (s :: ss) = (gmatch s l && compsMatch ls ss) := by
        simp only [compsMatch, List.length_cons, List.zip_cons_cons, List.all_cons]
        by_cases hlen : ss.length ≤ ls.length
        · have h1 : ss.length + 1 ≤ ls.length + 1 := by omega
          simp [hlen, h1]
        · have h1 : ¬ ss.length + 1 ≤ ls.length + 1 := by omega
          simp [hlen, h1]
      rw [hstep, Bool.and_eq_true, ih]
      constructor
      · rintro ⟨h1, h2⟩; exact PrefixMatch.cons h1 h2
      · intro h; cases h with
        | cons h1 h2 => exact ⟨h1, h2⟩

theorem PrefixMatch.length_le {loc : List Str} {sec : List (List GTok)} (h : PrefixMatch loc sec) :
    sec.length ≤ loc.length := by
  induction h with
  | nil => simp
  | cons _ _ ih => simp only [List.length_cons]; omega

/-- the extra path is exactly the unmatched suffix: the (right-stripped)
location is the matched components, a `/`, and the extra path — or the
matched components alone when nothing is left (then the extra path is empty) -/
theorem extra_is_unmatched_suffix (location : Str) (sec : List (List GTok))
    (hm : compsMatch (parts location) sec = true) (hs : sec ≠ []) :
    (sec.length < (parts location).length →
      rstripSlash location = joinSlash ((parts location).take sec.length) ++ '/' :: extraPath (parts location) sec.length) ∧
    (sec.length = (parts location).length →
      extraPath (parts location) sec.length = [] ∧ rstripSlash location = joinSlash ((parts location).take sec.length)) := by
  have hle := ((section_match_iff _ _).mp hm).length_le
  have hj : joinSlash (parts location) = rstripSlash location := joinSlash_splitSlash _
  have hpos : 0 < sec.length := List.length_pos_iff.mpr hs
  constructor
  · intro hlt
    rw [← hj]
    conv => lhs; rw [← List.take_append_drop sec.length (parts location)]
    unfold extraPath
    apply joinSlash_append
    · intro h
      have h2 : ((parts location).take sec.length).length = 0 := by rw [h]; rfl
      rw [List.length_take] at h2; omega
    · intro h
      have h2 : ((parts location).drop sec.length).length = 0 := by rw [h]; rfl
      rw [List.length_drop] at h2; omega
  · intro heq
    unfold extraPath
    rw [heq, List.drop_length, List.take_length, hj]
    exact ⟨rfl, rfl⟩

/-- `_iter_for_location_by_parts` yields exactly the matching sections, each
with its unmatched suffix and its number of components, in the given order -/
theorem iter_by_parts_spec (secs : List PSec) (location : Str) :
    iterByParts secs location =
      (secs.filter fun s => compsMatch (parts location) s.comps).map fun s =>
        (s, extraPath (parts location) s.comps.length, s.comps.length) := by
  unfold iterByParts
  induction secs with
  | nil => rfl
  | cons s r ih =>
    simp only [List.filterMap_cons, List.filter_cons]
    by_cases h : compsMatch (parts location) s.comps = true
    · simp [h, ih]
    · simp [h, ih]

/-! ### order -/

/-- the candidates are consulted in order of decreasing number of matched
components (ties: decreasing id) — for every pair of positions -/
theorem most_specific_first (noName : Option (List (Str × Str))) (secs : List PSec) (location : Str) :
    ((matchingSections noName secs location).mergeSort keyGe).Pairwise
      (fun a b => b.1 < a.1 ∨ (a.1 = b.1 ∧ strLe b.2.1 a.2.1 = true)) := by
  have h := List.pairwise_mergeSort (le := keyGe) keyGe_trans keyGe_total (matchingSections noName secs location)
  refine h.imp ?_
  intro a b hab
  simpa [keyGe] using hab

/-- sorting neither loses nor invents a section -/
theorem sorted_is_permutation (noName : Option (List (Str × Str))) (secs : List PSec) (location : Str) :
    ((matchingSections noName secs location).mergeSort keyGe).Perm (matchingSections noName secs location) :=
  List.mergeSort_perm _ _

/-- `Stack.get` returns the (unquoted) value of the FIRST section, in the order
they are consulted, that defines the option -/
theorem value_from_first_defining (secs : List LocSection) (name v : Str)
    (h : stackGet secs name = .val v) :
    ∃ l₁ s l₂ raw, secs = l₁ ++ s :: l₂ ∧ (∀ x ∈ l₁, secGet' x name = none) ∧
      secGet' s name = some raw ∧ v = unquote raw := by
  unfold stackGet at h
  cases hf : secs.findSome? (fun s => secGet' s name) with
  | none => rw [hf] at h; simp at h
  | some raw =>
    rw [hf] at h
    simp only at h
    split at h
    · simp at h
    · obtain ⟨l₁, s, l₂, hsecs, hs, hbefore⟩ := List.findSome?_eq_some_iff.mp hf
      refine ⟨l₁, s, l₂, raw, hsecs, hbefore, hs, ?_⟩
      cases h; rfl

/-- and it is `None` exactly when no consulted section defines it -/
theorem none_iff_no_section_defines (secs : List LocSection) (name : Str) :
    stackGet secs name = .none ↔ ∀ s ∈ secs, secGet' s name = none := by
  unfold stackGet
  cases hf : secs.findSome? (fun s => secGet' s name) with
  | none =>
    constructor
    · intro _; exact List.findSome?_eq_none_iff.mp hf
    · intro _; rfl
  | some raw =>
    have : ¬ ∀ s ∈ secs, secGet' s name = none := by
      intro hall
      have := List.findSome?_eq_none_iff.mpr hall
      rw [hf] at this; simp at this
    simp only [this, iff_false]
    split <;> simp

/-! ### ignore_parents -/

/-- the search stops at the first section (most specific first) whose
`ignore_parents` is true: nothing yielded is ignoring, and what is cut off
starts with an ignoring section -/
theorem ignore_parents_stops (noName : Option (List (Str × Str))) (secs : List PSec) (location : Str) :
    ∃ rest, sortedSections noName secs location = locationSections noName secs location ++ rest ∧
      (∀ s ∈ locationSections noName secs location, ignoring s = false) ∧
      (∀ r ∈ rest.head?, ignoring r = true) := by
  refine ⟨(sortedSections noName secs location).dropWhile fun s => !ignoring s, ?_, ?_, ?_⟩
  · unfold locationSections; exact List.takeWhile_append_dropWhile.symm
  · intro s hs
    have := mem_takeWhile_true _ _ s hs
    simpa using this
  · intro r hr
    have := List.head?_dropWhile_not (fun s => !ignoring s) (sortedSections noName secs location)
    rw [Option.mem_def] at hr
    rw [hr] at this
    simpa using this

/-- the documented cut (`cutAfterIgnoring`) is the code's cut plus the first
ignoring section: the code omits EXACTLY that one section -/
theorem ignore_parents_gap (l : List LocSection) :
    cutAfterIgnoring l = l.takeWhile (fun s => !ignoring s) ++ ((l.dropWhile fun s => !ignoring s).head?).toList := by
  induction l with
  | nil => rfl
  | cons s r ih =>
    unfold cutAfterIgnoring
    by_cases h : ignoring s = true
    · simp [h]
    · have h' : ignoring s = false := by simpa using h
      simp [h', ih]

/-- PARTIAL: the code agrees with the documented semantics of `ignore_parents`
when no candidate section sets it to true.  Otherwise see the witness below. -/
theorem ignore_parents_partial (noName : Option (List (Str × Str))) (secs : List PSec) (location : Str)
    (h : ∀ s ∈ sortedSections noName secs location, ignoring s = false) :
    locationSections noName secs location = cutAfterIgnoring (sortedSections noName secs location) := by
  rw [ignore_parents_gap]
  unfold locationSections
  have hd : ∀ l : List LocSection, (∀ s ∈ l, ignoring s = false) →
      l.dropWhile (fun s => !ignoring s) = [] ∧ l.takeWhile (fun s => !ignoring s) = l := by
    intro l
    induction l with
    | nil => intro _; exact ⟨rfl, rfl⟩
    | cons a r ih =>
      intro hl
      have ha := hl a (by simp)
      have ihr := ih (fun s hs => hl s (by simp [hs]))
      simp [List.dropWhile_cons, List.takeWhile_cons, ha, ihr.1, ihr.2]
  rw [(hd _ h).1]; simp

def wSec : PSec := ⟨['/', 'a'], [(ignoreParentsN, ['t', 'r', 'u', 'e']), (['f', 'o', 'o'], ['m', 'i', 'd'])],
  [[], [.lit 'a']], [.lit '/', .lit 'a']⟩

/-- WITNESS (reproduced on the real code): a section `[/a]` with
`ignore_parents = true` and `foo = mid`; at location `/a` the code answers
`None` for `foo`, the documented cut answers `mid`. -/
theorem ignore_parents_own_section_witness :
    prepare ['/', 'a'] wSec.opts = some wSec ∧
    stackGet (locationSections none [wSec] ['/', 'a']) ['f', 'o', 'o'] = .none ∧
    stackGet (cutAfterIgnoring (sortedSections none [wSec] ['/', 'a'])) ['f', 'o', 'o'] = .val ['m', 'i', 'd'] := by
  have hs : sortedSections none [wSec] ['/', 'a'] =
      [⟨some ['/', 'a'], wSec.opts, [], ['a']⟩] := by
    unfold sortedSections
    have : matchingSections none [wSec] ['/', 'a'] =
        [(2, ['/', 'a'], (⟨some ['/', 'a'], wSec.opts, [], ['a']⟩ : LocSection))] := by decide
    rw [this, List.mergeSort_singleton]; rfl
  refine ⟨by decide, ?_, ?_⟩
  · unfold locationSections; rw [hs]; decide
  · rw [hs]; decide

/-! ### LocationSection.get -/

theorem expand_plain_appendpath (s : LocSection) : expandLocals s appendpathN = appendpathN := by
  rfl

theorem secGet'_unfold (s : LocSection) (name v : Str) (hv : lookup name s.opts = some v) :
    secGet' s name =
      match secGet (s.opts.length + 1) s (name ++ policySuffix) with
      | none => none
      | some pol => some (expandLocals s (if pol = some appendpathN then joinPath v s.extra else v)) := by
  unfold secGet'
  rw [show s.opts.length + 2 = (s.opts.length + 1) + 1 from rfl, secGet, hv]
  simp only
  cases secGet (s.opts.length + 1) s (name ++ policySuffix) with
  | none => rfl
  | some pol => rfl

/-- no policy: the stored value with the section-local references expanded -/
theorem no_policy_plain_value (s : LocSection) (name v : Str)
    (hv : lookup name s.opts = some v) (hp : lookup (name ++ policySuffix) s.opts = none) :
    secGet' s name = some (expandLocals s v) := by
  rw [secGet'_unfold s name v hv]
  have : secGet (s.opts.length + 1) s (name ++ policySuffix) = some none := by
    rw [secGet, hp]
  rw [this]; simp

/-- `opt:policy = appendpath`: the value is joined with the extra path — which
is exactly the unmatched part of the location (`extra_is_unmatched_suffix`) -/
theorem appendpath_value (s : LocSection) (name v : Str)
    (hv : lookup name s.opts = some v)
    (hp : lookup (name ++ policySuffix) s.opts = some appendpathN)
    (hpp : lookup (name ++ policySuffix ++ policySuffix) s.opts = none) :
    secGet' s name = some (expandLocals s (joinPath v s.extra)) := by
  rw [secGet'_unfold s name v hv]
  have hlen := lookup_some_length hv
  have : secGet (s.opts.length + 1) s (name ++ policySuffix) = some (some appendpathN) := by
    rw [secGet, hp]
    simp only
    obtain ⟨n, hn⟩ : ∃ n, s.opts.length = n + 1 := ⟨s.opts.length - 1, by omega⟩
    rw [hn, secGet, hpp]
    simp [expand_plain_appendpath]
  rw [this]; simp

def relpathRef : Str := '{' :: relpathN ++ ['}']
def basenameRef : Str := '{' :: basenameN ++ ['}']

/-- `{relpath}` expands to the extra path and `{basename}` to its last
component, wherever they occur after reference-free text -/
theorem relpath_basename_expansion (s : LocSection) (pre rest : Str) (hpre : '{' ∉ pre) :
    expandLocals s (pre ++ relpathRef ++ rest) = pre ++ s.extra ++ expandLocals s rest ∧
    expandLocals s (pre ++ basenameRef ++ rest) = pre ++ urlBasename s.extra ++ expandLocals s rest := by
  induction pre with
  | nil =>
    constructor
    · simp only [List.nil_append, expandLocals, relpathRef, relpathN, List.cons_append, scanRefs, refStep,
        refIdle, isWordStart, isWord]
      simp [expandChunk, localOf, relpathN]
    · simp only [List.nil_append, expandLocals, basenameRef, basenameN, List.cons_append, scanRefs, refStep,
        refIdle, isWordStart, isWord]
      simp [expandChunk, localOf, relpathN, basenameN]
  | cons c pre ih =>
    have hc : c ≠ '{' := fun e => hpre (by simp [e])
    have hpre' : '{' ∉ pre := fun h => hpre (by simp [h])
    obtain ⟨ih1, ih2⟩ := ih hpre'
    unfold expandLocals at ih1 ih2 ⊢
    constructor
    · simp only [List.cons_append]
      rw [scanRefs_idle_plain s c hc, ih1]
    · simp only [List.cons_append]
      rw [scanRefs_idle_plain s c hc, ih2]

/-! ### StartingPathMatcher -/

/-- the sections a StartingPathMatcher yields: later sections of the file first,
a named section iff its id is a string prefix of the location or globs it as a
whole, the no-name section last -/
theorem starting_sections_spec (noName : Option (List (Str × Str))) (secs : List PSec) (location : Str) :
    startingSections noName secs location =
      ((secs.reverse.filter fun s => s.id.isPrefixOf location || gmatch s.whole location).map fun s =>
        (⟨some s.id, s.opts, extraPath (parts location) s.comps.length, []⟩ : LocSection)) ++
      (match noName with
        | some o => [(⟨none, o, location, []⟩ : LocSection)]
        | none => []) := by
  unfold startingSections
  congr 1
  generalize secs.reverse = l
  induction l with
  | nil => rfl
  | cons s r ih =>
    simp only [List.filterMap_cons, List.filter_cons]
    by_cases h : (s.id.isPrefixOf location || gmatch s.whole location) = true
    · simp only [h, if_true]; rw [ih]; rfl
    · simp only [h]; rw [ih]; rfl

/-! ### store round trip (abstract quoting) -/

/-- if `unquote ∘ quote = id` (what the harness tests on the real store), a
value set in a section is read back unchanged -/
theorem store_roundtrip (q uq : Str → Str) (h : ∀ v, uq (q v) = v) (opts : List (Str × Str)) (k v : Str) :
    (lookup k (setOpt k (q v) opts)).map uq = some v := by
  rw [lookup_setOpt_same]; simp [h]

theorem store_set_other_unchanged (opts : List (Str × Str)) (k k' w : Str) (hne : k' ≠ k) :
    lookup k' (setOpt k w opts) = lookup k' opts :=
  lookup_setOpt_other k k' w hne opts

/-- the model of configobj's `_unquote` removes one pair of matching quotes and
leaves text that does not start with a quote alone -/
theorem unquote_quoted (v : Str) :
    unquote ('"' :: v ++ ['"']) = v ∧ unquote ('\'' :: v ++ ['\'']) = v ∧
    (∀ c r, c ≠ '"' → c ≠ '\'' → unquote (c :: r) = c :: r) := by
  refine ⟨?_, ?_, ?_⟩
  · have hl : ('"' :: (v ++ ['"'])).getLast? = some '"' := by
      rw [← List.cons_append]; exact List.getLast?_concat
    simp [unquote, hl]
  · have hl : ('\'' :: (v ++ ['\''])).getLast? = some '\'' := by
      rw [← List.cons_append]; exact List.getLast?_concat
    simp [unquote, hl]
  · intro c r h1 h2
    simp [unquote, h1, h2]

/-! ### non-vacuity -/

-- a matching section with glob components, and its extra path
example : prepare ['/', 'a', '*', '/', '?'] [] =
    some ⟨['/', 'a', '*', '/', '?'], [], [[], [.lit 'a', .star], [.any1]], [.lit '/', .lit 'a', .star, .lit '/', .any1]⟩ := by
  decide
example : compsMatch (parts ['/', 'a', 'b', '/', 'c', '/', 'd', '/']) [[], [.lit 'a', .star], [.any1]] = true ∧
    extraPath (parts ['/', 'a', 'b', '/', 'c', '/', 'd', '/']) 3 = ['d'] ∧
    (3 < (parts ['/', 'a', 'b', '/', 'c', '/', 'd', '/']).length) := by decide
-- hypotheses of appendpath_value
example : let s : LocSection := ⟨some ['/', 'a'], [(['f'], ['v']), (['f'] ++ policySuffix, appendpathN)], ['x', '/', 'y'], []⟩
    lookup ['f'] s.opts = some ['v'] ∧ lookup (['f'] ++ policySuffix) s.opts = some appendpathN ∧
    lookup (['f'] ++ policySuffix ++ policySuffix) s.opts = none ∧
    secGet' s ['f'] = some ['v', '/', 'x', '/', 'y'] := by decide
-- hypothesis of ignore_parents_partial holds for a store without ignore_parents …
example : ∀ s ∈ [(⟨some ['/', 'a'], [(['f'], ['v'])], [], []⟩ : LocSection)], ignoring s = false := by decide
-- … and expansion
example : expandLocals ⟨none, [], ['x', '/', 'y'], ['b']⟩ (['p', '-'] ++ relpathRef ++ ['.'] ++ basenameRef)
    = ['p', '-', 'x', '/', 'y', '.', 'y'] := by decide

end BreezyVerif.C49
