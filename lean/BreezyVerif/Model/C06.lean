import BreezyVerif.Common
/-
C06 — aborted and suspended write groups.  Executable model of the write-group
state machine of pack repositories:

* `breezy/repository.py: Repository.start_write_group / commit_write_group /
  abort_write_group / resume_write_group` (the `_write_group` guard:
  "already in a write group", "mismatched lock context and write group"),
* `breezy/bzr/pack_repo.py: RepositoryPackCollection._start_write_group,
  _abort_write_group` (new pack dropped, resumed packs deleted from `upload/`),
  `_suspend_write_group` (tokens = resumed pack names + the new pack's name if
  data was inserted), `_resume_write_group` / `_resume_pack` (malformed or
  unknown token → `UnresumableWriteGroup` after aborting the packs resumed so
  far), `_commit_write_group` (missing compression parents, then
  `_check_new_inventories`, then the new pack and every resumed pack become
  listed in `pack-names`),
* `breezy/bzr/groupcompress_repo.py: GCRepositoryPackCollection.
  _check_new_inventories` for inventories whose CHK maps are single pages (the
  harness checks this for every generated inventory): every new revision needs
  its inventory; every inventory involved (new ones and their present parents)
  needs its chk root pages; the text keys named by items of the new root pages
  that are not items of the parent-only inventories' pages must be present —
  all without looking at fallback repositories.

A pack is the list of records inserted into it; its name (an md5 of the
content, which is also the resume token) is modelled by the pack itself.
Core Lean only.
-/
namespace BreezyVerif.C06

inductive Kind where
  | rev | inv | chk | text | sig
  deriving DecidableEq, Repr

structure Key where
  kind : Kind
  id : Nat
  deriving DecidableEq, Repr

/-- one inserted record and what the commit-time checks read from it -/
structure Rec where
  key : Key
  /-- compression parent (same kind) of a delta record (knit pack formats) -/
  cparent : Option Nat
  /-- inventory: parent inventory ids -/
  invParents : List Nat
  /-- inventory: its chk root page ids -/
  roots : List Nat
  /-- chk page: the text ids named by its items -/
  items : List Nat
  deriving DecidableEq, Repr

abbrev Pack := List Rec

/-- resume token as received: the name of some pack, or a string that is not
32 lower-case hex digits -/
inductive Tok where
  | pack (p : Pack)
  | malformed
  deriving DecidableEq, Repr

structure Fmt where
  /-- `_check_new_inventories` is the CHK one (2a); knit pack formats do no checks there -/
  checkInv : Bool
  deriving DecidableEq, Repr

structure Group where
  /-- records inserted into the open new pack -/
  fresh : Pack
  /-- resumed packs -/
  resumed : List Pack
  deriving DecidableEq, Repr

structure Repo where
  /-- packs listed in `pack-names` -/
  packs : List Pack
  /-- suspended packs in `upload/` -/
  upload : List Pack
  /-- the open write group -/
  wg : Option Group
  /-- bookkeeping of the `Repository` *object* (knit pack formats): compression
  parents that were missing when a delta record was inserted and have not been
  inserted since (`_KnitGraphIndex` missing-compression-parent set).  It is not
  reset by `abort_write_group`, only by using a new object. -/
  stale : List Key := []
  deriving DecidableEq, Repr

inductive Err where
  /-- `BzrError("already in a write group")` -/
  | alreadyInWG
  /-- `BzrError("mismatched lock context and write group")` -/
  | notInWG
  /-- `BzrCheckError` -/
  | check
  /-- `UnresumableWriteGroup` -/
  | unresumable
  /-- `AssertionError` (the same token twice) -/
  | assertion
  /-- `AttributeError`: `suspend_write_group` has no write-group guard -/
  | attribute
  deriving DecidableEq, Repr

inductive Res where
  | ok
  | tokens (l : List Pack)
  | err (e : Err)
  deriving DecidableEq, Repr

inductive Op where
  | start
  | insert (r : Rec)
  | abort
  | suspend
  | resume (toks : List Tok)
  | commit
  /-- unlock, drop the `Repository` object, open a new one and lock it.  With an
  open write group `PackRepository.unlock` aborts the group (resumed packs are
  deleted from `upload/`); the `BzrError("Must end write group before releasing
  write lock")` it raises is swallowed by its `@only_raises(LockNotHeld,
  LockBroken)` decorator, so the caller sees a normal return.  The new object
  has no group. -/
  | reopen
  deriving DecidableEq, Repr

/-- keys a fresh `Repository` object sees (without fallbacks) -/
def visible (r : Repo) : List Key := r.packs.flatten.map (·.key)

def groupRecs (g : Group) : Pack := g.resumed.flatten ++ g.fresh

/-! ### the commit-time checks -/

def hasKey (own : Pack) (k : Key) : Bool := own.any (·.key == k)

def invRec (own : Pack) (i : Nat) : Option Rec := own.find? (·.key == ⟨.inv, i⟩)

def rootsOf (own : Pack) (is : List Nat) : List Nat :=
  is.flatMap fun i => match invRec own i with | some r => r.roots | none => []

def itemsOf (own : Pack) (cs : List Nat) : List Nat :=
  cs.flatMap fun c => match own.find? (·.key == ⟨.chk, c⟩) with | some r => r.items | none => []

/-- `get_missing_compression_parent_keys()` non-empty (or `_check_references`
of a resumed knit pack failing) -/
def missingCompressionParent (own all : Pack) : Bool :=
  all.any fun r => match r.cparent with
    | some p => !hasKey own ⟨r.key.kind, p⟩
    | none => false

/-- the revisions added by the write group (`key_dependencies.get_new_keys()`) -/
def newRevIds (all : Pack) : List Nat := (all.filter (·.key.kind == .rev)).map (·.key.id)

/-- the present parent inventories of the new revisions' inventories that are not themselves new
(`parent_invs_only_keys`) -/
def parentOnlyInvs (own all : Pack) : List Nat :=
  ((newRevIds all).flatMap fun i => match invRec own i with | some r => r.invParents | none => []).filter
    fun p => hasKey own ⟨.inv, p⟩ && !(newRevIds all).contains p

/-- the text keys `_check_new_inventories` requires: named by the root pages of the new inventories that
are not root pages of parent-only inventories, and not named by the latter's pages -/
def neededTexts (own all : Pack) : List Nat :=
  let oldRoots := rootsOf own (parentOnlyInvs own all)
  ((itemsOf own ((rootsOf own (newRevIds all)).filter fun c => !oldRoots.contains c)).filter
    fun t => !(itemsOf own oldRoots).contains t)

/-- `_check_new_inventories` returns problems -/
def inventoryProblems (own all : Pack) : Bool :=
  if (newRevIds all).any (fun i => !hasKey own ⟨.inv, i⟩) then true else
  if (rootsOf own (newRevIds all) ++ rootsOf own (parentOnlyInvs own all)).any (fun c => !hasKey own ⟨.chk, c⟩)
  then true else
  (neededTexts own all).any fun t => !hasKey own ⟨.text, t⟩

/-- `_commit_write_group` raises `BzrCheckError`: the object remembers a missing
compression parent, a resumed pack fails `_check_references`, or
`_check_new_inventories` reports problems -/
def refuses (fmt : Fmt) (r : Repo) (g : Group) : Bool :=
  let all := groupRecs g
  let own := r.packs.flatten ++ all
  !r.stale.isEmpty || missingCompressionParent own g.resumed.flatten ||
    (fmt.checkInv && inventoryProblems own all)

/-- the object's missing-compression-parent set after inserting `rec` -/
def staleAfter (r : Repo) (g : Group) (rec : Rec) : List Key :=
  let own := r.packs.flatten ++ groupRecs g ++ [rec]
  let st := r.stale.filter (· != rec.key)
  match rec.cparent with
  | some p => if hasKey own ⟨rec.key.kind, p⟩ || st.contains ⟨rec.key.kind, p⟩ then st
              else st ++ [⟨rec.key.kind, p⟩]
  | none => st

/-! ### the state machine -/

def removeAll (l : List Pack) (xs : List Pack) : List Pack := l.filter fun p => !xs.contains p

def addNew (l : List Pack) (p : Pack) : List Pack := if l.contains p then l else l ++ [p]

/-- `_resume_write_group`: tokens one by one; `inl` = the packs resumed before
the first bad token (they are aborted, i.e. deleted), `inr` = all resumed -/
def resumeToks (upload : List Pack) : List Tok → List Pack → Except (Err × List Pack) (List Pack)
  | [], acc => .ok acc
  | .malformed :: _, acc => .error (.unresumable, acc)
  | .pack p :: rest, acc =>
    if acc.contains p then .error (.assertion, acc)
    else if upload.contains p then resumeToks upload rest (acc ++ [p])
    else .error (.unresumable, acc)

def step (fmt : Fmt) (r : Repo) : Op → Repo × Res
  | .start =>
    match r.wg with
    | some _ => (r, .err .alreadyInWG)
    | none => ({ r with wg := some ⟨[], []⟩ }, .ok)
  | .insert rec =>
    match r.wg with
    | none => (r, .err .notInWG)
    | some g =>
      ({ r with wg := some { g with fresh := g.fresh ++ [rec] }, stale := staleAfter r g rec }, .ok)
  | .abort =>
    match r.wg with
    | none => (r, .err .notInWG)
    | some g => ({ r with upload := removeAll r.upload g.resumed, wg := none }, .ok)
  | .suspend =>
    match r.wg with
    | none => (r, .err .attribute)
    | some g =>
      if g.fresh.isEmpty then ({ r with wg := none }, .tokens g.resumed)
      else ({ r with upload := addNew r.upload g.fresh, wg := none }, .tokens (g.resumed ++ [g.fresh]))
  | .resume toks =>
    match r.wg with
    | some _ => (r, .err .alreadyInWG)
    | none =>
      match resumeToks r.upload toks [] with
      | .ok ps => ({ r with wg := some ⟨[], ps⟩ }, .ok)
      | .error (.assertion, _) => (r, .err .assertion)
      | .error (e, acc) => ({ r with upload := removeAll r.upload acc }, .err e)
  | .commit =>
    match r.wg with
    | none => (r, .err .notInWG)
    | some g =>
      if refuses fmt r g then (r, .err .check)
      else
        ({ r with packs := r.packs ++ g.resumed ++ (if g.fresh.isEmpty then [] else [g.fresh]),
                  upload := removeAll r.upload g.resumed, wg := none }, .ok)
  | .reopen =>
    match r.wg with
    | some g => ({ r with upload := removeAll r.upload g.resumed, wg := none, stale := [] }, .ok)
    | none => ({ r with stale := [] }, .ok)

def run (fmt : Fmt) (r : Repo) : List Op → Repo × List Res
  | [] => (r, [])
  | op :: ops =>
    let (r1, res) := step fmt r op
    let (r2, rs) := run fmt r1 ops
    (r2, res :: rs)

/-- final state only -/
def exec (fmt : Fmt) (r : Repo) (ops : List Op) : Repo := (run fmt r ops).1

end BreezyVerif.C06
