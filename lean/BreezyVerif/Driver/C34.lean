import BreezyVerif.Common
import BreezyVerif.Model.C34
import BreezyVerif.Model.C34RT
/-!
C34 driver.  Byte strings as hex (`-` empty), `~` = None, lists comma-separated.

* `rt FX STRICT id LK DEC ENC tree parents author atime atz aneg committer ctime ctz cneg enc mergetags extra gpgsig message`
  extra = `k:v` pairs.  LK DEC ENC are the codec environment for the name in the `encoding` header:
  LK = what `codecs.lookup` says (`u8|l1|as|ext|unk|bad`, `-` = never looked up), DEC / ENC = finite
  tables `in:out` of that codec's decode / encode (`out` = hex or `E<err>`); a lookup outside the tables
  is the error `EnvMiss` (never a default).  Reply: `G:<get_revision_id result> ` followed by
  `I:<err>` (import refused) | `X:<err> <props>` (export raised) |
  `ok <commit fields> <revid> <codec> <committer> <message> <props>` where props is the rendered property dict and commit fields is the
  exported commit in the request's field order.  FX = code variant (see `importDecode`).
* `fix text` → `fix_person_identifier` (`E:Value` on ValueError)
* roundtrip.py: a supplement is four fields `rid pids props testament` (`~` = None, lists comma-separated with `-` = empty
  list, an empty byte string inside a list is `.`, props are `k:v`, printed sorted by key):
  `rtgen S` → bytes; `rtparse text` → `S` | `E:Value`; `rtinj msg (S | ~ ~ ~ ~ with first field `none`)` → bytes;
  `rtext msg` → `msg ~` | `msg S` | `E:Value`
-/
namespace BreezyVerif.C34

def optBytes (s : String) : Option (Option Bytes) :=
  if s == "~" then some none else (fromHex s).map some

def showOpt : Option Bytes → String
  | none => "~"
  | some b => toHex b

def decPair (s : String) : Option (Bytes × Bytes) :=
  match s.splitOn ":" with
  | [k, v] => do pure ((← fromHex k), (← fromHex v))
  | _ => none

def showErr : Err → String
  | .unicodeDecode => "UnicodeDecode" | .unknownEncoding => "UnknownEncoding"
  | .unknownHgExtra => "UnknownHgExtra" | .unknownExtra => "UnknownExtra" | .value => "Value"
  | .lookup => "Lookup" | .codecMismatch => "CodecMismatch" | .index => "Index"
  | .attr => "Attr" | .assert => "Assert" | .unicodeEncode => "UnicodeEncode" | .other => "Other"
  | .envMiss => "EnvMiss" | .irreversible => "Irreversible"

def parseErr (s : String) : Option Err :=
  if s == "UnicodeDecode" then some .unicodeDecode else if s == "Value" then some .value
  else if s == "Lookup" then some .lookup else if s == "UnicodeEncode" then some .unicodeEncode
  else if s == "Other" then some .other else none

def parseLookup (s : String) : Option Lookup :=
  if s == "u8" then some .utf8 else if s == "l1" then some .latin1 else if s == "as" then some .ascii
  else if s == "ext" then some .ext else if s == "unk" then some .unknown else if s == "bad" then some .bad
  else if s == "-" then some .miss else none

/-- one table entry `in:out`, `out` = hex bytes or `E<err>` -/
def decEntry (s : String) : Option (Bytes × Except Err Bytes) :=
  match s.splitOn ":" with
  | [k, v] => do
    let k ← fromHex k
    if v.startsWith "E" then
      let e ← parseErr (v.drop 1).toString
      pure (k, .error e)
    else
      let v ← fromHex v
      pure (k, .ok v)
  | _ => none

def tableLookup (t : List (Bytes × Except Err Bytes)) (k : Bytes) : Except Err Bytes :=
  match t.find? (fun p => p.1 == k) with
  | some p => p.2
  | none => .error .envMiss

/-- the environment of one request: the header name as given, `utf-8` and `latin1`
as Python defines them, nothing else -/
def mkEnv (hdr : Option Bytes) (lk : Lookup) (dec enc : List (Bytes × Except Err Bytes)) : Env where
  lookup := fun n =>
    if hdr = some n ∧ lk ≠ .miss then lk
    else if n = bs "utf-8" then .utf8
    else if n = bs "latin1" then .latin1
    else .miss
  dec := fun n b => if hdr = some n then tableLookup dec b else .error .envMiss
  enc := fun n r => if hdr = some n then tableLookup enc r else .error .envMiss

def showPStr (s : PStr) : String := toHex s.bytes

def showCodec : Codec → String
  | .utf8 => "utf-8" | .latin1 => "latin1" | .ascii => "ascii" | .se => "se" | .ext _ => "ext"

/-- the property dict, sorted by key, values as hex of their bytes (ints in decimal) -/
def showProps (p : Props) : String :=
  let items : List (String × String) :=
    (match p.author with | some a => [("author", showPStr a)] | none => []) ++
    (match p.authorTimestamp with | some t => [("author-timestamp", toString t)] | none => []) ++
    (match p.authorTimezone with | some t => [("author-timezone", toString t)] | none => []) ++
    (if p.authorNegUtc then [("author-timezone-neg-utc", "-")] else []) ++
    (if p.commitNegUtc then [("commit-timezone-neg-utc", "-")] else []) ++
    (match p.explicitEncoding with | some e => [("git-explicit-encoding", toHex e)] | none => []) ++
    (match p.gitExtra with | some e => [("git-extra", showPStr e)] | none => []) ++
    (match p.gpgsig with | some e => [("git-gpg-signature", showPStr e)] | none => []) ++
    (match p.implicitEncoding with | some e => [("git-implicit-encoding", toHex e)] | none => []) ++
    (p.mergetags.zipIdx.map fun (t, i) => ("git-mergetag-" ++ toString i, showPStr t)) ++
    (if p.missingMessage then [("git-missing-message", toHex (bs "true"))] else [])
  joinList (items.map fun (k, v) => k ++ "=" ++ v)

def showCommit (c : Commit) : String :=
  " ".intercalate
    [toHex c.tree, joinList (c.parents.map toHex), toHex c.author, toString c.authorTime,
     toString c.authorTz, showBool c.authorNegUtc, toHex c.committer, toString c.commitTime,
     toString c.commitTz, showBool c.commitNegUtc, showOpt c.encoding,
     joinList (c.mergetags.map toHex),
     joinList (c.extra.map fun (k, v) => toHex k ++ ":" ++ toHex v), showOpt c.gpgsig,
     showOpt c.message]

def elHex (b : Bytes) : String := if b.isEmpty then "." else toHex b
def elFromHex (s : String) : Option Bytes := if s == "." then some [] else fromHex s

def optEl (s : String) : Option (Option Bytes) := if s == "~" then some none else (elFromHex s).map some
def optList (s : String) : Option (Option (List Bytes)) :=
  if s == "~" then some none else ((splitList s).mapM elFromHex).map some
def propPair (s : String) : Option (Bytes × Bytes) :=
  match s.splitOn ":" with
  | [k, v] => do pure ((← elFromHex k), (← elFromHex v))
  | _ => none

def parseSupp (a b c e : String) : Option Supp :=
  match optEl a, optList b, (splitList c).mapM propPair, optEl e with
  | some a, some b, some c, some e => some ⟨a, b, c, e⟩
  | _, _, _, _ => none

/-- lexicographic order on byte strings (Python's `sorted` on bytes keys) -/
def bytesLe : Bytes → Bytes → Bool
  | [], _ => true
  | _ :: _, [] => false
  | x :: xs, y :: ys => if x < y then true else if y < x then false else bytesLe xs ys

def insertProp (kv : Bytes × Bytes) : List (Bytes × Bytes) → List (Bytes × Bytes)
  | [] => [kv]
  | h :: t => if bytesLe kv.1 h.1 then kv :: h :: t else h :: insertProp kv t

def sortProps (l : List (Bytes × Bytes)) : List (Bytes × Bytes) := l.foldr insertProp []

def showSupp (s : Supp) : String :=
  (match s.revisionId with | none => "~" | some r => elHex r) ++ " " ++
  (match s.parentIds with | none => "~" | some l => joinList (l.map elHex)) ++ " " ++
  joinList ((sortProps s.props).map fun kv => elHex kv.1 ++ ":" ++ elHex kv.2) ++ " " ++
  (match s.testament with | none => "~" | some r => elHex r)

def handle : List String → String
  | ["rtgen", a, b, c, e] =>
    match parseSupp a b c e with
    | some s => toHex (generate s)
    | none => "bad-op"
  | ["rtparse", t] =>
    match fromHex t with
    | some t => (match parseMeta t with
      | some s => showSupp s
      | none => "E:Value")
    | none => "bad-op"
  | ["rtinj", m, "none"] =>
    match fromHex m with
    | some m => toHex (injectMeta m none)
    | none => "bad-op"
  | ["rtinj", m, a, b, c, e] =>
    match fromHex m, parseSupp a b c e with
    | some m, some s => toHex (injectMeta m (some s))
    | _, _ => "bad-op"
  | ["rtext", m] =>
    match fromHex m with
    | some m => (match extractMeta m with
      | none => "E:Value"
      | some (msg, none) => toHex msg ++ " ~"
      | some (msg, some s) => toHex msg ++ " " ++ showSupp s)
    | none => "bad-op"
  | ["rt", fx, strict, id, lk, dec, enc', tree, parents, author, atime, atz, aneg, committer, ctime, ctz, cneg, enc,
      mergetags, extra, gpgsig, message] =>
    match parseBool strict, fromHex id, fromHex tree, (splitList parents).mapM fromHex, fromHex author,
      atime.toInt?, atz.toInt?, parseBool aneg, fromHex committer, ctime.toInt?, ctz.toInt?,
      parseBool cneg, optBytes enc, (splitList mergetags).mapM fromHex, (splitList extra).mapM decPair,
      optBytes gpgsig, optBytes message with
    | some strict, some id, some tree, some parents, some author, some atime, some atz, some aneg,
      some committer, some ctime, some ctz, some cneg, some enc, some mergetags, some extra,
      some gpgsig, some message =>
      match parseBool fx, parseLookup lk, (splitList dec).mapM decEntry, (splitList enc').mapM decEntry with
      | some fx, some lk, some dec, some enc' =>
        let env := mkEnv enc lk dec enc'
        let c : Commit :=
          { tree := tree, parents := parents, author := author, authorTime := atime, authorTz := atz,
            authorNegUtc := aneg, committer := committer, commitTime := ctime, commitTz := ctz,
            commitNegUtc := cneg, encoding := enc, mergetags := mergetags, extra := extra,
            gpgsig := gpgsig, message := message }
        let g := match getRevisionId env id c with
          | .ok r => "G:" ++ toHex r ++ " "
          | .error e => "G:E" ++ showErr e ++ " "
        match importCommit env fx strict id c with
        | .error e => g ++ "I:" ++ showErr e
        | .ok rev =>
          let tail := toHex rev.revisionId ++ " " ++ showCodec rev.committer.codec ++ " " ++
            showPStr rev.committer ++ " " ++
            showPStr rev.message ++ " " ++ showProps rev.props
          match exportCommit env rev c.tree with
          | .error e => g ++ "X:" ++ showErr e ++ " " ++ tail
          | .ok c2 => g ++ "ok " ++ showCommit c2 ++ " " ++ tail
      | _, _, _, _ => "bad-op"
    | _, _, _, _, _, _, _, _, _, _, _, _, _, _, _, _, _ => "bad-op"
  | ["fix", t] =>
    match fromHex t with
    | some t =>
      match fixPerson t with
      | some r => toHex r
      | none => "E:Value"
    | none => "bad-op"
  | _ => "bad-op"

end BreezyVerif.C34

def main : IO Unit := BreezyVerif.runDriver BreezyVerif.C34.handle
