import BreezyVerif.Common
import BreezyVerif.Model.C07
namespace BreezyVerif.C07

def parsePack (s : String) : Option Pack :=
  match s.splitOn ":" with
  | [c, i] => do
    let c ← c.toNat?
    let i ← i.toNat?
    pure (c, i)
  | _ => none

def parsePacks (s : String) : Option (List Pack) := (splitList s).mapM parsePack

def showPack (p : Pack) : String := toString p.1 ++ ":" ++ toString p.2

def showOp (o : Op) : String := toString o.1 ++ ";" ++ joinList (o.2.map showPack)

def showErr : Err → String
  | .index => "E:IndexError"
  | .assertion => "E:AssertionError"

def showOps (ops : List Op) : String :=
  if ops.isEmpty then "[]" else "|".intercalate (ops.map showOp)

def showPlan : Except Err (List Op) → String
  | .error e => showErr e
  | .ok ops => showOps ops

/-- `mpc T` | `dist T` | `plan DIST PACKS` | `auto T PACKS` | `after T COUNTS` | `afterdup T D COUNTS FOREIGN`
(`after`: per-pack revision counts, descending, after `_do_autopack` + execution)
(DIST: comma list of naturals, PACKS: comma list of `count:id`, `-` = empty) -/
def handle : List String → String
  | ["mpc", t] =>
    match t.toNat? with
    | some t => toString (maxPackCount t)
    | none => "bad-op"
  | ["dist", t] =>
    match t.toNat? with
    | some t => joinList ((packDistribution t).map toString)
    | none => "bad-op"
  | ["plan", d, ps] =>
    match parseNatList d, parsePacks ps with
    | some d, some ps => showPlan (plan ps d)
    | _, _ => "bad-op"
  | ["auto", t, ps] =>
    match t.toNat?, parsePacks ps with
    | some t, some ps =>
      match doAutopack t ps with
      | .error e => showErr e
      | .ok none => "None"
      | .ok (some ops) => showOps ops
    | _, _ => "bad-op"
  | ["after", t, cs] =>
    match t.toNat?, parseNatList cs with
    | some t, some cs =>
      let packs : List Pack := cs.zipIdx.map fun (c, i) => (c, i + 1)
      match doAutopack t packs with
      | .error e => showErr e
      | .ok none => joinList ((sortDesc packs).map fun p => toString p.1)
      | .ok (some ops) => joinList ((sortDesc (executeOps packs ops)).map fun p => toString p.1)
    | _, _ => "bad-op"
  | ["afterdup", t, d, cs, foreign] =>
    -- a writer's `_do_autopack` + execution on its in-memory view `cs` (pack ids = rank in the
    -- real pack order) with `d` duplicated revisions among the combined packs; `foreign` = packs
    -- other writers added meanwhile (merged by `_save_pack_names`)
    match t.toNat?, d.toNat?, parseNatList cs, parseNatList foreign with
    | some t, some d, some cs, some foreign =>
      let packs : List Pack := cs.zipIdx.map fun (c, i) => (c, i + 1)
      let fp : List Pack := foreign.map fun c => (c, 0)
      match doAutopack t packs with
      | .error e => showErr e
      | .ok none => "None " ++ joinList ((sortDesc (packs ++ fp)).map fun p => toString p.1)
      | .ok (some ops) =>
        showOps ops ++ " " ++ joinList ((sortDesc (executeOpsDup d packs ops ++ fp)).map fun p => toString p.1)
    | _, _, _, _ => "bad-op"
  | _ => "bad-op"

end BreezyVerif.C07

def main : IO Unit := BreezyVerif.runDriver BreezyVerif.C07.handle
