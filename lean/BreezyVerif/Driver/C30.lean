import BreezyVerif.Common
import BreezyVerif.Model.C30
import BreezyVerif.Driver.C29Handle
/-!
C30 driver.  Every op of the C29 driver (per-read traces incl. `next_read_size`) plus

  pipe KIND W PREFED MSG SCHED OFF
     KIND  lp | ck | v3s | v3c | req      W  T/F (req: verb reads a body), `-` otherwise
     PREFED  `~` or hex: bytes given to the decoder in one accept_bytes before the loop
             (what `_build_protocol` feeds)            MSG  remaining bytes of the message
     SCHED  comma separated naturals, used cyclically from index OFF: the i-th read
            returns max 1 (min SCHED[i] want) bytes
  -> `h1,h2,… finished/<leftover>/<T|F decoded completely>`  or  `h1,… block/<want>/<avail>`

  pipex MODE KIND W PREFED MSG SCHED OFF CAP
     MODE  blk (as above) | eof (the peer closes after MSG: `pipeLoopEof`)
     KIND  lp ck req (as above) | v3s v3c: the guarded decoders (bencode model `bencKind`;
           v3c: W = T/F is the response-handler variant `fx`) | serve: `_get_line` + dispatch +
           decoder from the first byte of the request (W = hex of the verb whose requests
           carry a body) | c1n c1b c1s c2n c2b c2s: client protocol 1/2 response lines + body
           reader (n none, b bulk, s stream)
     CAP   0 = none, else every hint is `min hint CAP` (the medium's 64 KiB cap)
  -> as above, or `h1,… eof/<T|F decoded completely>`

  benc HEX -> `~` | int | str | list | dict      (model of fastbencode.bdecode_as_tuple)
-/
namespace BreezyVerif.C30
open BreezyVerif.C29

def showHints (l : List Int) : String :=
  if l.isEmpty then "-" else ",".intercalate (l.map toString)

def showOutcome {S : Type} (M : Machine S) : Outcome S → String
  | .finished s left => "finished/" ++ toHex left ++ "/" ++ showBool (M.fin s)
  | .wouldBlock _ want avail => "block/" ++ toString want ++ "/" ++ toString avail
  | .outOfFuel => "fuel"
  | .eof s => "eof/" ++ showBool (M.fin s)

def runPipe {S : Type} (M : Machine S) (s0 : S) (pre : Option Bytes) (msg : Bytes)
    (sched : List Nat) (off : Nat) : String :=
  let sc : Nat → Nat := fun i => if sched.isEmpty then 0 else sched.getD (i % sched.length) 0
  let s := match pre with | none => s0 | some p => M.feed s0 p
  let fuel := msg.length + 2
  showHints (pipeHints M sc fuel off s msg) ++ " " ++ showOutcome M (pipeLoop M sc fuel off s msg)

def runPipeX {S : Type} (M0 : Machine S) (eof : Bool) (cap : Nat) (s0 : S) (pre : Option Bytes)
    (msg : Bytes) (sched : List Nat) (off : Nat) : String :=
  let M := if cap = 0 then M0 else capMachine M0 cap
  let sc : Nat → Nat := fun i => if sched.isEmpty then 0 else sched.getD (i % sched.length) 0
  let s := match pre with | none => s0 | some p => M.feed s0 p
  let fuel := msg.length + 2
  if eof then
    showHints (pipeHintsEof M sc fuel off s msg) ++ " " ++ showOutcome M (pipeLoopEof M sc fuel off s msg)
  else
    showHints (pipeHints M sc fuel off s msg) ++ " " ++ showOutcome M (pipeLoop M sc fuel off s msg)

def showKind : Option BKind → String
  | none => "~"
  | some .int => "int"
  | some .str => "str"
  | some .list => "list"
  | some .dict => "dict"

def bodyKindOf : String → Option BodyKind
  | "n" => some .none
  | "b" => some .bulk
  | "s" => some .stream
  | _ => none

def handlePipeX (mode kind w : String) (pre : Option Bytes) (msg : Bytes) (sched : List Nat)
    (off cap : Nat) : String :=
  match (match mode with | "blk" => some false | "eof" => some true | _ => none) with
  | none => "bad-op"
  | some eof =>
    match kind, w with
    | "lp", "-" => runPipeX lpMachine eof cap LP.init pre msg sched off
    | "ck", "-" => runPipeX ckMachine eof cap CK.init pre msg sched off
    | "req", "T" => runPipeX (reqMachine fun _ => true) eof cap (.line []) pre msg sched off
    | "req", "F" => runPipeX (reqMachine fun _ => false) eof cap (.line []) pre msg sched off
    | "v3s", "-" => runPipeX (v3gMachine bencIsDict bencValid) eof cap (V3.init false) pre msg sched off
    | "v3c", "T" => runPipeX (v3cMachine bencIsDict bencValid bencIsList true) eof cap (V3.init true) pre msg sched off
    | "v3c", "F" => runPipeX (v3cMachine bencIsDict bencValid bencIsList false) eof cap (V3.init true) pre msg sched off
    | "serve", wv =>
      match fromHex wv with
      | none => "bad-op"
      | some verb =>
        runPipeX (serveMachine (fun args => args.head? == some verb) bencIsDict bencValid) eof cap
          serveInit pre msg sched off
    | k, "-" =>
      match k.toList with
      | ['c', '1', b] =>
        match bodyKindOf (String.singleton b) with
        | some bk => runPipeX (client1 bk) eof cap client1Init pre msg sched off
        | none => "bad-op"
      | ['c', '2', b] =>
        match bodyKindOf (String.singleton b) with
        | some bk => runPipeX (client2 bk) eof cap client2Init pre msg sched off
        | none => "bad-op"
      | _ => "bad-op"
    | _, _ => "bad-op"

def handle : List String → String
  | ["pipex", mode, kind, w, pre, msg, sched, off, cap] =>
    match parseOptB pre, fromHex msg, parseNatList sched, off.toNat?, cap.toNat? with
    | some pre, some msg, some sched, some off, some cap => handlePipeX mode kind w pre msg sched off cap
    | _, _, _, _, _ => "bad-op"
  | ["benc", h] =>
    match fromHex h with
    | some b => showKind (bencKind b)
    | none => "bad-op"
  | ["pipe", kind, w, pre, msg, sched, off] =>
    match parseOptB pre, fromHex msg, parseNatList sched, off.toNat? with
    | some pre, some msg, some sched, some off =>
      match kind, w with
      | "lp", "-" => runPipe lpMachine LP.init pre msg sched off
      | "ck", "-" => runPipe ckMachine CK.init pre msg sched off
      | "v3s", "-" => runPipe v3Machine (V3.init false) pre msg sched off
      | "v3c", "-" => runPipe v3Machine (V3.init true) pre msg sched off
      | "req", "T" => runPipe (reqMachine fun _ => true) (.line []) pre msg sched off
      | "req", "F" => runPipe (reqMachine fun _ => false) (.line []) pre msg sched off
      | _, _ => "bad-op"
    | _, _, _, _ => "bad-op"
  | args => BreezyVerif.C29.handleLine args

end BreezyVerif.C30

def main : IO Unit := BreezyVerif.runDriver BreezyVerif.C30.handle
