import BreezyVerif.Model.C10
/-
C09 — working trees as an abstract versioned file system.

State: everything on disk below the tree root as an id-keyed tree (the C10
tree model; unversioned files and directories have ids too — ids are never
observed, only identity relative to the basis matters), the set of versioned
ids, the basis tree (last commit) and a counter for fresh ids.

`step : Flavour → State → Op → State × Out` models `WorkingTree.mkdir`, `add`,
`remove(keep_files|force)`, `unversion`, `rename_one` / `move`, plain file /
symbolic-link creation, edits and chmod, `commit`, `revert(backups=False|True)`
of the whole tree, `revert([one file])` and re-opening, for the dirstate (`bzr`)
and the git index (`git`) working trees.  In the git flavour directories are
versioned exactly when they contain a versioned file (`pruneGit`), adding
below an unversioned directory versions the directories on the way, and revert
works in path space (`reidentify`: identity = path, exact renames by content;
directories are never moved back).  Every operation that raises leaves the
state unchanged.
-/
namespace BreezyVerif.C09
open BreezyVerif.C10

inductive Flavour where
  | bzr | git
  deriving DecidableEq, Repr

structure State where
  disk : Tree
  ver : List Id
  basis : Tree
  ctr : Nat
  deriving Repr

inductive Op where
  | mkfile (p : Path) (c : String)      -- create an (unversioned) file on disk
  | mklink (p : Path) (t : String)      -- create an (unversioned) symbolic link on disk
  | write (p : Path) (c : String)       -- overwrite a file on disk
  | chmod (p : Path) (x : Bool)
  | mkdir (p : Path)                    -- WorkingTree.mkdir
  | add (p : Path)                      -- WorkingTree.add([p])
  | remove (p : Path) (force : Bool)    -- remove([p], keep_files=not force, force=force)
  | unversion (p : Path)                -- WorkingTree.unversion([p]): like remove(keep_files), but raises for a path that is not versioned
  | rename (a b : Path)                 -- rename_one(a, b); move([a], d) = rename a (d ++ [last a])
  | commit
  | revert (backups : Bool)            -- WorkingTree.revert(backups=…)
  | revertPath (p : Path) (backups : Bool)   -- WorkingTree.revert([p], backups=…), `p` a file or link of both trees
  | reopen
  deriving DecidableEq, Repr

inductive Out where
  | ok | err
  deriving DecidableEq, Repr

def rootId : Id := "r"

/-- a fresh working tree: only the (versioned) root, empty basis -/
def init : State :=
  { disk := [(rootId, ⟨none, "", .dir⟩)], ver := [rootId], basis := [], ctr := 0 }

def fresh (n : Nat) : Id := "n" ++ toString n

def isVer (s : State) (i : Id) : Bool := s.ver.contains i

/-- the working tree proper: the versioned part of the disk -/
def wtTree (s : State) : Tree := s.disk.filter fun x => s.ver.contains x.1

/-- ids strictly below `i` -/
def below (t : Tree) : Nat → Id → List Id
  | 0, _ => []
  | n + 1, i => (childrenOf t i).flatMap fun c => c :: below t n c

def subtree (t : Tree) (i : Id) : List Id := i :: below t t.length i

/-- proper ancestors of `i`, nearest first -/
def ancestors (t : Tree) : Nat → Id → List Id
  | 0, _ => []
  | n + 1, i =>
    match (get t i).bind (·.parent) with
    | some p => p :: ancestors t n p
    | none => []

def isDir (t : Tree) (i : Id) : Bool :=
  match get t i with
  | some e => e.node.kind == .dir
  | none => false

def substId (ren : List (Id × Id)) (i : Id) : Id :=
  match ren.find? (·.1 == i) with
  | some x => x.2
  | none => i

/-- rename ids (keys and parent pointers) -/
def renameIds (ren : List (Id × Id)) (t : Tree) : Tree :=
  t.map fun x => (substId ren x.1, { x.2 with parent := x.2.parent.map (substId ren) })

/-- pair every id of `l` with a fresh id -/
def freshFor (n : Nat) : List Id → List (Id × Id)
  | [] => []
  | i :: rest => (i, fresh n) :: freshFor (n + 1) rest

/-- git: a directory is versioned exactly when a versioned non-directory lives below it -/
def pruneGit (s : State) : State :=
  { s with ver := s.ver.filter fun i =>
      !isDir s.disk i || (get s.disk i).bind (·.parent) == none ||
      (below s.disk s.disk.length i).any fun j => s.ver.contains j && !isDir s.disk j }

def finish (fl : Flavour) (s : State) : State :=
  match fl with
  | .bzr => s
  | .git => pruneGit s

/-- place a new object on disk: parent directory must exist, the name must be free -/
def place (s : State) (p : Path) (node : Node) (versioned : Bool) (needVerParent : Bool) : Option State :=
  match p.getLast?, idAt s.disk p.dropLast with
  | some name, some d =>
    if isDir s.disk d && (idAt s.disk p).isNone && (!needVerParent || isVer s d) then
      some { s with disk := s.disk ++ [(fresh s.ctr, ⟨some d, name, node⟩)],
                    ver := if versioned then s.ver ++ [fresh s.ctr] else s.ver,
                    ctr := s.ctr + 1 }
    else none
  | _, _ => none

def setNode (t : Tree) (i : Id) (n : Node) : Tree :=
  t.map fun x => if x.1 = i then (x.1, { x.2 with node := n }) else x

def setPos (t : Tree) (i : Id) (parent : Id) (name : String) : Tree :=
  t.map fun x => if x.1 = i then (x.1, { x.2 with parent := some parent, name := name }) else x

/-! ### revert -/

def dropEmpty (cand : List Id) (t : Tree) : Tree :=
  t.filter fun x => !(cand.contains x.1 && (childrenOf t x.1).isEmpty)

/-- the names used inside directory `d` -/
def namesIn (t : Tree) (d : Option Id) : List String :=
  (t.filter fun x => x.2.parent == d).map (·.2.name)

def backupCand (name : String) (k : Nat) : String := name ++ ".~" ++ toString (k + 1) ++ "~"

/-- `osutils.available_backup_name`: `name.~N~` for the smallest `N ≥ 1` that is
free in the directory -/
def backupName (t : Tree) (d : Option Id) (name : String) : String :=
  match (List.range (t.length + 1)).find? (fun k => !(namesIn t d).contains (backupCand name k)) with
  | some k => backupCand name k
  | none => backupCand name (t.length + 1)

def substVer (ren : List (Id × Id)) (v : List Id) : List Id := unionNew [] (v.map (substId ren))

/-- git has no file ids: a versioned object that sits at a path of the basis
*is* that basis entry, whatever happened before (removed and re-added, names
swapped …).  `(j, i)`: the versioned object `j` sits at the basis path of `i ≠ j`
and both are of the same kind (a change of kind is a deletion plus an addition). -/
def samePathPairs (s : State) : List (Id × Id) :=
  (unionNew [] (ids s.disk)).filterMap fun j =>
    match get s.disk j, pathOf s.disk j with
    | some e, some p =>
      match idAt s.basis p with
      | some i =>
        match get s.basis i with
        | some b =>
          -- (a directory counts whether versioned or not: git does not track directories)
          if i != j && !p.isEmpty && e.node.kind == b.node.kind && (isVer s j || e.node.kind == .dir) then some (j, i)
          else none
        | none => none
      | none => none
    | _, _ => none

/-- give the objects `j` the identities `i` (`pairs`, simultaneously); an object that
carried one of those identities and is not re-identified itself gets a fresh one -/
def applyPairs (s : State) (pairs : List (Id × Id)) : State :=
  let olds := (unionNew [] (pairs.map (·.2))).filter fun i =>
    (get s.disk i).isSome && !(pairs.map (·.1)).contains i
  let ren := pairs ++ freshFor s.ctr olds
  { s with disk := renameIds ren s.disk, ver := substVer ren s.ver, ctr := s.ctr + olds.length }

/-- does the versioned object `j` sit at the basis path of its own id? -/
def atOwnPath (s : State) (j : Id) : Bool :=
  (get s.basis j).isSome && pathOf s.disk j == pathOf s.basis j

/-- git's exact rename detection, by content: the files / links of the basis whose path
is vacant (no versioned object of that kind there) are paired, in order, with the
versioned objects at new paths that hold exactly their content (text / target; the
executable bit does not matter).  (Two candidates for one entry: known defect of the
real code, flagged by the oracle.) -/
def matchRenames (s : State) : List Id → List Id → List (Id × Id)
  | [], _ => []
  | i :: rest, cands =>
    match cands.find? (fun j => match get s.basis i, get s.disk j with
        | some b, some e => b.node.kind == e.node.kind && !contentChanged b.node e.node
        | _, _ => false) with
    | some j => (j, i) :: matchRenames s rest (cands.erase j)
    | none => matchRenames s rest cands

def renamePairs (s : State) : List (Id × Id) :=
  let missing := (unionNew [] (ids s.basis)).filter fun i =>
    match get s.basis i with
    | some b => b.node.kind != .dir && !(isVer s i && atOwnPath s i)
    | none => false
  let cands := s.ver.filter fun j =>
    match get s.disk j with
    | some e => e.node.kind != .dir && !atOwnPath s j
    | none => false
  (matchRenames s missing cands).filter fun x => x.1 != x.2

/-- git: identity is the path and, for moved files, the content: first every versioned
object (and every directory) at a basis path gets the identity of that basis
entry, then exact renames are detected -/
def reidentify (s : State) : State :=
  let s1 := applyPairs s (samePathPairs s)
  applyPairs s1 (renamePairs s1)

/-- the objects revert sets aside instead of overwriting / moving back; the flag
says whether the object gets a backup name.
* a versioned *file* whose text differs from the basis text of its id, when
  `backups` is on: renamed to `name.~N~` next to where it is now;
* git only: an object of the basis that sits at another path and is not an exact
  copy of its basis content (no rename is detected: in path space it is an added
  object), and every directory of the basis that sits at another path (git does
  not track directories): they stay where they are, unversioned. -/
def asideOf (fl : Flavour) (backups : Bool) (s : State) : List (Id × Bool) :=
  (unionNew [] (ids s.basis)).filterMap fun i =>
    match get s.disk i, get s.basis i with
    | some d, some b =>
      if d.parent.isNone then none
      else if fl == .git && pathOf s.disk i != pathOf s.basis i then
        -- (a directory keeps its id when git stops versioning it: no versioned file below it)
        (if d.node.kind == .dir || (isVer s i && contentChanged b.node d.node) then some (i, false) else none)
      else if isVer s i && backups && d.node.kind == .file && contentChanged b.node d.node then some (i, true)
      else none
    | _, _ => none

/-- `revert(backups=…)`: entries that are not in the basis become unversioned and
stay where they are (relative to their parent id); every basis entry is
restored; an unversioned object that is in the way gets `.moved`; symbolic links
that were versioned and are not part of the basis are deleted, and so are
directories of that kind that end up empty -/
def revert (fl : Flavour) (backups : Bool) (s : State) : State :=
  let s1 := match fl with
    | .bzr => s
    | .git => reidentify s
  let aside := asideOf fl backups s1
  let ren := freshFor s1.ctr (aside.map (·.1))
  let named := (aside.filter (·.2)).map fun x => substId ren x.1
  let ver1 := substVer ren s1.ver
  let disk0 : Tree := (renameIds ren s1.disk).map fun x =>
    if named.contains x.1 then (x.1, { x.2 with name := backupName s1.disk x.2.parent x.2.name }) else x
  -- symbolic links that were added (versioned, not in the basis) are deleted (only files are kept)
  let disk1 : Tree := disk0.filter fun x =>
    !(ver1.contains x.1 && (get s.basis x.1).isNone && x.2.node.kind == .symlink)
  -- directories that were added (versioned, not in the basis): deleted when they end up empty
  let added := ver1.filter fun i => (get s.basis i).isNone && isDir disk1 i && i != rootId
  let restored : Tree := s.basis.foldr (fun x d => C10.set d x.1 x.2) disk1
  let moved : Tree := restored.map fun x =>
    if (get s.basis x.1).isNone &&
        s.basis.any (fun b => b.2.parent == x.2.parent && b.2.name == x.2.name) then
      (x.1, { x.2 with name := x.2.name ++ ".moved" })
    else x
  let final := iterate (dropEmpty added) moved.length moved
  { s with disk := final, ver := unionNew (ids s.basis) [rootId], ctr := s1.ctr + aside.length }

/-- `revert([p], backups=…)` for a file or symbolic link that both the working tree
and the basis have at path `p` (bzr: the same entry, in the same directory; git: any
versioned object of that kind at that path — identity is the path): only that entry is
restored (content, target, executable bit); an edited file is set aside under a
backup name first when `backups` is on.  `none`: outside this envelope. -/
def revertPath (fl : Flavour) (s : State) (p : Path) (backups : Bool) : Option State :=
  match idAt s.basis p, idAt s.disk p with
  | some i, some j =>
    match get s.basis i, get s.disk j with
    | some be, some de =>
      if isVer s j && (fl == .git || i == j) && !p.isEmpty && be.node.kind == de.node.kind
          && de.node.kind != .dir && (fl == .git || be.parent == de.parent) then
        -- git: the object at `p` takes the identity of the basis entry; another holder of it gets a fresh one
        let ren1 := if i == j then [] else (j, i) :: (if (get s.disk i).isSome then [(i, fresh s.ctr)] else [])
        let s1 : State := { s with disk := renameIds ren1 s.disk, ver := substVer ren1 s.ver, ctr := s.ctr + 1 }
        if backups && de.node.kind == .file && contentChanged be.node de.node then
          let bak := backupName s1.disk de.parent de.name
          let disk2 : Tree := (renameIds [(i, fresh s1.ctr)] s1.disk).map fun x =>
            if x.1 == fresh s1.ctr then (x.1, { x.2 with name := bak }) else x
          some { s1 with disk := disk2 ++ [(i, ⟨de.parent, de.name, be.node⟩)], ctr := s1.ctr + 1 }
        else some { s1 with disk := setNode s1.disk i be.node }
      else none
    | _, _ => none
  | _, _ => none

/-- stop versioning `i` and everything below it; `force`: also delete it from disk,
otherwise the objects stay on disk, detached from their old identity -/
def removeId (fl : Flavour) (s : State) (i : Id) (force : Bool) : State :=
  let sub := subtree s.disk i
  if force then
    finish fl { s with disk := s.disk.filter (fun x => !sub.contains x.1),
                       ver := s.ver.filter (fun j => !sub.contains j) }
  else
    let gone := sub.filter (isVer s)
    let ren := freshFor s.ctr gone
    finish fl { s with disk := renameIds ren s.disk,
                       ver := s.ver.filter (fun j => !sub.contains j),
                       ctr := s.ctr + gone.length }

/-- the state after a successful operation; `none` = the operation raises -/
def stepOk (fl : Flavour) (s : State) (op : Op) : Option State :=
  match op with
  | .mkfile p c =>
    match place s p (.file c false) false false with
    | some s' => some s'
    | none => none
  | .mklink p t =>
    match place s p (.symlink t) false false with
    | some s' => some s'
    | none => none
  | .write p c =>
    match idAt s.disk p with
    | some i =>
      match get s.disk i with
      | some ⟨_, _, .file _ x⟩ => some { s with disk := setNode s.disk i (.file c x) }
      | _ => none
    | none => none
  | .chmod p x =>
    match idAt s.disk p with
    | some i =>
      match get s.disk i with
      | some ⟨_, _, .file c _⟩ => some { s with disk := setNode s.disk i (.file c x) }
      | _ => none
    | none => none
  | .mkdir p =>
    match place s p .dir (fl == .bzr) (fl == .bzr) with
    | some s' => some (finish fl s')
    | none => none
  | .add p =>
    match idAt s.disk p with
    | none => none
    | some i =>
      if isVer s i then some s
      else match fl with
        | .bzr =>
          match (get s.disk i).bind (·.parent) with
          | some d => if isVer s d then some { s with ver := s.ver ++ [i] } else none
          | none => none
        | .git =>
          some (finish fl { s with ver := unionNew s.ver (i :: ancestors s.disk s.disk.length i) })
  | .remove p force =>
    match idAt s.disk p with
    | none => some s            -- `remove` of an unknown path is silently ignored
    | some i =>
      if (get s.disk i).bind (·.parent) == none then some s
      else if !isVer s i then
        -- not versioned: nothing to unversion, but `force` still deletes what is on disk
        if force then some { s with disk := s.disk.filter (fun x => !(subtree s.disk i).contains x.1) } else some s
      else some (removeId fl s i force)
  | .unversion p =>
    match idAt s.disk p with
    | none => none
    | some i =>
      -- not versioned: NoSuchFile; the root: "not currently supported" (bzr) / nothing to delete (git)
      if !isVer s i || (get s.disk i).bind (·.parent) == none then none
      else some (removeId fl s i false)
  | .rename a b =>
    -- (git's "perhaps it's already moved?" mode needs a versioned source that is gone from
    -- disk: outside the modelled envelope, so a missing source is an error in both flavours)
    match idAt s.disk a, b.getLast?, idAt s.disk b.dropLast with
    | some i, some name, some d =>
      if (isVer s i || (fl == .git && isDir s.disk i)) && (get s.disk i).bind (·.parent) != none && isDir s.disk d
          && (idAt s.disk b).isNone && !(subtree s.disk i).contains d
          && (fl == .git || isVer s d) then
        some (finish fl { s with disk := setPos s.disk i d name,
                                 ver := match fl with
                                   | .bzr => s.ver
                                   | .git => unionNew s.ver (d :: ancestors s.disk s.disk.length d) })
      else none
    | _, _, _ => none
  | .commit =>
    let s' := finish fl s
    some { s' with basis := wtTree s' }
  | .revert backups => some (finish fl (revert fl backups s))
  | .revertPath p backups =>
    match revertPath fl s p backups with
    | some s' => some (finish fl s')
    | none => none
  | .reopen => some s

/-- a failing operation raises and leaves the state alone -/
def step (fl : Flavour) (s : State) (op : Op) : State × Out :=
  match stepOk fl s op with
  | some s' => (s', .ok)
  | none => (s, .err)

def run (fl : Flavour) : State → List Op → State
  | s, [] => s
  | s, op :: rest => run fl (step fl s op).1 rest

/-! ### observations -/

/-- `iter_changes(basis)` in id space -/
def status (s : State) : List Change := changesOf s.basis (wtTree s)

/-- all versioned paths with kind, content and executable bit -/
def listing (t : Tree) : List (Path × Node) :=
  t.filterMap fun x => (pathOf t x.1).map fun p => (p, x.2.node)

inductive PathChange where
  | added (p : Path) (k : Kind)
  | removed (p : Path) (k : Kind)
  | modified (p : Path)
  deriving DecidableEq, Repr

/-- status in path space (git: no file ids): per path, added / removed / modified -/
def pathStatus (s : State) : List PathChange :=
  let b := listing s.basis
  let w := listing (wtTree s)
  (b.filterMap fun x => match w.find? (·.1 == x.1) with
      | none => some (.removed x.1 x.2.kind)
      | some y => if x.2 == y.2 then none else some (.modified x.1))
  ++ (w.filterMap fun y => match b.find? (·.1 == y.1) with
      | none => some (.added y.1 y.2.kind)
      | some _ => none)

/-- invariant checked by the driver after every step: the disk tree and the
basis are well-formed, versioned ids exist and are closed under parents -/
def okState (s : State) : Bool :=
  wf s.disk && (s.basis.isEmpty || wf s.basis) && wf (wtTree s) &&
  s.ver.all fun i => (get s.disk i).isSome

/-- every directory of the basis other than the root has a file or symbolic link
of the basis somewhere below it — what git can represent at all (a commit made
by the git flavour of `step` prunes all other directories) -/
def gitClosed (b : Tree) : Bool :=
  b.all fun x => x.2.node.kind != .dir || x.2.parent.isNone ||
    (below b b.length x.1).any fun j => !isDir b j

end BreezyVerif.C09
