import BreezyVerif.Driver.C18

def dispatch (line : String) : String :=
  match (line.trimAscii.toString.splitOn " ") with
  | "C18" :: rest => BreezyVerif.C18.handle rest
  | _ => "bad-op"

partial def loop (h : IO.FS.Stream) (out : IO.FS.Stream) : IO Unit := do
  let line ← h.getLine
  if line.isEmpty then return ()
  out.putStrLn (dispatch line)
  loop h out

def main : IO Unit := do
  let out ← IO.getStdout
  loop (← IO.getStdin) out
  out.flush
