import BreezyVerif.Model.C39
import BreezyVerif.Lemmas.C39Apply
import BreezyVerif.Lemmas.C39Sound
import BreezyVerif.Lemmas.C39Text
import BreezyVerif.Lemmas.C39Header
import BreezyVerif.Lemmas.C39Parse
import BreezyVerif.Lemmas.C39Wf
import BreezyVerif.Lemmas.C39Bytes
import BreezyVerif.Lemmas.C39Group3
/-!
C39 — theorems.  For all texts `a b` (lists of byte-string lines, or byte strings
split after every newline), all grouped opcode lists `gs` satisfying the
decidable predicate `validGroups a b gs` — in particular (`grouped_validGroups`)
difflib's grouping, for every context size, of any matching-block list
satisfying `validBlocks a b ks`, which is what is checked at run time on the
real matcher's output — all hunk lists, all old texts.  No bound on sizes other
than the i32 range of the header numbers.
-/
namespace BreezyVerif.C39

/-- the hunks breezy builds from valid grouped opcodes turn the old text into the new text -/
theorem apply_mkhunks (a b : List Line) (gs : List Group) (hv : validGroups a b gs = true) :
    ∃ hs, mkHunks a b gs = some hs ∧ applyHunks a hs = .ok b := by
  obtain ⟨hs, hm, happ⟩ := apply_groups a b gs 0 0 hv
  refine ⟨fixFirst a b hs, by simp [mkHunks, hm], ?_⟩
  unfold applyHunks
  rw [applyFrom_fixFirst]
  simpa using happ

/-- parsing the text `internal_diff` writes gives back exactly the hunks it was
written from (covers `\ No newline at end of file`, empty old/new text with the
`-0,0` / `+0,0` work-around, any context size) -/
theorem parse_diff_text (a b : List Line) (gs : List Group) (hv : validGroups a b gs = true)
    (hla : a.length < 2147483647) (hlb : b.length < 2147483647)
    (hs : List Hunk) (hm : mkHunks a b gs = some hs) (hne : hs ≠ []) :
    parsePatch (diffLines hs) = .ok hs := by
  simp only [mkHunks, Option.map_eq_some_iff] at hm
  obtain ⟨hs0, hm0, rfl⟩ := hm
  have hw := (groups_wf a b gs 0 0 hla hlb (Nat.zero_le _) (Nat.zero_le _) hv hs0 hm0).1
  have hf := fixFirst_props a b hs0 (fun h hh => ⟨(hw h hh).1, (hw h hh).2.1⟩)
  exact parsePatch_diffLines _ hne hf.1

/-- end to end on the text: breezy's patcher applied to breezy's diff gives the new text;
and there is no diff exactly when the groups are empty, in which case the texts are equal -/
theorem diff_text_applies (a b : List Line) (gs : List Group) (hv : validGroups a b gs = true)
    (hla : a.length < 2147483647) (hlb : b.length < 2147483647) :
    ∃ hs, mkHunks a b gs = some hs ∧
      (hs ≠ [] → iterPatched a (diffLines hs) = .ok b) ∧ (hs = [] → a = b) := by
  obtain ⟨hs, hm, happ⟩ := apply_mkhunks a b gs hv
  refine ⟨hs, hm, ?_, ?_⟩
  · intro hne
    unfold iterPatched
    rw [parse_diff_text a b gs hv hla hlb hs hm hne]
    simp only [happ]
  · intro he
    subst he
    simpa [applyHunks, applyFrom] using happ

/-- a parsed / built patch re-serialised with `Patch.as_bytes()` parses to the same hunks -/
theorem serialise_parse_hunks (hs : List Hunk) (hwf : ∀ h ∈ hs, wfHunk h = true) :
    parsePatch (patchLines hs) = .ok hs :=
  parsePatch_patchLines hs hwf

/-- in particular for breezy's own diff: text → hunks → `as_bytes()` → the same hunks -/
theorem diff_reserialises (a b : List Line) (gs : List Group) (hv : validGroups a b gs = true)
    (hla : a.length < 2147483647) (hlb : b.length < 2147483647)
    (hs : List Hunk) (hm : mkHunks a b gs = some hs) (hne : hs ≠ []) :
    parsePatch (patchLines hs) = parsePatch (diffLines hs) := by
  rw [parse_diff_text a b gs hv hla hlb hs hm hne]
  simp only [mkHunks, Option.map_eq_some_iff] at hm
  obtain ⟨hs0, hm0, rfl⟩ := hm
  have hw := (groups_wf a b gs 0 0 hla hlb (Nat.zero_le _) (Nat.zero_le _) hv hs0 hm0).1
  have hf := fixFirst_props a b hs0 (fun h hh => ⟨(hw h hh).1, (hw h hh).2.1⟩)
  exact parsePatch_patchLines _ (fun h hh => (hf.1 h hh).1)

/-- the marker mechanism is lossless: writing lines (with the marker after a
line without newline) and reading them with `iter_lines_handle_nl` is the identity -/
theorem no_newline_marker_roundtrip (ls : List Bytes) (hc : ∀ l ∈ ls, carriable l = true) :
    handleNl (ls.flatMap writeLine) = .ok ls :=
  handleNl_written ls hc

/-- difflib's `get_grouped_opcodes(n)` applied to `get_opcodes()` of valid matching blocks
(strictly increasing, in range, equal content; adjacent blocks allowed) is a valid
grouped-opcode list, for every context size `n` (0 included) -/
theorem grouped_validGroups (a b : List Line) (ks : List Block) (n : Nat) (hv : validBlocks a b ks = true) :
    validGroups a b (grouped n (opcodes a.length b.length ks)) = true :=
  grouped_valid a b ks n hv

/-- hence the whole pipeline from the matcher's blocks: the diff exists, applies back, and
parses to the hunks it was written from -/
theorem diff_of_blocks_applies (a b : List Line) (ks : List Block) (n : Nat) (hv : validBlocks a b ks = true)
    (hla : a.length < 2147483647) (hlb : b.length < 2147483647) :
    ∃ hs, mkHunks a b (grouped n (opcodes a.length b.length ks)) = some hs ∧
      (hs ≠ [] → iterPatched a (diffLines hs) = .ok b) ∧ (hs = [] → a = b) :=
  diff_text_applies a b _ (grouped_valid a b ks n hv) hla hlb

/-- `Patch.stats_values()` of breezy's diff equals the changed line counts: the inserted
lines are exactly the lines of `b` outside the matching blocks, the removed lines exactly
the lines of `a` outside them, and there is one hunk per opcode group -/
theorem stats_eq_counts (a b : List Line) (ks : List Block) (n : Nat) (hv : validBlocks a b ks = true)
    (hs : List Hunk) (hm : mkHunks a b (grouped n (opcodes a.length b.length ks)) = some hs) :
    (stats hs).1 + (ks.map (·.n)).sum = b.length ∧ (stats hs).2.1 + (ks.map (·.n)).sum = a.length ∧
    (stats hs).2.2 = (grouped n (opcodes a.length b.length ks)).length := by
  rw [stats_eq]
  exact grouped_counts a b ks n hv hs hm

/-- the parsed diff has the same statistics (parsing gives back the same hunks) -/
theorem stats_of_parsed_diff (a b : List Line) (ks : List Block) (n : Nat) (hv : validBlocks a b ks = true)
    (hla : a.length < 2147483647) (hlb : b.length < 2147483647)
    (hs : List Hunk) (hm : mkHunks a b (grouped n (opcodes a.length b.length ks)) = some hs) (hne : hs ≠ []) :
    ∃ hs', parsePatch (diffLines hs) = .ok hs' ∧
      (stats hs').1 + (ks.map (·.n)).sum = b.length ∧ (stats hs').2.1 + (ks.map (·.n)).sum = a.length :=
  ⟨hs, parse_diff_text a b _ (grouped_valid a b ks n hv) hla hlb hs hm hne,
    (stats_eq_counts a b ks n hv hs hm).1, (stats_eq_counts a b ks n hv hs hm).2.1⟩

/-- for arbitrary valid grouped opcodes (any matcher): insert/remove statistics balance
the text lengths and the hunk count is the group count -/
theorem stats_balance (a b : List Line) (gs : List Group) (hv : validGroups a b gs = true)
    (hla : a.length < 2147483647) (hlb : b.length < 2147483647)
    (hs : List Hunk) (hm : mkHunks a b gs = some hs) :
    (stats hs).1 + a.length = (stats hs).2.1 + b.length ∧ (stats hs).2.2 = gs.length := by
  simp only [mkHunks, Option.map_eq_some_iff] at hm
  obtain ⟨hs0, hm0, rfl⟩ := hm
  obtain ⟨hw, bal, len⟩ := groups_wf a b gs 0 0 hla hlb (Nat.zero_le _) (Nat.zero_le _) hv hs0 hm0
  have hf := fixFirst_props a b hs0 (fun h hh => ⟨(hw h hh).1, (hw h hh).2.1⟩)
  rw [stats_eq]
  simp only [hf.2.1, hf.2.2.1, hf.2.2.2.1]
  exact ⟨by simpa using bal, len⟩

/-- exact characterisation of a successful application: the output is `ok` iff the
old text is `pre ++ (hunk's old side) ++ rest'` at the hunk's position, and then the
output is `pre ++ (hunk's new side) ++ …` — never anything else -/
theorem apply_ok_iff (ln : Nat) (rest : List Line) (h : Hunk) (hs : List Hunk) (out : List Line) :
    applyFrom ln rest (h :: hs) = .ok out ↔
      ∃ pre rest' out', pre.length = h.origPos - ln ∧ rest = pre ++ oldSide h.lines ++ rest' ∧
        applyFrom (ln + pre.length + (oldSide h.lines).length) rest' hs = .ok out' ∧
        out = pre ++ newSide h.lines ++ out' :=
  applyFrom_ok_iff ln rest h hs out

/-- a text that does not carry the hunk's context/removed lines at the hunk's
position is never patched: the result is `PatchConflict`, and its line number is
the position reached when the hunk starts (the end of the text if it ends before
that) plus the number of old-side lines that still matched — i.e. the first old
line that differs or is missing -/
theorem apply_conflict_on_mismatch (ln : Nat) (rest : List Line) (h : Hunk) (hs : List Hunk)
    (hmis : ¬ (oldSide h.lines <+: rest.drop (h.origPos - ln))) :
    applyFrom ln rest (h :: hs) =
      .error (.conflict (ln + min (h.origPos - ln) rest.length +
        lcp (oldSide h.lines) (rest.drop (h.origPos - ln)))) :=
  applyFrom_conflict ln rest h hs hmis

/-- at top level, for a hunk that starts inside the text: the reported line is the
1-based number of the first old line that differs from the hunk's old side -/
theorem apply_conflict_first_differing_line (orig : List Line) (h : Hunk) (hs : List Hunk)
    (hpos : 1 ≤ h.origPos) (hin : h.origPos - 1 ≤ orig.length)
    (hmis : ¬ (oldSide h.lines <+: orig.drop (h.origPos - 1))) :
    applyHunks orig (h :: hs) =
      .error (.conflict (h.origPos + lcp (oldSide h.lines) (orig.drop (h.origPos - 1)))) := by
  unfold applyHunks
  rw [applyFrom_conflict 1 orig h hs hmis, Nat.min_eq_left hin]
  congr 3; omega

/-- the applier is total and every failure is a `PatchConflict` whose line number names
an existing old line or the line just after the end of the old text -/
theorem apply_ok_or_conflict (orig : List Line) (hs : List Hunk) :
    (∃ out, applyHunks orig hs = .ok out) ∨
    (∃ k, applyHunks orig hs = .error (.conflict k) ∧ 1 ≤ k ∧ k ≤ orig.length + 1) := by
  cases h : applyHunks orig hs with
  | ok out => exact Or.inl ⟨out, rfl⟩
  | error e =>
    cases e with
    | conflict k =>
      have := applyFrom_conflict_range 1 orig hs k h
      exact Or.inr ⟨k, rfl, by omega, by omega⟩

/-! ## byte level: texts and diffs as byte strings -/

/-- a diff written to a byte stream and read back line by line is the same list of
lines, provided the text lines contain no newline except as their last byte -/
theorem diff_bytes_roundtrip (hs : List Hunk) (hc : ∀ h ∈ hs, ∀ l ∈ h.lines, cleanLine (content l) = true) :
    splitNL (diffLines hs).flatten = diffLines hs :=
  splitNL_diffLines hs hc

/-- end to end on byte strings: split both files after every newline, diff, write the
diff to a byte stream, read it back line by line, patch the old file's lines: the
concatenated output is the new file -/
theorem diff_bytes_applies (A B : Bytes) (gs : List Group) (hv : validGroups (splitNL A) (splitNL B) gs = true)
    (hla : (splitNL A).length < 2147483647) (hlb : (splitNL B).length < 2147483647) :
    ∃ hs, mkHunks (splitNL A) (splitNL B) gs = some hs ∧
      (hs ≠ [] → ∃ out, iterPatched (splitNL A) (splitNL (diffLines hs).flatten) = .ok out ∧ out.flatten = B) ∧
      (hs = [] → A = B) := by
  obtain ⟨hs, hm, h1, h2⟩ := diff_text_applies (splitNL A) (splitNL B) gs hv hla hlb
  refine ⟨hs, hm, ?_, ?_⟩
  · intro hne
    refine ⟨splitNL B, ?_, flatten_splitNL B⟩
    rw [splitNL_diffLines hs ?_]
    · exact h1 hne
    · intro h hh l hl
      rcases mkHunks_mem _ _ gs hs hm h hh l hl with hm' | hm'
      · exact (splitNL_clean A _ hm').2
      · exact (splitNL_clean B _ hm').2
  · intro he
    have := h2 he
    rw [← flatten_splitNL A, ← flatten_splitNL B, this]

/-! non-vacuity -/

/-- `a b` ↦ `a c` with one group `equal 0..1, replace 1..2` is a valid input -/
example : validGroups [[97, 10], [98, 10]] [[97, 10], [99, 10]]
    [[⟨.equal, 0, 1, 0, 1⟩, ⟨.replace, 1, 2, 1, 2⟩]] = true := by decide
/-- empty old text, and a last line without newline -/
example : validGroups [] [[120]] [[⟨.insert, 0, 0, 0, 1⟩]] = true := by decide
example : wfHunk ⟨1, 2, 1, 2, none, [.ctx [97, 10], .rem [98, 10], .ins [99]]⟩ = true := by decide
example : carriable [32, 97] = true ∧ carriable noNl = false := by decide
example : ¬ (oldSide [HLine.ctx [97, 10]] <+: ([[120, 10]] : List Line).drop (1 - 1)) := by decide
/-- matching blocks of `a b` / `a c`, and what the grouping makes of them -/
example : validBlocks [[97, 10], [98, 10]] [[97, 10], [99, 10]] [⟨0, 0, 1⟩] = true := by decide
example : grouped 3 (opcodes 2 2 [⟨0, 0, 1⟩]) = [[⟨.equal, 0, 1, 0, 1⟩, ⟨.replace, 1, 2, 1, 2⟩]] := by decide
/-- second hunk's context is present one line late: conflict at line 2 (the first differing line) -/
example : applyHunks [[120, 10], [97, 10], [98, 10]] [⟨2, 1, 2, 1, none, [.ctx [98, 10]]⟩] = .error (.conflict 2) := by
  decide
/-- text ends inside / before the hunk -/
example : applyHunks [[97, 10]] [⟨1, 2, 1, 2, none, [.ctx [97, 10], .ctx [98, 10]]⟩] = .error (.conflict 2) := by decide
example : applyHunks [[97, 10]] [⟨5, 1, 5, 1, none, [.ctx [98, 10]]⟩] = .error (.conflict 2) := by decide
example : splitNL [97, 10, 10, 98] = [[97, 10], [10], [98]] := by decide
example : cleanLine [97, 10] = true ∧ cleanLine [97, 10, 98] = false := by decide

end BreezyVerif.C39
