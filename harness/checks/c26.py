"""C26 — directory locks provide mutual exclusion (breezy/lockdir.py: LockDir,
src/lockdir.rs: LockHeldInfo.is_lock_holder_known_dead, crates/osutils/src/lib.rs:
is_local_pid_dead).

Model: lean/BreezyVerif/Model/C26.lean — any number of lockers as step machines
whose steps are exactly the transport calls; events start an operation, perform
the pending call, inject a fault into it, or crash the locker.  Every locker has
a host, a LOGNAME, a numeric uid and locks.steal_dead; the dead-holder decision
is `knownDead … (pidDeadOf (killZero processExists maySignal))`: kill(pid, 0) gives
ESRCH iff the process is gone, else EPERM iff the caller is neither root nor of
the holder's uid, else Ok; only ESRCH means dead.

T1 (extract): the arms of `match kill(pid, None)` in is_local_pid_dead and the
early-return chain of is_lock_holder_known_dead are transcribed from the current
Rust source into Generated/C26.lean; Props/C26T1.lean proves them equal to
pidDeadOf (all four outcomes, incl. "any other errno") and knownDead (all 32
inputs, incl. the localhost rule).

T2: real `LockDir` objects, one thread each, on one MemoryTransport (thorough:
also a local directory).  Every transport call goes through `GateTransport`,
which blocks until the scheduler grants that locker a step, so the real code
executes exactly the schedule that is given to the model.  After every event
the directory contents, each locker's pending call, `is_held`, nonce serial and
last result are rendered and compared with the model's rendering.
  * exhaustive: all interleavings of 2 lockers running attempt;unlock / attempt
  * sampled: 2-4 lockers, random programs over attempt/unlock/confirm/break_lock,
    crashes (the crashed locker's pid is the pid of a killed child process, so
    the real `is_lock_holder_known_dead` sees a dead pid), steal on/off,
    foreign host / foreign user lockers, and — when the harness is root — uid
    classes: a locker of an unprivileged uid class records the pid of a live
    process of that uid and asks `is_lock_holder_known_dead` in a process that
    really runs under that uid (`UidHelper`, `InfoProxy`), so a live holder of
    another uid really answers EPERM; directed cross-uid schedules
  * decision table of `is_lock_holder_known_dead` / `is_local_pid_dead`:
    recorded host × user × probed process (this process, init, reaped child,
    live and killed processes of two unprivileged uids) × asking uid (root and
    both unprivileged uids), with the errno of the real kill(pid, 0) checked
    against the model's `killZero`; the `localhost` rule is asked in a private
    UTS namespace whose host name is localhost
  * two real processes on a lock directory on disk: holder uid class × alive /
    killed × contender uid class × same / other LOGNAME × steal on / off
    (72 scenarios, enumerated), compared with the model op `xuid`
Oracle (on the real objects only): (O1) at most one live locker has is_held
unless a break was decided against a live holder; (O2) the `held` directory a
break renames away carries the info that break examined; (O3) a steal is only
started against a holder whose recorded host and user are ours and whose
process is dead, with locks.steal_dead on; (O4) while nobody has broken
anything, is_held implies held/info is owned by that locker; (O5) the decision
table says "known dead" only for our host (not localhost), our user, a recorded
pid and a process that is gone, whoever asks; (O6) in the two-process scenarios
the contender acquires only if the holder process was killed, the LOGNAME is
the same and stealing is on — never while the holder process is alive.
Without root the cross-uid parts are skipped and the evidence says so
(`cross_uid`, assumptions).

Mutants this was built against (scratch worktrees; result of the run in brackets):
  M1 `_attempt_lock`: FileExists on the rename treated as success and the nonce comparison dropped
     [oracle O4: "locker 2 has is_held but held/info is o0.1"; exhaustive 2-locker schedules]
  M2 `unlock`: `self.confirm()` dropped [oracle: "unlock of locker 0 renames away held/ of o2.1 although it did
     not see its own lock there"; needs break + re-acquisition between]
  M3 `force_break`: first `current_info != dead_holder_info` check dropped [oracle O2, family None: "decided to
     break o0.1 (force_break then saw o4.1) but renames away held/ of o4.1"; needs the holder to change between
     break_lock's peek and force_break's peek; re-run after the cross-uid extension: still caught]
  M4 `_handle_lock_contention`: `is_lock_holder_known_dead()` ignored [oracle O3: steals a live holder's lock]
  M5 src/lockdir.rs `is_lock_holder_known_dead`: user comparison dropped [decision-table oracle: known dead for
     another user's dead pid; plus T2 on schedules with a foreign-user stealer]
  M6 `unlock`: info deleted before `held` is renamed away [oracle O4: held/ without info while is_held]
  M7 `_attempt_lock`: `_lock_held = True` before the confirming peek [T2 only: is_held differs at the pending
     confirm; no property failure without faults — C27 catches it with a fault]
  M8 `unlock`: `_lock_held` not cleared [oracle O4: is_held with held/ absent]
  M9 `_handle_lock_contention`: locks.steal_dead ignored [oracle O6: "the lock of a dead holder was stolen although
     locks.steal_dead is off"; O3 and T2 as well]
  R1 crates/osutils `is_local_pid_dead`: `Err(EPERM) => true` [oracle O5: "is_local_pid_dead=True asked by uid class 1
     for the live process (init)"; O3/O6: live holder of another uid stolen from; 148 T2 mismatches; T1 fails.
     Needs a live holder owned by a different uid than the (non-root) contender]
  R2 the seeded change of /var/tmp/seed-C26b: every kill error = dead [same as R1]
  R3 src/lockdir.rs `is_lock_holder_known_dead`: the `localhost` rule dropped [oracle O5 in the UTS namespace:
     "is_lock_holder_known_dead=True on a machine named localhost for ['ours', 'verifuser1', 'dead']"; T1 fails.
     Needs a machine whose host name is localhost]
  R5 `is_local_pid_dead`: only the catch-all `Err(err)` arm returns true [cannot be provoked on Linux: T1
     pid_dead_arms_eq fails, reported as a broken tie, no-failing-input-found]
  H1 harmless: `_remove_pending_dir` rewritten as a loop, releasing name built with % [clean: 0 mismatches, only
     the F7 family reported]
  H2 harmless: match arms merged and reordered (`Ok(()) | Err(EPERM) => false`, `Err(_) => { false }`), user and
     localhost guards swapped [clean: T1 retranslates, 20/20 theorems, 0 mismatches]
"""
import itertools
import json
import os
import queue
import re
import select
import signal
import struct
import subprocess
import sys
import threading

from vlib import env

THEOREMS = [
    "claim_on_disk", "mutex_no_break", "mutex_single_breaker_partial",
    "break_removes_examined_partial", "break_race_witness",
    "pid_dead_iff_esrch", "pid_dead_iff_process_gone", "stealable_iff_ours_and_gone",
    "steal_only_if_dead_and_ours", "steal_in_progress_holder_gone", "policy_never_breaks_live_holder",
    "mutex_single_stealer", "mutex_exclusive_breaks_partial", "mutex_exclusive_stealers_partial",
    "break_removes_examined_exclusive_partial", "unlock_removes_own_exclusive_partial", "confirm_ok_iff_on_disk",
    "known_dead_table",
]
# T1 (Props/C26T1.lean).  The equalities are semantic (all outcomes of kill(pid, 0) / all 32 inputs), so when
# the current source was translated and they fail, the code differs from the model: a broken tie (strict list).
# Only when the source has a shape the translator does not know do they move to the lenient list (recorded,
# not reported, as long as T2 is clean) — see extract().
_T1 = ["pid_dead_arms_eq", "known_dead_guards_eq"]
T1_THEOREMS = list(_T1)
T1_EQUALITY_THEOREMS = []
RUST = ("cmd-py", "osutils-py")
RULE = ("a scheduled case is (number of lockers, per-locker host/LOGNAME/steal/uid class, initial held/, event "
        "list); events are start-op / perform pending transport call / crash; non-trivial = some locker performs a "
        "step while another locker is in the middle of an operation.  Decision-table cases are (asking uid class, "
        "recorded host, recorded user, kind of probed process); two-process cases are (holder uid class, holder "
        "LOGNAME, killed?, contender uid class, contender LOGNAME, steal?) — all non-trivial, enumerated completely")
ASSUMPTIONS = [
    "rand_chars never collides: temporary directory names and nonces are unique",
    "transport rename of a directory onto an existing directory fails (MemoryTransport, POSIX non-empty target)",
    "the lock directory itself exists (LockDir.create was called)",
    "a crashed locker's pid is dead and pids are not reused; host names identify machines",
    "kill(pid, 0) follows POSIX for plain setuid processes: ESRCH iff no such process, else EPERM iff the caller "
    "is neither root nor of the target's uid (checked against the kernel on every root run: a deviation is "
    "reported as an infrastructure error)",
]
TRUSTED = [
    "thread scheduling is modelled as interleaving at transport-call granularity",
    "a simulated locker of an unprivileged uid class is a thread of the (root) harness process; only its "
    "is_lock_holder_known_dead question is asked in a process that really runs under that uid (the two-process "
    "scenarios and the decision table use real processes throughout)",
    "errnos of kill(pid, 0) other than ESRCH/EPERM cannot be provoked; that arm of is_local_pid_dead is tied by "
    "T1 (pid_dead_arms_eq) only",
]

LOCK = "lock"
OUR_HOST, OTHER_HOST, LOCALHOST = 1, 2, 0
FAMILY_F7 = "force-break-holder-changed-between-peek-and-rename"
# uid classes of simulated processes: 0 = the uid the harness runs as (root), 1 and 2 = two unprivileged
# numeric uids (no passwd entry needed).  Only used when the harness runs as root.
UIDS = {1: 54321, 2: 54322}
HELPER_TIMEOUT = 60


def can_cross_uid():
    """root is needed to make processes of other uids; VERIF_C26_NO_CROSS_UID=1 forces the non-root path"""
    return hasattr(os, "setuid") and os.getuid() == 0 and not os.environ.get("VERIF_C26_NO_CROSS_UID")


# ---- T1: the two Rust decision functions, transcribed from the current source ------------------

class _Untranslatable(Exception):
    pass


def _rust_body(src, header_re, which=0):
    """text between the braces of the `which`-th function whose header matches, comments removed"""
    ms = list(re.finditer(header_re, src))
    if len(ms) <= which:
        raise _Untranslatable("function header %r not found" % header_re)
    i = src.index("{", ms[which].end() - 1)
    out, depth, n = [], 0, len(src)
    while i < n:
        c = src[i]
        if src.startswith("//", i):
            while i < n and src[i] != "\n":
                i += 1
            continue
        if src.startswith("/*", i):
            i = src.index("*/", i) + 2
            continue
        if c == '"':
            j = i + 1
            while src[j] != '"':
                j += 2 if src[j] == "\\" else 1
            out.append(src[i:j + 1])
            i = j + 1
            continue
        if c == "{":
            depth += 1
            if depth == 1:
                i += 1
                continue
        elif c == "}":
            depth -= 1
            if depth == 0:
                return "".join(out)
        out.append(c)
        i += 1
    raise _Untranslatable("unbalanced braces")


def _split_top(text, sep):
    """split at `sep` outside (), [], {} and string literals"""
    parts, cur, depth, i, n = [], [], 0, 0, len(text)
    while i < n:
        c = text[i]
        if c == '"':
            j = i + 1
            while text[j] != '"':
                j += 2 if text[j] == "\\" else 1
            cur.append(text[i:j + 1])
            i = j + 1
            continue
        if c in "([{":
            depth += 1
        elif c in ")]}":
            depth -= 1
        if depth == 0 and text.startswith(sep, i):
            parts.append("".join(cur))
            cur = []
            i += len(sep)
            continue
        cur.append(c)
        i += 1
    parts.append("".join(cur))
    return parts


def _nows(t):
    return re.sub(r"\s+", "", t)


def _block_value(text):
    """value of an arm body / block: a bool literal, possibly after `debug!(..);` statements"""
    t = text.strip()
    if t.startswith("{") and t.endswith("}"):
        t = t[1:-1]
    stmts = [x.strip() for x in _split_top(t, ";")]
    for st in stmts[:-1]:
        if not re.fullmatch(r"debug!\(.*\)", st, re.S):
            raise _Untranslatable("statement %r in a decision arm" % st)
    if stmts[-1] not in ("true", "false"):
        raise _Untranslatable("arm value %r is not a bool literal" % stmts[-1])
    return stmts[-1]


def _pid_dead_arms(src):
    """arms of `match kill(pid, None)` in the unix `is_local_pid_dead` → [(ArmPat, bool)]"""
    body = _rust_body(src, r"#\[cfg\(unix\)\]\s*pub fn is_local_pid_dead\(pid: u32\) -> bool\s*\{")
    flat = _nows(body)
    if "letpid=Pid::from_raw(pidasi32);" not in flat:
        raise _Untranslatable("the probed pid is not Pid::from_raw(pid as i32)")
    m = re.search(r"match\s+kill\(\s*pid\s*,\s*None\s*\)\s*\{", body)
    if not m or not _nows(body[:m.start()]).endswith("letpid=Pid::from_raw(pidasi32);"):
        raise _Untranslatable("is_local_pid_dead is not a single match on kill(pid, None)")
    inner = _rust_body(body[m.start():], r"match\s+kill\(\s*pid\s*,\s*None\s*\)\s*\{")
    if _nows(body[m.start():]) != "matchkill(pid,None){" + _nows(inner) + "}":
        raise _Untranslatable("code after the match")
    arms, rest = [], inner.strip()
    while rest:
        pat, sep, rest = rest.partition("=>")
        if not sep:
            raise _Untranslatable("arm without =>")
        rest = rest.lstrip()
        if rest.startswith("{"):
            depth = 0
            for k, c in enumerate(rest):
                depth += c == "{"
                depth -= c == "}"
                if depth == 0:
                    break
            bodytxt, rest = rest[:k + 1], rest[k + 1:].lstrip()
            if rest.startswith(","):
                rest = rest[1:]
        else:
            pieces = _split_top(rest, ",")
            bodytxt, rest = pieces[0], ",".join(pieces[1:])
        val = _block_value(bodytxt)
        for alt in _split_top(_nows(pat), "|"):
            if alt in ("Ok(_)", "Ok(())"):
                ap = ".ok"
            elif alt == "_":
                ap = ".any"
            elif re.fullmatch(r"Err\((_|[a-z_][a-z0-9_]*)\)", alt):
                ap = ".anyErr"
            else:
                mm = re.fullmatch(r"Err\((?:[A-Za-z_]+::)*(E[A-Z0-9]+)\)", alt)
                if not mm or mm.group(1) not in ("ESRCH", "EPERM"):
                    raise _Untranslatable("arm pattern %r" % alt)
                ap = "." + mm.group(1).lower()
            arms.append((ap, val))
        rest = rest.strip()
    return arms


_GUARDS = {
    "self.hostname!=Some(breezy_osutils::get_host_name().unwrap())": ".hostNe",
    "self.hostname==Some(breezy_osutils::get_host_name().unwrap())": ".hostEq",
    'self.hostname==Some("localhost".to_string())': ".isLocalhost",
    'self.hostname!=Some("localhost".to_string())': ".notLocalhost",
    "self.user!=Some(get_username_for_lock_info())": ".userNe",
    "self.user==Some(get_username_for_lock_info())": ".userEq",
    "self.pid.is_none()": ".pidNone",
    "self.pid.is_some()": ".pidSome",
}


def _known_dead_guards(src):
    """`if c { return b; }`* + tail of `is_lock_holder_known_dead` → ([(Guard, bool)], Tail)"""
    body = _rust_body(src, r"pub fn is_lock_holder_known_dead\(&self\) -> bool\s*\{").strip()
    guards = []
    while body.startswith("if"):
        i = body.index("{")
        cond = _nows(body[2:i])
        depth = 0
        for k in range(i, len(body)):
            depth += body[k] == "{"
            depth -= body[k] == "}"
            if depth == 0:
                break
        blk, body = body[i + 1:k], body[k + 1:].strip()
        if body.startswith("else"):
            raise _Untranslatable("else branch")
        stmts = [x.strip() for x in _split_top(blk, ";")]
        if stmts[-1] != "":
            raise _Untranslatable("guard block does not end in a return statement")
        stmts = stmts[:-1]
        for st in stmts[:-1]:
            if not re.fullmatch(r"debug!\(.*\)", st, re.S):
                raise _Untranslatable("statement %r in a guard" % st)
        mm = re.fullmatch(r"return\s+(true|false)", stmts[-1]) if stmts else None
        if not mm:
            raise _Untranslatable("guard block %r" % blk)
        if cond not in _GUARDS:
            raise _Untranslatable("guard condition %r" % cond)
        guards.append((_GUARDS[cond], mm.group(1)))
    tail = _nows(body)
    if tail == "breezy_osutils::is_local_pid_dead(self.pid.unwrap())":
        t = ".pidDead"
    elif tail in ("true", "false"):
        t = "(.lit %s)" % tail
    else:
        raise _Untranslatable("tail expression %r" % tail)
    return guards, t


def extract(ctx):
    sys.path.insert(0, os.path.join(env.VERIF, "tools"))
    import extract as ex
    notes, defs = [], []
    try:
        arms = _pid_dead_arms(open(os.path.join(env.REPO, "crates/osutils/src/lib.rs")).read())
        defs.append("def genPidDeadArms : List (ArmPat × Bool) := [%s]" % ", ".join("(%s, %s)" % a for a in arms))
    except (_Untranslatable, ValueError, IndexError, OSError) as e:
        notes.append("is_local_pid_dead: %s" % e)
        defs.append("-- NOT TRANSLATABLE: %s\ndef genPidDeadArms : List (ArmPat × Bool) := []" % str(e).replace("\n", " "))
    try:
        guards, tail = _known_dead_guards(open(os.path.join(env.REPO, "src/lockdir.rs")).read())
        defs.append("def genKnownDeadGuards : List (Guard × Bool) := [%s]" % ", ".join("(%s, %s)" % g for g in guards))
        defs.append("def genKnownDeadTail : Tail := %s" % tail)
    except (_Untranslatable, ValueError, IndexError, OSError) as e:
        notes.append("is_lock_holder_known_dead: %s" % e)
        defs.append("-- NOT TRANSLATABLE: %s\ndef genKnownDeadGuards : List (Guard × Bool) := []\n"
                    "def genKnownDeadTail : Tail := .lit true" % str(e).replace("\n", " "))
    text = ("-- GENERATED by harness/checks/c26.py from crates/osutils/src/lib.rs (is_local_pid_dead) and\n"
            "-- src/lockdir.rs (LockHeldInfo.is_lock_holder_known_dead) — do not edit\n"
            "import BreezyVerif.Model.C26\nnamespace BreezyVerif.C26\n" + "\n".join(defs) + "\nend BreezyVerif.C26\n")
    ex.write_if_changed(os.path.join(env.VERIF, "lean/BreezyVerif/Generated/C26.lean"), text)
    if notes:
        # the generated definitions are deliberately wrong, so the T1 equalities fail instead of silently
        # referring to an older transcription; an unknown shape is not by itself a difference in behaviour
        T1_THEOREMS[:], T1_EQUALITY_THEOREMS[:] = [], list(_T1)
        raise ex.ExtractError("; ".join(notes))
    T1_THEOREMS[:], T1_EQUALITY_THEOREMS[:] = list(_T1), []
    return "regenerated genPidDeadArms (match arms of is_local_pid_dead) and genKnownDeadGuards/Tail"


class _Abort(BaseException):
    pass


def _fault_classes():
    from dromedary import errors as te

    class FaultT(te.TransportError):
        pass

    class FaultP(te.PathError):
        pass
    return FaultT, FaultP


def _kind_of(path):
    rest = path[len(LOCK) + 1:] if path.startswith(LOCK + "/") else path
    first = rest.split("/")[0]
    if first == "held":
        return "H"
    if first.startswith("releasing."):
        return "R"
    if first.startswith("broken."):
        return "B"
    return "P"


class GateTransport:
    """What LockDir sees: every call is announced to the scheduler and performed
    only when the scheduler grants this locker a step."""

    def __init__(self, world, lid):
        self._w = world
        self._lid = lid
        self.base = world.t.base

    def abspath(self, p):
        return self._w.t.abspath(p)

    def _gate(self, call):
        w = self._w.workers[self._lid]
        if w.aborted:
            raise _Abort()
        w.pending = call
        self._w.rep.release()
        w.go.acquire()
        d = w.directive
        if d == "abort":
            w.aborted = True
            raise _Abort()
        w.pending = None
        if d == "T":
            raise self._w.FaultT("injected")
        if d == "P":
            raise self._w.FaultP(call, "injected")

    def mkdir(self, p, mode=None):
        self._gate("mkdir:" + _kind_of(p))
        return self._w.t.mkdir(p, mode=mode)

    def put_bytes_non_atomic(self, p, b, *a, **kw):
        self._gate("put:" + _kind_of(p))
        return self._w.t.put_bytes_non_atomic(p, b, *a, **kw)

    def rename(self, a, b):
        self._gate("rename:%s>%s" % (_kind_of(a), _kind_of(b)))
        if not self._w.t.has(a):
            # MemoryTransport.rename silently ignores a missing source; every real
            # transport raises NoSuchFile, and so does the gate
            from dromedary.errors import NoSuchFile
            raise NoSuchFile(a)
        return self._w.t.rename(a, b)

    def get_bytes(self, p):
        self._gate("get:" + _kind_of(p))
        return self._w.t.get_bytes(p)

    def delete(self, p):
        self._gate("delete:" + _kind_of(p))
        return self._w.t.delete(p)

    def rmdir(self, p):
        self._gate("rmdir:" + _kind_of(p))
        return self._w.t.rmdir(p)

    def delete_tree(self, p):
        self._gate("delete_tree:" + _kind_of(p))
        return self._w.t.delete_tree(p)


class _NoStealConfig:
    def get(self, name):
        if name == "locks.steal_dead":
            return False
        raise KeyError(name)


class _StealConfig:
    def get(self, name):
        if name == "locks.steal_dead":
            return True
        raise KeyError(name)


def _drop_to(uid):
    os.setgroups([])
    os.setgid(uid)
    os.setuid(uid)


_LIBC = []


def _die_with_parent():
    """PR_SET_PDEATHSIG(SIGKILL), after the uid change (which clears it); best effort — the helpers also
    leave when their request pipe reaches EOF"""
    try:
        if _LIBC and _LIBC[0] is not None:
            _LIBC[0].prctl(1, signal.SIGKILL, 0, 0, 0)
    except Exception:
        pass


def _load_libc():
    if not _LIBC:
        try:
            import ctypes
            _LIBC.append(ctypes.CDLL(None, use_errno=True))
        except Exception:
            _LIBC.append(None)


def _send(fd, obj):
    data = json.dumps(obj).encode()
    data = struct.pack("!I", len(data)) + data
    while data:
        data = data[os.write(fd, data):]


def _recv(fd, timeout=None):
    """one framed JSON message; None on EOF; InfraError when the peer does not answer in time"""
    buf = b""
    need = 4
    header = True
    while True:
        while len(buf) < need:
            if timeout is not None and not select.select([fd], [], [], timeout)[0]:
                raise env.InfraError("C26: helper process did not answer within %ss" % timeout)
            chunk = os.read(fd, need - len(buf))
            if not chunk:
                return None
            buf += chunk
        if header:
            need, buf, header = struct.unpack("!I", buf)[0], b"", False
            if need == 0:
                return json.loads("null")
        else:
            return json.loads(buf.decode())


class UidHelper:
    """A fork of this process that has dropped to an unprivileged uid (or, for `uts`, has moved into a
    private UTS namespace whose host name is `localhost`).  It evaluates the REAL
    `LockHeldInfo.is_lock_holder_known_dead` / `osutils.is_local_pid_dead` on request, so `kill(pid, 0)` is
    really issued by that uid against real processes.  It is also a live process owned by that uid: its pid
    is what a live simulated locker of that uid class records in its lock."""

    def __init__(self, uid=None, uts=False):
        import dromedary
        from breezy import lockdir, osutils
        from breezy._cmd_rs import LockHeldInfo
        _load_libc()
        if can_cross_uid():
            _xproc_warm()
        req_r, req_w = os.pipe()
        rep_r, rep_w = os.pipe()
        self.lock = threading.Lock()
        pid = os.fork()
        if pid == 0:
            code = 0
            try:
                os.close(req_w)
                os.close(rep_r)
                for other in _HELPERS.values():          # pipe ends of sibling helpers
                    for fd in (other._w, other._r):
                        try:
                            os.close(fd)
                        except OSError:
                            pass
                signal.signal(signal.SIGTERM, signal.SIG_DFL)
                signal.signal(signal.SIGINT, signal.SIG_IGN)
                if uts:
                    import socket
                    os.unshare(os.CLONE_NEWUTS)
                    socket.sethostname("localhost")
                if uid is not None:
                    _drop_to(uid)
                _die_with_parent()
                os.umask(0)
                sleepers, locks = {}, {}
                while True:
                    msg = _recv(req_r)
                    if msg is None:
                        break
                    try:
                        if msg["op"] in ("hold", "try") and not locks:
                            # A fork inherits the state of the Rust thread RNG (rand 0.9 has no fork protection), so
                            # sibling processes would produce the SAME nonces; real independent processes do not.
                            # Reading more than the reseed threshold (64 KiB) makes this process reseed from the OS.
                            for _ in range(900):
                                LockHeldInfo.for_this_process(None)
                        if msg["op"] == "kd":
                            os.environ["LOGNAME"] = msg["logname"]
                            info = LockHeldInfo.from_info_file_bytes(bytes.fromhex(msg["info"]))
                            out = bool(info.is_lock_holder_known_dead())
                        elif msg["op"] == "pd":
                            out = bool(osutils.is_local_pid_dead(msg["pid"]))
                        elif msg["op"] == "k0":
                            out = _kill0(msg["pid"])
                        elif msg["op"] == "hold":
                            os.environ["LOGNAME"] = msg["logname"]
                            ld = lockdir.LockDir(dromedary.get_transport_from_path(msg["dir"]), LOCK)
                            ld.create()
                            ld.attempt_lock()
                            locks[msg["dir"]] = ld
                            out = ["HELD", os.getpid(), os.getuid(), ld.peek().pid]
                        elif msg["op"] == "try":
                            os.environ["LOGNAME"] = msg["logname"]
                            ld = lockdir.LockDir(dromedary.get_transport_from_path(msg["dir"]), LOCK)
                            ld.get_config = _StealConfig if msg["steal"] else _NoStealConfig
                            try:
                                ld.attempt_lock()
                                res = "ok"
                            except lockdir.errors.LockContention:
                                res = "E:Contention"
                            except Exception as e:
                                res = "E:%s: %s" % (type(e).__name__, e)
                            mine = False
                            if ld.is_held:
                                info = ld.peek()
                                mine = info is not None and info.nonce == ld.nonce
                            locks[msg["dir"]] = ld
                            out = [res, bool(ld.is_held), mine, os.getuid(), os.getpid()]
                        elif msg["op"] == "confirm":
                            ld = locks[msg["dir"]]
                            try:
                                ld.confirm()
                                res = "ok"
                            except lockdir.errors.LockBroken:
                                res = "E:LockBroken"
                            out = [res, bool(ld.is_held)]
                        elif msg["op"] == "spawn":
                            # a process of this uid that does nothing (vfork+exec from here is cheap; a
                            # fork+setuid+exec from the big root process is not)
                            sp = subprocess.Popen(["/bin/sleep", "100000"], stdin=subprocess.DEVNULL)
                            sleepers[sp.pid] = sp
                            out = sp.pid
                        elif msg["op"] == "reap":
                            sp = sleepers.pop(msg["pid"])
                            sp.kill()
                            sp.wait()
                            out = True
                        elif msg["op"] == "who":
                            out = [os.getuid(), os.getpid(), LockHeldInfo.for_this_process(None).hostname]
                        else:
                            out = "E:bad-op"
                    except BaseException as e:       # reported to the parent, which decides
                        out = "E:%s: %s" % (type(e).__name__, e)
                    _send(rep_w, out)
            except BaseException:
                code = 3
            finally:
                os._exit(code)
        os.close(req_r)
        os.close(rep_w)
        self.pid, self._w, self._r, self.owner = pid, req_w, rep_r, os.getpid()
        who = self.ask(dict(op="who"))
        if not isinstance(who, list) or who[1] != pid or (uid is not None and who[0] != uid) or (
                uts and who[2] != "localhost"):
            raise env.InfraError("C26: helper process for uid=%r uts=%r did not come up: %r" % (uid, uts, who))

    def ask(self, msg):
        with self.lock:
            _send(self._w, msg)
            out = _recv(self._r, HELPER_TIMEOUT)
        if out is None or (isinstance(out, str) and out.startswith("E:")):
            raise env.InfraError("C26: helper process failed on %r: %r" % (msg.get("op"), out))
        return out

    def known_dead(self, logname, info_bytes):
        return self.ask(dict(op="kd", logname=logname, info=bytes(info_bytes).hex()))

    def pid_dead(self, pid):
        return self.ask(dict(op="pd", pid=pid))

    def spawn(self):
        return _Sleeper(self)

    def close(self):
        for fd in (self._w, self._r):
            try:
                os.close(fd)
            except OSError:
                pass
        try:
            os.kill(self.pid, signal.SIGTERM)     # normally it is already leaving on EOF
        except OSError:
            pass
        try:
            os.waitpid(self.pid, 0)
        except OSError:
            pass


class _Sleeper:
    """a live do-nothing process: of the harness's uid (Popen) or of a helper's uid; kill() also reaps it, so
    that afterwards no process with that pid exists"""

    def __init__(self, via=None):
        self.via = via
        if via is None:
            self.p = subprocess.Popen(["/bin/sleep", "100000"])
            self.pid = self.p.pid
        else:
            self.pid = via.ask(dict(op="spawn"))

    def kill(self):
        if self.via is None:
            self.p.kill()
            self.p.wait()
        elif self.via.owner == os.getpid():
            self.via.ask(dict(op="reap", pid=self.pid))


_HELPERS = {}


def helper(key):
    """per-process helper: key = uid class (1, 2) or "uts"; a forked pool worker makes its own"""
    k = (os.getpid(), key)
    h = _HELPERS.get(k)
    if h is None:
        for old in [x for x in _HELPERS if x[0] != os.getpid()]:
            del _HELPERS[old]            # belongs to the parent process; its pipes are not ours to use
        if key == "uts":
            h = UidHelper(uts=True)
        else:
            # 1, 2: the process of that uid class; ("c", class): a second process of that class (0 = our uid)
            c = key[1] if isinstance(key, tuple) else key
            h = UidHelper(uid=UIDS[c] if c else None)
        _HELPERS[k] = h
    return h


def close_helpers():
    for k in [x for x in _HELPERS if x[0] == os.getpid()]:
        _HELPERS.pop(k).close()


class InfoProxy:
    """What `peek()` returns to a simulated locker of an unprivileged uid class: the real `LockHeldInfo`,
    except that `is_lock_holder_known_dead` is evaluated (by the same real code, on the same bytes) in the
    helper process that really runs under that uid."""

    def __init__(self, real, data, uidc, logname):
        self.__dict__.update(_real=real, _data=bytes(data), _uidc=uidc, _logname=logname)

    def is_lock_holder_known_dead(self):
        return helper(self._uidc).known_dead(self._logname, self._data)

    def __getattr__(self, name):
        return getattr(self._real, name)

    def __eq__(self, other):
        return self._real == (other._real if isinstance(other, InfoProxy) else other)

    def __ne__(self, other):
        return not self.__eq__(other)

    __hash__ = None

    def __str__(self):
        return str(self._real)

    def __repr__(self):
        return repr(self._real)


class Worker(threading.Thread):
    """A locker's thread.  Threads are pooled and re-bound to the next case."""

    def __init__(self, lid):
        super().__init__(daemon=True)
        self.lid = lid
        self.inbox = queue.Queue()
        self.go = threading.Semaphore(0)
        self.bind(None)

    def bind(self, world):
        self.world = world
        self.directive = None
        self.pending = None       # pending transport call, None = idle
        self.aborted = False
        self.last = "~"
        self.busy = False
        self.op = None
        self.calls = 0
        self.examined = None
        self.decided = None
        self.confirm_seen = None
        self.contention_seen = "-"
        self.in_steal = False
        self.prev_call = None

    def run(self):
        _TLS.lid = self.lid
        _TLS.events = ev = []
        while True:
            op = self.inbox.get()
            w = self.world
            _TLS.world = w
            del ev[:]
            try:
                self.last = w.do_op(self.lid, op, ev)
            except _Abort:
                pass
            self.busy = False
            self.pending = None
            w.rep.release()


_POOL = []
_POOL_PID = [None]


def _workers(world, n):
    if _POOL_PID[0] != os.getpid():
        # forked child (ctx.pmap): the parent's threads do not exist here
        del _POOL[:]
        _POOL_PID[0] = os.getpid()
    while len(_POOL) < n:
        w = Worker(len(_POOL))
        _POOL.append(w)
        w.start()
    for w in _POOL[:n]:
        w.bind(world)
    return _POOL[:n]


class World:
    """One case: a lock directory, n real LockDir objects, their threads."""

    def __init__(self, cfgs, held="-", local=False, crashers=()):
        from breezy import lockdir
        self.lockdir = lockdir
        self.FaultT, self.FaultP = _FAULTS
        if local:
            import dromedary
            self.t = dromedary.get_transport_from_path(env.fresh_dir("lk"))
        else:
            from dromedary.memory import MemoryTransport
            self.t = MemoryTransport()
        self.t.mkdir(LOCK)
        self.cfgs = cfgs
        self.n = len(cfgs)
        # uid class of every locker's process (4th cfg component, default: the harness's own uid)
        self.uidc = [c[3] if len(c) > 3 else 0 for c in cfgs]
        self.cross = any(self.uidc)
        if self.cross and not can_cross_uid():
            raise env.InfraError("C26: a case with several uids needs the harness to run as root")
        for c in sorted(set(self.uidc) - {0}):
            helper(c)                 # forked here, from the thread that drives the case
        self.tls = _TLS
        self.rep = threading.Semaphore(0)
        self.nonce_map = {}
        self.bad_map = {}
        self.serial = [0] * self.n
        self.seen_nonce = [None] * self.n
        self.crashed = [False] * self.n
        self.children = {}
        self.pids = []
        for i in range(self.n):
            c = self.uidc[i]
            if i in crashers:
                # a real process (owned by the locker's uid) that is killed at the crash event
                p = helper(c).spawn() if c else _Sleeper()
                self.children[i] = p
                self.pids.append(p.pid)
            elif c:
                self.pids.append(helper(c).pid)        # a live process owned by that uid
            else:
                self.pids.append(os.getpid())
        self.lds = []
        self.workers = _workers(self, self.n)
        for i in range(self.n):
            ld = lockdir.LockDir(GateTransport(self, i), LOCK)
            if not cfgs[i][2]:
                ld.get_config = _NoStealConfig
            self.lds.append(ld)
        # oracle bookkeeping
        self.break_decisions = 0
        self.broke_alive = False
        self.misrenamed = False
        self.oracle = []                      # (what, family)
        self._craft_initial(held)

    # ---- identity shim (harness side of LockHeldInfo.for_this_process) -----
    def ident(self, lid):
        host = {OUR_HOST: _REAL_HOST, OTHER_HOST: "elsewhere.example", LOCALHOST: "localhost"}[self.cfgs[lid][0]]
        return host, self.pids[lid]

    def _craft_initial(self, held):
        if held == "-":
            return
        self.t.mkdir(LOCK + "/held")
        if held == "e":
            return
        if held == "o98.0":
            # an empty info file parses to holder info without a nonce (bug 185013)
            self.nonce_map[None] = (98, 0)
            data = b""
        elif held.startswith("o"):
            owner, serial = held[1:].split(".")
            nonce = ("crafted%s-%s" % (owner, serial)).encode()
            self.nonce_map[nonce] = (int(owner), int(serial))
            data = b"nonce: " + nonce + b"\nhostname: elsewhere.example\nuser: somebody\npid: 1\n"
        else:
            tag = int(held[1:])
            data = BAD_INFOS[tag % len(BAD_INFOS)]
            self.bad_map[data] = tag
        self.t.put_bytes(LOCK + "/held/info", data)

    # ---- running operations ---------------------------------------------------
    def do_op(self, lid, op, events):
        ld = self.lds[lid]
        errors = self.lockdir.errors
        from dromedary.errors import NoSuchFile
        try:
            if op == "a":
                ld.attempt_lock()
                return "ok"
            if op == "u":
                ld.unlock()
                return "ok" if "released" in events else "swallowed"
            if op == "c":
                ld.confirm()
                return "ok"
            if op == "b":
                ld.break_lock()
                return "broken" if "broken" in events else "none"
            raise ValueError(op)
        except _Abort:
            raise
        except self.FaultP:
            return "E:FaultP"
        except self.FaultT:
            return "E:FaultT"
        except errors.LockNotHeld:
            return "E:NotHeld"
        except errors.LockBroken:
            return "E:LockBroken"
        except errors.LockBreakMismatch:
            return "E:Mismatch"
        except errors.LockContention:
            return "E:Contention"
        except errors.LockFailed:
            return "E:LockFailed"
        except errors.LockCorrupt:
            return "E:Corrupt"
        except NoSuchFile:
            return "E:NoSuchFile"
        except AssertionError:
            return "E:Assert"
        except Exception as e:
            return "E:" + type(e).__name__

    def logname(self, lid):
        return "verifuser%d" % self.cfgs[lid][1]

    def _set_env(self, lid):
        os.environ["LOGNAME"] = self.logname(lid)

    def _wait(self, w):
        self.rep.acquire()
        self._note_nonce(w.lid)

    def _note_nonce(self, lid):
        nonce = getattr(self.lds[lid], "nonce", None)
        if nonce is not None and nonce != self.seen_nonce[lid]:
            self.seen_nonce[lid] = nonce
            self.serial[lid] += 1
            self.nonce_map[nonce] = (lid, self.serial[lid])

    def event(self, ev):
        """execute one event (same syntax as the driver's)"""
        kind = ev[0]
        if kind == "x":
            lid = int(ev[1:])
            self.crashed[lid] = True
            p = self.children.pop(lid, None)
            if p is not None:
                p.kill()
            return
        if kind == "s":
            lid, op = int(ev[1:-1]), ev[-1]
            w = self.workers[lid]
            if self.crashed[lid] or w.busy:
                return
            self._set_env(lid)
            w.busy = True
            w.op = op
            w.calls = 0
            w.confirm_seen = None
            w.inbox.put(op)
            self._wait(w)
            return
        if kind == "t":
            lid, directive = int(ev[1:]), "go"
        else:
            lid, directive = int(ev[1:-1]), ev[-1]
        w = self.workers[lid]
        if self.crashed[lid] or not w.busy:
            return
        self._set_env(lid)
        if directive == "go":
            self._oracle_before_call(w)
        w.calls += 1
        w.directive = directive
        w.go.release()
        self._wait(w)
        if directive == "go":
            self._oracle_after_call(w)

    def close(self):
        for w in self.workers:
            if w.busy:
                w.directive = "abort"
                w.go.release()
                self.rep.acquire()
        for p in self.children.values():
            p.kill()
        self.children = {}

    # ---- observation ------------------------------------------------------------
    def _content(self, d):
        from dromedary.errors import NoSuchFile
        try:
            data = self.t.get_bytes(d + "/info")
        except NoSuchFile:
            return "e"
        return self._classify(data)

    def _classify(self, data):
        nonce = _PARSED.get(data, 0)
        if nonce == 0:
            from breezy._cmd_rs import LockHeldInfo
            try:
                nonce = LockHeldInfo.from_info_file_bytes(data).nonce
            except self.lockdir.errors.LockCorrupt:
                nonce = 1
            if len(_PARSED) > 20000:
                _PARSED.clear()
            _PARSED[data] = nonce
        if nonce == 1:
            if data not in self.bad_map:
                self.bad_map[data] = 900 + len(self.bad_map)
            return "b%d" % self.bad_map[data]
        o = self.nonce_map.get(nonce)
        return "o%d.%d" % o if o else "o?%r" % nonce

    def held_content(self):
        if not self.t.has(LOCK + "/held"):
            return "-"
        return self._content(LOCK + "/held")

    def show(self):
        names = sorted(self.t.list_dir(LOCK))
        dirs = sorted("%s:%s" % (_kind_of(LOCK + "/" + nm), self._content(LOCK + "/" + nm))
                      for nm in names if nm != "held")
        parts = ["H=" + self.held_content(), "D=" + (",".join(dirs) or "-")]
        for i, w in enumerate(self.workers):
            parts.append("%s/%s/%d/%s" % (w.pending if w.busy and w.pending else "-",
                                          "T" if self.lds[i].is_held else "F", self.serial[i], w.last))
        return " ".join(parts)

    # ---- oracle --------------------------------------------------------------------
    def _owner_alive(self, content):
        if content.startswith("o") and "." in content and "?" not in content:
            owner = int(content[1:].split(".")[0])
            return owner >= self.n or not self.crashed[owner]
        return True

    def _oracle_before_call(self, w):
        call = w.pending
        lid = w.lid
        breaking = w.op == "b" or (w.op == "a" and w.in_steal)
        if call == "get:H":
            cur = self.held_content()
            if w.op == "b" and w.calls == 0:
                # the peek of break_lock: the user (always "yes") decides on this info
                if cur not in ("-", "e"):
                    self.break_decisions += 1
                    if self._owner_alive(cur):
                        self.broke_alive = True
                w.decided = cur
                w.examined = None
            elif breaking:
                w.examined = cur            # force_break's own peek
            elif w.op == "a" and w.calls >= 3:
                w.contention_seen = cur     # the peek after a failed rename (or the confirming peek)
            elif w.op == "u":
                w.confirm_seen = cur
        if call == "rename:H>B":
            removed = self.held_content()
            if removed != "-" and removed != w.decided:
                self.misrenamed = True
                # F7 proper: force_break re-checked the holder (saw the info the decision was based on) and the
                # holder changed only after that re-check.  Anything else (e.g. the re-check is missing or wrong)
                # is a different failure.
                fam = FAMILY_F7 if w.examined == w.decided else None
                self.oracle.append((
                    "locker %d decided to break the lock %s (force_break then saw %s) but renames away held/ of %s "
                    "(the later holder's lock is removed and not restored)" % (lid, w.decided, w.examined, removed),
                    fam))
        if call == "rename:H>R":
            removed = self.held_content()
            if removed != "-" and not removed.startswith("o%d." % lid):
                seen = w.confirm_seen
                if seen is None or not seen.startswith("o%d." % lid):
                    self.oracle.append((
                        "unlock of locker %d renames away held/ of %s although it did not see its own lock there "
                        "(confirm saw %s)" % (lid, removed, seen), None))

    def _oracle_after_call(self, w):
        lid = w.lid
        # detect the start of a steal: inside an attempt, a contention peek is followed by another get:H
        if w.op == "a" and w.busy:
            prev = w.prev_call
            if prev == "get:H" and w.pending == "get:H" and not w.in_steal:
                w.in_steal = True
                seen = w.contention_seen
                w.decided = seen
                w.examined = None
                self.break_decisions += 1
                ok = seen.startswith("o") and "?" not in seen
                if ok:
                    owner = int(seen[1:].split(".")[0])
                    ok = (owner < self.n and self.crashed[owner] and self.cfgs[owner][0] == OUR_HOST
                          and self.cfgs[owner][1] == self.cfgs[lid][1] and self.cfgs[lid][2])
                if not ok:
                    why = "is not known dead / not ours / stealing is off"
                    if seen.startswith("o") and "?" not in seen and int(seen[1:].split(".")[0]) < self.n:
                        o = int(seen[1:].split(".")[0])
                        if not self.crashed[o]:
                            why = ("is a live process (pid %d, uid class %d; the stealer has uid class %d, so "
                                   "kill(pid, 0) says %s)" % (
                                       self.pids[o], self.uidc[o], self.uidc[lid],
                                       "Ok" if self.uidc[lid] in (0, self.uidc[o]) else "EPERM"))
                    self.oracle.append((
                        "locker %d steals the lock %s whose holder %s" % (lid, seen, why), None))
                    self.broke_alive = True
            if w.pending == "rename:P>H":
                w.in_steal = False
            w.prev_call = w.pending
        if not w.busy:
            w.in_steal = False
            w.prev_call = None
        # O1 / O4 on the state after the step
        holders = [i for i in range(self.n) if self.lds[i].is_held and not self.crashed[i]]
        if len(holders) > 1 and not self.broke_alive:
            self.oracle.append((
                "live lockers %r all have is_held although no live holder's lock was broken deliberately" % holders,
                FAMILY_F7 if self.misrenamed else None))
        if self.break_decisions == 0:
            cur = self.held_content()
            for i in range(self.n):
                if self.lds[i].is_held and not cur.startswith("o%d." % i):
                    self.oracle.append((
                        "locker %d has is_held but held/info is %s and nobody broke the lock" % (i, cur), None))


_TLS = threading.local()
_PARSED = {}
_FAULTS = None
_REAL_HOST = None
_installed = False
BAD_INFOS = [b"\x00\xff\xfe", b"nonce: [", b"pid: 12\nuser: me\nnonce: abc\nhostn", b"- a\n- b\n"]


class _Meta(type):
    def __instancecheck__(cls, obj):
        return isinstance(obj, cls._real) or isinstance(obj, InfoProxy)


def install():
    """process-wide set-up: identity shim, hooks, UI that answers yes"""
    global _installed, _FAULTS, _REAL_HOST
    if _installed:
        return
    _installed = True
    from breezy import lock, lockdir, ui
    from breezy._cmd_rs import LockHeldInfo as Real
    _FAULTS = _fault_classes()
    _REAL_HOST = Real.for_this_process(None).hostname

    class Shim(metaclass=_Meta):
        """`LockHeldInfo` as seen by lockdir.py: real objects, but the recorded
        host name / pid are those of the simulated process of the calling locker,
        and a locker of an unprivileged uid class asks `is_lock_holder_known_dead`
        in a process of that uid (`InfoProxy`)"""
        _real = Real

        @staticmethod
        def from_info_file_bytes(data):
            info = Real.from_info_file_bytes(data)
            w = getattr(_TLS, "world", None)
            lid = getattr(_TLS, "lid", None)
            if w is not None and lid is not None and w.cross and w.uidc[lid]:
                return InfoProxy(info, data, w.uidc[lid], w.logname(lid))
            return info

        @staticmethod
        def for_this_process(extra):
            info = Real.for_this_process(extra)
            w = getattr(_TLS, "world", None)
            lid = getattr(_TLS, "lid", None)
            if w is not None and lid is not None:
                host, pid = w.ident(lid)
                info.hostname = host
                info.pid = pid
            return info

    lockdir.LockHeldInfo = Shim

    def released(result):
        ev = getattr(_TLS, "events", None)       # None: not a scheduled locker thread
        if ev is not None:
            ev.append("released")

    def broken(result):
        ev = getattr(_TLS, "events", None)
        if ev is not None:
            ev.append("broken")

    lock.Lock.hooks.install_named_hook("lock_released", released, "verif")
    lock.Lock.hooks.install_named_hook("lock_broken", broken, "verif")

    class YesUI(ui.SilentUIFactory):
        def get_boolean(self, prompt):
            return True

        def confirm_action(self, *a, **kw):
            return True

        def show_user_warning(self, *a, **kw):
            pass

        def show_message(self, *a, **kw):
            pass

    ui.ui_factory = YesUI()


def run_case(case):
    """execute one case on the real code; returns (observations, oracle failures)"""
    install()
    cfgs = [tuple(c) for c in case["cfgs"]]
    crashers = {int(e[1:]) for e in case["events"] if e[0] == "x"}
    w = World(cfgs, held=case.get("held", "-"), local=case.get("local", False), crashers=crashers)
    try:
        obs = [w.show()]
        for ev in case["events"]:
            w.event(ev)
            obs.append(w.show())
        return obs, list(w.oracle)
    finally:
        w.close()


def _cfg_str(c):
    return "%d.%d.%s" % (c[0], c[1], "T" if c[2] else "F") + (".%d" % c[3] if len(c) > 3 else "")


def model_line(case):
    cfgs = ",".join(_cfg_str(c) for c in case["cfgs"])
    return "run %d %s %s %s" % (len(case["cfgs"]), cfgs, case.get("held", "-"), ",".join(case["events"]) or "-")


# ---- schedule generation ----------------------------------------------------------

def explore(cfgs, programs, held="-", limit=None, root=()):
    """stateless depth-first enumeration of ALL interleavings of the given
    per-locker programs (a choice = one locker: start its next operation if it is
    idle, otherwise perform its pending call).  Yields (case, obs, oracle)."""
    install()
    n = len(cfgs)
    prefix = [(c, []) for c in root]          # list of (choice, alternatives still to try)
    count = 0
    while True:
        w = World([tuple(c) for c in cfgs], held=held)
        events = []
        obs = [w.show()]
        pcs = [0] * n
        depth = 0
        try:
            while True:
                enabled = [i for i in range(n) if w.workers[i].busy or pcs[i] < len(programs[i])]
                if not enabled:
                    break
                if depth < len(prefix):
                    i = prefix[depth][0]
                else:
                    i = enabled[0]
                    prefix.append((i, enabled[1:]))
                depth += 1
                if w.workers[i].busy:
                    ev = "t%d" % i
                else:
                    ev = "s%d%s" % (i, programs[i][pcs[i]])
                    pcs[i] += 1
                    w.event(ev)
                    events.append(ev)
                    obs.append(w.show())
                    if not w.workers[i].busy:
                        continue
                    ev = "t%d" % i
                w.event(ev)
                events.append(ev)
                obs.append(w.show())
            oracle = list(w.oracle)
        finally:
            w.close()
        yield dict(cfgs=[list(c) for c in cfgs], held=held, events=events), obs, oracle
        count += 1
        if limit and count >= limit:
            return
        # backtrack
        while prefix and not prefix[-1][1]:
            prefix.pop()
        if len(prefix) <= len(root) and not (prefix and prefix[-1][1]):
            return
        _, alts = prefix.pop()
        prefix.append((alts[0], alts[1:]))


def random_case(rng, faults=False, uids=False):
    """`uids`: give the lockers' processes uid classes (0 = root, 1, 2); off for C27, which shares this
    generator, and when the harness is not root"""
    n = rng.choice([2, 3, 3, 3, 4])
    cfgs = []
    for i in range(n):
        r = rng.random()
        if r < 0.72:
            cfgs.append([OUR_HOST, 1, rng.random() < 0.6])
        elif r < 0.85:
            cfgs.append([OUR_HOST, 2, rng.random() < 0.6])       # another user on our machine
        elif r < 0.95:
            cfgs.append([OTHER_HOST, 1, False])
        else:
            cfgs.append([LOCALHOST, 1, False])
    progs = []
    for i in range(n):
        k = rng.choice([1, 2, 2, 3, 3, 4])
        p = []
        for _ in range(k):
            p.append(rng.choice("aaaauuucbb" if not p else "auuuacbb"))
        progs.append(p)
    crash_p = rng.choice([0.0, 0.0, 0.03, 0.08])
    fault_p = rng.choice([0.0, 0.05, 0.15]) if faults else 0.0
    # the schedule is produced blindly (ids only); starts are spread over it
    events = []
    pcs = [0] * n
    steps = rng.randrange(6, 60)
    sticky = rng.choice([0.0, 0.5, 0.8])
    cur = rng.randrange(n)
    for _ in range(steps):
        if rng.random() >= sticky:
            cur = rng.randrange(n)
        r = rng.random()
        if r < crash_p:
            events.append("x%d" % cur)
        elif r < crash_p + fault_p:
            events.append("f%d%s" % (cur, rng.choice("TP")))
        elif r < crash_p + fault_p + 0.22 and pcs[cur] < len(progs[cur]):
            events.append("s%d%s" % (cur, progs[cur][pcs[cur]]))
            pcs[cur] += 1
        else:
            events.append("t%d" % cur)
    if uids and rng.random() < 0.35:
        # same LOGNAME under different uids (su without -l, service accounts): who may signal whom now matters
        for c in cfgs:
            c.append(rng.choice([0, 0, 1, 1, 2]))
            if c[0] == OUR_HOST and rng.random() < 0.7:
                c[2] = True
    return dict(cfgs=cfgs, held="-", events=events)


def cross_uid_case(rng):
    """X (uid class cx) acquires and is alive or gets killed; contenders of other uid classes (some with the
    same LOGNAME, some stealing) attempt at various points, also while another steal is in progress; X
    confirms / unlocks.  With a live X and a contender that is neither root nor X's uid, kill(pid, 0) says
    EPERM; with root or the same uid it says Ok; with a dead X it says ESRCH."""
    n = rng.choice([3, 3, 4])
    cfgs = []
    for i in range(n):
        user = 1 if rng.random() < 0.85 else 2
        cfgs.append([OUR_HOST, user, i > 0 and rng.random() < 0.85, rng.choice([0, 1, 1, 2, 2])])
    if len({c[3] for c in cfgs}) == 1:
        cfgs[1][3] = (cfgs[0][3] + 1) % 3
    ev = ["s0a"] + ["t0"] * 4
    dead = rng.random() < 0.4
    kill_at = rng.randrange(0, 3) if dead else None
    for round_ in range(3):
        if kill_at == round_:
            ev.append("x0")
        order = list(range(1, n))
        rng.shuffle(order)
        for i in order[:rng.randrange(1, n)]:
            ev += ["s%da" % i] + ["t%d" % i] * rng.choice([6, 6, 11, 11, rng.randrange(0, 12)])
        if rng.random() < 0.5:
            ev += ["s0c", "t0"]
        if rng.random() < 0.25:
            ev += ["s0u"] + ["t0"] * 4 + ["s0a"] + ["t0"] * rng.choice([4, 6, 11])
        for i in order:
            if rng.random() < 0.3:
                ev += ["t%d" % i] * rng.randrange(1, 12)
            if rng.random() < 0.15:
                ev += ["s%du" % i] + ["t%d" % i] * 4
    return dict(cfgs=cfgs, held="-", events=ev)


F7_CASES = [
    # user break racing with unlock + re-acquisition (DESIGN §7-F7)
    dict(cfgs=[[1, 1, False]] * 4, held="-",
         events=["s0a", "t0", "t0", "t0", "t0",           # X = locker 0 holds
                 "s1b", "t1", "t1",                       # A = locker 1: break_lock peeks X, force_break peeks X
                 "s0u", "t0", "t0", "t0", "t0",           # X unlocks
                 "s2a", "t2", "t2", "t2", "t2",           # B = locker 2 acquires
                 "t1", "t1",                              # A renames B's held/ away, LockBreakMismatch
                 "s3a", "t3", "t3", "t3", "t3"]),         # C = locker 3 acquires: B and C both hold
    # only dead holders are ever broken: two stealers race on the lock of a crashed holder
    dict(cfgs=[[1, 1, True]] * 4, held="-",
         events=["s0a", "t0", "t0", "t0", "t0", "x0",     # X holds, then dies
                 "s1a", "t1", "t1", "t1", "t1", "t1",     # A: contention, steal decided, force_break peeks X
                 "s2a", "t2", "t2", "t2", "t2", "t2", "t2", "t2", "t2", "t2", "t2", "t2",   # B steals X's lock and acquires
                 "t1", "t1",                              # A renames B's held/ away
                 "s3a", "t3", "t3", "t3", "t3"]),         # C acquires
]


def break_race_case(rng):
    """X holds (alive or dead); breaker A (user break_lock or a stealing attempt) is stopped after p of its
    calls; meanwhile the lock is released / broken by somebody else and re-acquired by B; A continues; C attempts."""
    steal = rng.random() < 0.5
    dead = steal or rng.random() < 0.5
    cfgs = [[1, 1, rng.random() < 0.5] for _ in range(5)]
    cfgs[1][2] = steal
    X, A, B, C, D = 0, 1, 2, 3, 4
    ev = ["s0a"] + ["t0"] * 4
    if dead:
        ev.append("x0")
        cfgs[4][2] = True
    ev.append("s1a" if steal else "s1b")
    p = rng.randrange(0, 8)
    ev += ["t1"] * p
    if dead:
        ev += ["s4a"] + ["t4"] * rng.choice([11, 11, 11, rng.randrange(0, 12)])   # D steals X's lock and acquires
        if rng.random() < 0.7:
            ev += ["s4u"] + ["t4"] * rng.choice([4, 4, rng.randrange(0, 5)])
    else:
        ev += ["s0u"] + ["t0"] * rng.choice([4, 4, rng.randrange(0, 5)])
    if rng.random() < 0.8:
        ev += ["s2a"] + ["t2"] * rng.choice([4, 4, 6, rng.randrange(0, 7)])
    ev += ["t1"] * rng.randrange(0, 10)
    ev += ["s3a"] + ["t3"] * rng.choice([4, 6, 11])
    ev += ["t1"] * rng.randrange(0, 4) + ["t2"] * rng.randrange(0, 3)
    if rng.random() < 0.3:
        ev += ["s2c", "t2", "s3c", "t3"]
    return dict(cfgs=cfgs, held="-", events=ev)


def _interleaved(events):
    """some locker performs a step while another one is mid-operation"""
    busy = set()
    for e in events:
        if e[0] == "s":
            busy.add(int(e[1:-1]))
        elif e[0] == "t":
            i = int(e[1:])
            if busy - {i}:
                return True
    return False


def _kill0(pid):
    try:
        os.kill(pid, 0)
        return "ok"
    except ProcessLookupError:
        return "ESRCH"
    except PermissionError:
        return "EPERM"
    except OSError:
        return "other"


def _known_dead_table(ctx):
    """All combinations of crafted holder info × probed process × asking uid against the real Rust functions.
    The probed pids are real processes: this one (root), init, a reaped child, and — when the harness is root —
    live and killed processes of two unprivileged uids; the question is asked by root in-process and by
    processes that really run under those uids.  The `localhost` rule is asked in a private UTS namespace
    whose host name is `localhost`."""
    install()
    from breezy import osutils
    from breezy._cmd_rs import LockHeldInfo
    root = can_cross_uid()
    p = subprocess.Popen(["/bin/true"])
    p.wait()
    # kind -> (pid, uid class of the live process | None when there is no such process)
    procs = {"none": (None, None), "self": (os.getpid(), 0), "init": (1, 0), "dead": (p.pid, None)}
    askers = [0]
    kids = []
    if root:
        askers += [1, 2]
        for c in (1, 2):
            procs["live-uid%d" % c] = (helper(c).pid, c)
            k = helper(c).spawn()
            kids.append(k)
            procs["dead-uid%d" % c] = (k.pid, None)
        for k in kids:
            k.kill()
    else:
        ctx.extra["cross_uid"] = "skipped: the harness does not run as root, no process of another uid can be made"
        ctx.assumptions.append("cross-uid holders (kill(pid, 0) = EPERM) were NOT exercised on the real code in this "
                               "run: the harness was not root")
    cases, lines, outs = [], [], []
    me = "verifuser1"
    os.environ["LOGNAME"] = me

    def craft(host, user, pid):
        info = LockHeldInfo.for_this_process(None)
        info.hostname, info.user, info.pid = host, user, pid
        return info.to_bytes()

    def permitted(a, owner):
        return a == 0 or a == owner

    for a in askers:
        for kind, (pid, owner) in sorted(procs.items()):
            exists = owner is not None
            if pid is not None:
                # the errno of the real kill(pid, 0) and the verdict of the real is_local_pid_dead
                if a == 0:
                    k0, got = _kill0(pid), bool(osutils.is_local_pid_dead(pid))
                else:
                    k0, got = helper(a).ask(dict(op="k0", pid=pid)), helper(a).pid_dead(pid)
                case = dict(pd=[a, kind])
                if not exists and (k0 != "ESRCH" or os.path.exists("/proc/%d" % pid)):
                    # the pid of the reaped process was handed out again: an environment problem, not a verdict
                    raise env.InfraError("C26: pid %d (%s) was reused while the decision table ran" % (pid, kind))
                if got != (not exists):
                    ctx.violation(case, "is_local_pid_dead=%s asked by uid class %d for the %s process (%s)" % (
                        got, a, "live" if exists else "gone", kind))
                ctx.case(case, nontrivial=True)
                ctx.count("pid_dead:%s" % got)
                want_k0 = "ESRCH" if not exists else ("ok" if permitted(a, owner) else "EPERM")
                if k0 != want_k0:
                    raise env.InfraError("C26: the kernel's kill(%s, 0) for uid class %d gave %s, expected %s"
                                         % (kind, a, k0, want_k0))
                ctx.count("kill0:%s" % want_k0)
                cases.append(case)
                lines.append("pd %s %s" % ("T" if exists else "F", "T" if permitted(a, owner) else "F"))
                outs.append("%s %s" % (want_k0, "T" if got else "F"))
            for host in (_REAL_HOST, "elsewhere.example", "localhost"):
                for user in (me, "verifuser2", None):
                    data = craft(host, user, pid)
                    if a == 0:
                        got = bool(LockHeldInfo.from_info_file_bytes(data).is_lock_holder_known_dead())
                    else:
                        got = helper(a).known_dead(me, data)
                    bits = (host == _REAL_HOST, host == "localhost", user == me, pid is not None)
                    want = bits[0] and not bits[1] and bits[2] and bits[3] and not exists
                    case = dict(kd=[a, host == _REAL_HOST and "ours" or host, user, kind])
                    if got != want:
                        ctx.violation(case, "is_lock_holder_known_dead=%s asked by uid class %d for "
                                      "host/user/process %r" % (got, a, case["kd"][1:]))
                    ctx.case(case, nontrivial=True)
                    ctx.count("known_dead:%s" % got)
                    cases.append(case)
                    lines.append("kdp " + " ".join("T" if b else "F" for b in bits + (
                        exists, pid is not None and permitted(a, owner))))
                    outs.append("T" if got else "F")
    if root and hasattr(os, "unshare"):
        # the `localhost` rule: in this namespace the machine IS called localhost
        h = helper("uts")
        for kind in ("none", "self", "dead"):
            pid, owner = procs[kind]
            exists = owner is not None
            for host in ("localhost", _REAL_HOST):
                for user in (me, "verifuser2"):
                    got = h.known_dead(me, craft(host, user, pid))
                    bits = (host == "localhost", host == "localhost", user == me, pid is not None)
                    want = bits[0] and not bits[1] and bits[2] and bits[3] and not exists
                    case = dict(kd=["uts-localhost", host == "localhost" and "ours" or "foreign", user, kind])
                    if got != want:
                        ctx.violation(case, "is_lock_holder_known_dead=%s on a machine named localhost for %r"
                                      % (got, case["kd"][1:]))
                    ctx.case(case, nontrivial=True)
                    ctx.count("known_dead_localhost:%s" % got)
                    cases.append(case)
                    lines.append("kdp " + " ".join("T" if b else "F" for b in bits + (exists, pid is not None)))
                    outs.append("T" if got else "F")
        ctx.extra["localhost_rule"] = "exercised in a private UTS namespace named localhost"
    else:
        ctx.extra["localhost_rule"] = "not exercised (needs root + unshare); covered by T1 known_dead_guards_eq only"
    ctx.diff(cases, lines, outs)


# ---- two real processes under different uids on a lock directory on disk ----------------------------------

def _xproc_dir():
    import dromedary
    os.chmod(env.scratch(), 0o711)       # other uids may traverse (not list) the scratch directory
    base = env.fresh_dir("xuid")
    os.chmod(base, 0o777)
    return base, dromedary.get_transport_from_path(base)


_WARM = []


def _xproc_warm():
    """Run every code path the helper processes will need once in this process (as root), so that all lazily
    imported modules are loaded before a fork of this process gives up the right to read them."""
    if _WARM:
        return                            # also true in a fork of a warmed process: it has the modules
    _WARM.append(True)
    install()
    from breezy import lockdir
    from breezy._cmd_rs import LockHeldInfo
    saved = os.environ.get("LOGNAME")
    p = subprocess.Popen(["/bin/true"])
    p.wait()
    base, t = _xproc_dir()
    os.environ["LOGNAME"] = "verifuser1"
    info = LockHeldInfo.for_this_process(None)
    info.pid = p.pid
    a = lockdir.LockDir(t, LOCK)
    a.create()
    t.mkdir(LOCK + "/held")
    t.put_bytes(LOCK + "/held/info", info.to_bytes())
    a.get_config = _StealConfig
    a.attempt_lock()                      # steals from the dead holder
    b = lockdir.LockDir(t, LOCK)
    b.get_config = _StealConfig
    try:
        b.attempt_lock()
    except lockdir.errors.LockContention:
        pass
    a.peek()
    a.confirm()
    a.unlock()
    try:
        a.confirm()
    except lockdir.errors.LockNotHeld:
        pass
    if saved is None:
        os.environ.pop("LOGNAME", None)
    else:
        os.environ["LOGNAME"] = saved


def xproc_run(scs):
    """Real processes on lock directories on disk.  sc = [holder uid class, holder LOGNAME no, dead?,
    contender uid class, contender LOGNAME no, steal?].  Holders of one uid class are ONE long-lived process
    of that uid (holding one lock per scenario) — or, for `dead`, one process that takes its locks and is then
    killed and reaped; contenders are a second process per uid class.  Returns [(impl output, oracle failures)]."""
    _xproc_warm()
    dirs = [_xproc_dir()[0] for _ in scs]
    me = os.getuid()
    for h in sorted({sc[0] for sc in scs}):
        doomed = None
        for d, sc in zip(dirs, scs):
            if sc[0] != h:
                continue
            if sc[2]:
                if doomed is None:
                    doomed = UidHelper(uid=UIDS[h] if h else None)
                who = doomed
            else:
                who = helper(h) if h else helper(("c", 0))
            msg = who.ask(dict(op="hold", dir=d, logname="verifuser%d" % sc[1]))
            if msg[0] != "HELD" or msg[1] != who.pid or msg[2] != (UIDS[h] if h else me) or msg[3] != who.pid:
                raise env.InfraError("C26: holder process of scenario %r: %r" % (sc, msg))
        if doomed is not None:
            os.kill(doomed.pid, signal.SIGKILL)
            doomed.close()                # reaps: no process with that pid is left
    results = []
    for d, sc in zip(dirs, scs):
        h, hu, dead, c, cu, steal = sc
        # a process different from the holder's, also when both have the same uid
        cont = helper(("c", c)) if (c == 0 and h != 0) or (c and c == h) else (helper(c) if c else helper(("c2", 0)))
        res = cont.ask(dict(op="try", dir=d, logname="verifuser%d" % cu, steal=steal))
        if res[3] != (UIDS[c] if c else me):
            raise env.InfraError("C26: contender process of scenario %r: %r" % (sc, res))
        if "Permission" in res[0]:
            raise env.InfraError("C26: file permissions of the scratch lock directory: %r" % (res,))
        conf = None
        if not dead:
            conf = (helper(h) if h else helper(("c", 0))).ask(dict(op="confirm", dir=d))
        fails = []
        acquired = res[1]
        if acquired and not dead:
            fails.append(
                "a live process (uid class %d) holds the lock; a second process (uid class %d, LOGNAME %s, "
                "locks.steal_dead=%s) for which kill(holder pid, 0) says %s acquired it too: two live holders "
                "(holder's confirm: %s, still is_held=%s)" % (
                    h, c, "the same" if hu == cu else "different", steal,
                    "Ok" if c in (0, h) else "EPERM", conf[0], conf[1]))
        elif acquired and not (hu == cu and steal):
            fails.append("the lock of a dead holder was stolen although %s" % (
                "the recorded user is not ours" if hu != cu else "locks.steal_dead is off"))
        elif acquired and not res[2]:
            fails.append("the contender has is_held but held/info is not its own")
        results.append(("%s %s %s" % (res[0], "T" if acquired else "F", conf[0] if conf else "-"), fails))
    return results


def xproc_line(sc):
    h, hu, dead, c, cu, steal = sc
    return "xuid %s %s %s" % (_cfg_str([OUR_HOST, hu, False, h]), _cfg_str([OUR_HOST, cu, steal, c]),
                              "T" if dead else "F")


def _cross_process(ctx):
    """exhaustive: holder uid class × alive/killed × contender uid class × same/other LOGNAME × steal on/off"""
    if not can_cross_uid():
        return
    install()
    cases, lines, outs = [], [], []
    scs = [[h, 1, dead, c, 1 if same else 2, steal]
           for h, dead, c, same, steal in itertools.product((0, 1, 2), (False, True), (0, 1, 2), (True, False),
                                                            (True, False))]
    for sc, (out, fails) in zip(scs, xproc_run(scs)):
        h, _, dead, c, _, steal = sc
        case = dict(xuid=sc)
        for f in fails:
            ctx.violation(case, f)
        ctx.case(case, nontrivial=True)
        ctx.count("xproc:%s" % out.split(" ")[0])
        ctx.count("xproc-kill0:%s" % ("ESRCH" if dead else ("ok" if c in (0, h) else "EPERM")))
        cases.append(case)
        lines.append(xproc_line(sc))
        outs.append(out)
    ctx.diff(cases, lines, outs)
    ctx.extra["cross_uid"] = ("real processes under uids %r: %d two-process scenarios on a lock directory on disk, "
                              "the decision table asked by each uid, and uid classes in the scheduled runs"
                              % (sorted(UIDS.values()), len(cases)))


def _record(ctx, case, obs, oracle, cases, lines, outs):
    for what, fam in oracle[:3]:
        ctx.violation(case, what, family=fam)
    ctx.case(case, nontrivial=_interleaved(case["events"]))
    ctx.count("lockers:%d" % len(case["cfgs"]))
    if any(len(c) > 3 and c[3] for c in case["cfgs"]):
        ctx.count("uids:%d" % len({c[3] for c in case["cfgs"]}))
    for e in case["events"]:
        ctx.count("ev:" + (e[0] + e[-1] if e[0] in "sf" else e[0]))
    for o in obs[-1].split(" ")[2:]:
        ctx.count("last:" + o.split("/")[3])
    cases.append(case)
    lines.append(model_line(case))
    outs.append("|".join(obs))


def _explore_job(job):
    cfgs, progs, root = job
    return list(explore(cfgs, progs, root=root))


def _case_job(case):
    obs, oracle = run_case(case)
    return case, obs, oracle


def _case_jobs(cases):
    """one chunk of cases in a pool worker (its uid helper processes live as long as the worker)"""
    return [_case_job(c) for c in cases]




def run(ctx):
    install()
    cases, lines, outs = [], [], []
    corpus = os.path.join(env.VERIF, "corpus", "C26")
    if os.path.isdir(corpus):
        for fn in sorted(os.listdir(corpus)):
            case = json.load(open(os.path.join(corpus, fn)))
            if any(len(c) > 3 and c[3] for c in case["cfgs"]) and not can_cross_uid():
                ctx.count("corpus-skipped-not-root")
                continue
            obs, oracle = run_case(case)
            _record(ctx, case, obs, oracle, cases, lines, outs)
    _known_dead_table(ctx)
    _cross_process(ctx)
    for case in F7_CASES:
        obs, oracle = run_case(case)
        _record(ctx, case, obs, oracle, cases, lines, outs)
        ctx.count("directed:F7")
    # exhaustive: every interleaving of two lockers
    plain = [[1, 1, False], [1, 1, False]]
    suites = [(plain, [["a", "u"], ["a"]]), (plain, [["a"], ["a"]]), (plain, [["a", "c"], ["a", "c"]])]
    if ctx.thorough():
        suites.append((plain, [["a", "u"], ["a", "u"]]))
    jobs = [(cfgs, progs, root) for cfgs, progs in suites for root in itertools.product((0, 1), repeat=3)]
    total = 0
    for res in ctx.pmap(_explore_job, jobs, chunksize=1):
        for case, obs, oracle in res:
            _record(ctx, case, obs, oracle, cases, lines, outs)
            total += 1
    ctx.extra["exhaustive_interleavings"] = total
    # sampled
    rnd = [break_race_case(ctx.rng) for _ in range(ctx.pick(400, 6000))]
    ctx.count("directed:break-race", len(rnd))
    uids = can_cross_uid()
    if uids:
        xs = [cross_uid_case(ctx.rng) for _ in range(ctx.pick(200, 4000))]
        ctx.count("directed:cross-uid", len(xs))
        rnd += xs
    for _ in range(ctx.pick(1800, 40000)):
        case = random_case(ctx.rng, uids=uids)
        if ctx.thorough() and ctx.rng.random() < 0.1:
            case["local"] = True
        rnd.append(case)
    nchunks = max(1, min(len(rnd) // 25, 64))
    chunks = [rnd[i::nchunks] for i in range(nchunks)]
    for res in ctx.pmap(_case_jobs, chunks, chunksize=1):
        for case, obs, oracle in res:
            _record(ctx, case, obs, oracle, cases, lines, outs)
    ctx.diff(cases, lines, outs)
    close_helpers()
    ctx.exhaustive = True
    # report violations outside the known F7 family first
    ctx.violations.sort(key=lambda v: v["family"] is not None)


def replay(ctx, case):
    install()
    if "kd" in case or "pd" in case:
        _known_dead_table(ctx)
        close_helpers()
        return dict(case=case, oracle_failures=[v["what"] for v in ctx.violations if v["case"] == case]
                    or [v["what"] for v in ctx.violations])
    if "xuid" in case:
        (out, fails), = xproc_run([case["xuid"]])
        close_helpers()
        for f in fails:
            ctx.violation(case, f)
        return dict(case=case, impl=out, model=ctx.model([xproc_line(case["xuid"])])[0], oracle_failures=fails)
    obs, oracle = run_case(case)
    for what, fam in oracle:
        ctx.violation(case, what, family=fam)
    m = ctx.model([model_line(case)])[0].split("|")
    first = next((i for i, (a, b) in enumerate(itertools.zip_longest(obs, m)) if a != b), None)
    return dict(case=case, impl=obs, model=m, first_difference=first,
                oracle_failures=[w for w, _ in oracle])
