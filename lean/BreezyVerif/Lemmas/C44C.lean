import BreezyVerif.Model.C44
/-
C44 — helper lemmas, part 3: the zone field and the tag table.
-/
namespace BreezyVerif.C44

theorem zone_roundtrip_aux (off : Int) (h : off % 60 = 0) : parseZone (formatZone off) = off := by
  unfold parseZone formatZone
  simp only
  by_cases hneg : off < 0
  · simp only [hneg, decide_true, if_true]
    have ha : (off.natAbs : Int) = -off := by omega
    have hm : off.natAbs % 60 = 0 := by omega
    have h1 : off.natAbs / 60 - off.natAbs / 3600 * 60 = (off.natAbs / 60) % 60 := by omega
    rw [h1]
    have : (60 * (60 * ((off.natAbs / 3600 : Nat) : Int) + (((off.natAbs / 60) % 60 : Nat) : Int))) = (off.natAbs : Int) := by
      omega
    rw [this, ha]; omega
  · simp only [hneg, decide_false, Bool.false_eq_true, if_false]
    have ha : (off.natAbs : Int) = off := by omega
    have hm : off.natAbs % 60 = 0 := by omega
    have h1 : off.natAbs / 60 - off.natAbs / 3600 * 60 = (off.natAbs / 60) % 60 := by omega
    rw [h1]
    have : (60 * (60 * ((off.natAbs / 3600 : Nat) : Int) + (((off.natAbs / 60) % 60 : Nat) : Int))) = (off.natAbs : Int) := by
      omega
    rw [this, ha]; omega

/-! ### tags -/

theorem tagLookup_setTag (m : List (Bytes × Nat)) (n : Bytes) (p : Nat) (x : Bytes) :
    tagLookup (setTag m n p) x = if x = n then some p else tagLookup m x := by
  unfold tagLookup setTag
  by_cases h : x = n
  · subst h; simp [List.find?]
  · have : (n == x) = false := by simp [Ne.symm h]
    simp only [List.find?, this, h, if_false]
    congr 1
    rw [List.find?_filter]
    congr 1
    funext a
    by_cases ha : a.1 = x
    · simp [ha, h]
    · simp [ha]

theorem importTags_export (plain : Bool) (n : Nat) (tags : List Tag) (hp : ∀ t ∈ tags, t.pos ≤ n) :
    importTags n (exportTags plain tags) =
      (tags.filter fun t => t.pos != 0 && (!plain || validRef (refsTags ++ t.name))).foldl
        (fun m t => setTag m t.name t.pos) [] := by
  unfold importTags exportTags
  rw [List.foldl_map]
  generalize ([] : List (Bytes × Nat)) = m0
  have hk : ∀ t ∈ tags.filter (fun t => t.pos != 0 && (!plain || validRef (refsTags ++ t.name))), t.pos ≠ 0 ∧ t.pos ≤ n := by
    intro t ht
    obtain ⟨h1, h2⟩ := List.mem_filter.mp ht
    simp only [Bool.and_eq_true, bne_iff_ne, ne_eq] at h2
    exact ⟨h2.1, hp t h1⟩
  generalize tags.filter (fun t => t.pos != 0 && (!plain || validRef (refsTags ++ t.name))) = kept at hk
  induction kept generalizing m0 with
  | nil => rfl
  | cons t kept ih =>
    simp only [List.foldl_cons]
    have h1 := hk t List.mem_cons_self
    have hpre : refsTags.isPrefixOf (refsTags ++ t.name) = true := by
      rw [List.isPrefixOf_iff_prefix]; exact List.prefix_append _ _
    have hdrop : (refsTags ++ t.name).drop refsTags.length = t.name := by simp
    have hne : (t.pos != 0) = true := by simp [h1.1]
    simp only [hpre, hne, h1.2, decide_true, Bool.and_self, if_true, hdrop]
    exact ih _ (fun t' ht' => hk t' (List.mem_cons_of_mem _ ht'))

theorem tagLookup_foldl (kept : List Tag) (hn : (kept.map (·.name)).Nodup) (m : List (Bytes × Nat)) (x : Bytes) :
    tagLookup (kept.foldl (fun m t => setTag m t.name t.pos) m) x =
      match kept.find? (fun t => t.name == x) with
      | some t => some t.pos
      | none => tagLookup m x := by
  induction kept generalizing m with
  | nil => rfl
  | cons t kept ih =>
    simp only [List.map_cons, List.nodup_cons] at hn
    simp only [List.foldl_cons]
    rw [ih hn.2]
    by_cases h : t.name = x
    · subst h
      have : kept.find? (fun t' => t'.name == t.name) = none := by
        rw [List.find?_eq_none]
        intro t' ht' hc
        simp only [beq_iff_eq] at hc
        exact hn.1 (List.mem_map.mpr ⟨t', ht', hc⟩)
      simp [this, List.find?, tagLookup_setTag]
    · have hb : (t.name == x) = false := by simp [h]
      simp only [List.find?, hb]
      cases kept.find? (fun t => t.name == x) with
      | some t' => rfl
      | none => simp [tagLookup_setTag, Ne.symm h]

end BreezyVerif.C44
