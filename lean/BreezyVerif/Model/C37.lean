/-
C37 — conditional git ref updates.  Executable model of
`breezy/git/transportgit.py: TransportRefsContainer.set_if_equals`,
`remove_if_equals`, `add_if_new` together with the `RefsContainer` methods they
rest on (`read_ref`, `follow`).

A ref store is the set of loose ref files (each holding a SHA or a symbolic
reference `ref: <name>`) plus the `packed-refs` table.  Ref names and SHAs are
naturals (the harness maps them to real names / 40-digit SHAs; SHA `0` is
`ZERO_SHA`, which is what an absent ref compares equal to).

`setIfEquals` / `removeIfEquals` are the compare-and-swap behaviour the
theorems are about (the one of dulwich's own `DiskRefsContainer`);
`setIfEqualsLegacy` / `removeIfEqualsLegacy` are literal models of the code as
found at commit 0e9787b (candidate finding F2: the expected old value is
ignored; and `remove` leaves a packed entry alone while the packed-refs cache
has not been loaded).  `Step`/`runSched` model two updaters whose read and write
phases interleave (no lock is taken by the real code).
-/
namespace BreezyVerif.C37

inductive Val where
  | sha (x : Nat)
  | sym (target : Nat)
  deriving DecidableEq, Repr

structure Store where
  loose : List (Nat × Val)
  packed : List (Nat × Nat)
  deriving DecidableEq, Repr

def lookup {β : Type} (l : List (Nat × β)) (k : Nat) : Option β :=
  match l with
  | [] => none
  | (k', v) :: rest => if k' = k then some v else lookup rest k

def insert {β : Type} (l : List (Nat × β)) (k : Nat) (v : β) : List (Nat × β) :=
  match l with
  | [] => [(k, v)]
  | (k', v') :: rest => if k' = k then (k, v) :: rest else (k', v') :: insert rest k v

def erase {β : Type} (l : List (Nat × β)) (k : Nat) : List (Nat × β) :=
  match l with
  | [] => []
  | (k', v') :: rest => if k' = k then erase rest k else (k', v') :: erase rest k

/-- `read_ref`: the loose file if there is one, else the packed entry -/
def readRef (s : Store) (n : Nat) : Option Val :=
  match lookup s.loose n with
  | some v => some v
  | none => (lookup s.packed n).map Val.sha

/-- `RefsContainer.follow`: the chain of names and the SHA at its end (`none` =
the last name does not exist).  `fuel` is the number of non-empty reads still
allowed (`depth > 5` raises `SymrefLoop`, also when the sixth read is a SHA). -/
def followAux (s : Store) : Nat → Nat → List Nat → Option (List Nat × Option Nat)
  | fuel, name, acc =>
    match readRef s name with
    | none => some (acc ++ [name], none)
    | some v =>
      match fuel with
      | 0 => none
      | fuel' + 1 =>
        match v with
        | .sha x => some (acc ++ [name], some x)
        | .sym t => followAux s fuel' t (acc ++ [name])

/-- `none` = `SymrefLoop` -/
def follow (s : Store) (n : Nat) : Option (List Nat × Option Nat) := followAux s 5 n []

/-- `refs[name]` (`__getitem__`): the SHA after following symbolic refs -/
def resolve (s : Store) (n : Nat) : Option Nat :=
  match follow s n with
  | some (_, r) => r
  | none => none

/-- the ref file `set_if_equals` writes: the last name of the chain, or `name`
itself when following fails -/
def realName (s : Store) (n : Nat) : Nat :=
  match follow s n with
  | some (names, _) => (match names.getLast? with | some r => r | none => n)
  | none => n

/-- the value a ref is compared with: loose file, else packed entry, else `ZERO_SHA` -/
def current (s : Store) (r : Nat) : Val :=
  match lookup s.loose r with
  | some v => v
  | none => match lookup s.packed r with
    | some x => .sha x
    | none => .sha 0

def write (s : Store) (r : Nat) (new : Nat) : Store :=
  { s with loose := insert s.loose r (.sha new) }

def del (s : Store) (n : Nat) : Store :=
  { loose := erase s.loose n, packed := erase s.packed n }

/-- `set_if_equals(name, old, new)`: result flag and store afterwards -/
def setIfEquals (s : Store) (n : Nat) (old : Option Nat) (new : Nat) : Bool × Store :=
  let r := realName s n
  match old with
  | some o => if current s r = .sha o then (true, write s r new) else (false, s)
  | none => (true, write s r new)

/-- `remove_if_equals(name, old)` (does not follow symbolic refs) -/
def removeIfEquals (s : Store) (n : Nat) (old : Option Nat) : Bool × Store :=
  match old with
  | some o => if current s n = .sha o then (true, del s n) else (false, s)
  | none => (true, del s n)

/-- `add_if_new(name, ref)`; `none` = `SymrefLoop` propagates -/
def addIfNew (s : Store) (n : Nat) (v : Nat) : Option (Bool × Store) :=
  match follow s n with
  | none => none
  | some (names, contents) =>
    match contents with
    | some _ => some (false, s)
    | none =>
      let r := match names.getLast? with | some r => r | none => n
      some (true, write s r v)

/-- as found (F2): the expected value is not looked at -/
def setIfEqualsLegacy (s : Store) (n : Nat) (_old : Option Nat) (new : Nat) : Bool × Store :=
  (true, write s (realName s n) new)

/-- as found (F2 + cache): `old` ignored; the packed entry is only removed when
the packed-refs cache of the container has been loaded -/
def removeIfEqualsLegacy (cacheLoaded : Bool) (s : Store) (n : Nat) (_old : Option Nat) : Bool × Store :=
  (true, if cacheLoaded then del s n else { s with loose := erase s.loose n })

/-! ### two updaters without a lock

An updater (`set_if_equals(n, some o, new)`, `add_if_new(n, new)` or
`remove_if_equals(n, some o)`) runs in two phases, as the code does: the read
phase reads the current value (following symbolic refs for set/add) and
decides; the write phase mutates the transport (one loose-file write, or the
deletion of the loose file followed by the rewrite of packed-refs from the file
as it is then).  A schedule interleaves the phases of the updaters. -/

inductive UKind where
  | set
  | add
  | rm
  deriving DecidableEq, Repr

structure Upd where
  kind : UKind
  name : Nat
  old : Nat
  new : Nat
  deriving DecidableEq, Repr

/-- per-updater state: not started / decided to write to a real name / decided
to delete / finished with a result / `SymrefLoop` raised (add_if_new only) -/
inductive Phase where
  | idle
  | willWrite (r : Nat)
  | willDel (n : Nat)
  | done (ok : Bool)
  | raised
  deriving DecidableEq, Repr

/-- the read phase of an updater on store `s`: the decision taken -/
def readPhase (s : Store) (u : Upd) : Phase :=
  match u.kind with
  | .set =>
    let r := realName s u.name
    if current s r = .sha u.old then .willWrite r else .done false
  | .add =>
    match follow s u.name with
    | none => .raised
    | some (names, contents) =>
      match contents with
      | some _ => .done false
      | none => .willWrite (match names.getLast? with | some r => r | none => u.name)
  | .rm => if current s u.name = .sha u.old then .willDel u.name else .done false

/-- one scheduling step of updater `u` -/
def stepUpd (s : Store) (u : Upd) (p : Phase) : Store × Phase :=
  match p with
  | .idle => (s, readPhase s u)
  | .willWrite r => (write s r u.new, .done true)
  | .willDel n => (del s n, .done true)
  | .done b => (s, .done b)
  | .raised => (s, .raised)

/-- run a schedule (`false` = updater A moves, `true` = updater B moves) -/
def runSched (a b : Upd) : List Bool → Store × Phase × Phase → Store × Phase × Phase
  | [], st => st
  | false :: rest, (s, pa, pb) => let r := stepUpd s a pa; runSched a b rest (r.1, r.2, pb)
  | true :: rest, (s, pa, pb) => let r := stepUpd s b pb; runSched a b rest (r.1, pa, r.2)

/-- the updater executed atomically: the compare-and-swap specification -/
def specUpd (s : Store) (u : Upd) : Store × Phase :=
  match u.kind with
  | .set => let r := setIfEquals s u.name (some u.old) u.new; (r.2, .done r.1)
  | .add =>
    match addIfNew s u.name u.new with
    | none => (s, .raised)
    | some r => (r.2, .done r.1)
  | .rm => let r := removeIfEquals s u.name (some u.old); (r.2, .done r.1)

def Phase.finished : Phase → Bool
  | .done _ => true
  | .raised => true
  | _ => false

def Phase.pending : Phase → Bool
  | .willWrite _ => true
  | .willDel _ => true
  | _ => false

/-! ### containers with a packed-refs cache

A `TransportRefsContainer` reads loose refs from the transport on every call but
reads `packed-refs` once (`get_packed_refs` keeps `_packed_refs`; "TODO:
invalidate the cache on repacking").  `Cache = none` is a container that has not
loaded packed-refs yet.  `stepC` is the literal behaviour of one operation of a
container with cache `c` on the transport state `s`: result, transport
afterwards, cache afterwards. -/

abbrev Cache := Option (List (Nat × Nat))

/-- what a container with cache `c` sees -/
def view (c : Cache) (s : Store) : Store :=
  match c with
  | none => s
  | some p => { loose := s.loose, packed := p }

def coherent (c : Cache) (s : Store) : Bool :=
  match c with
  | none => true
  | some p => p == s.packed

/-- does `follow` (as far as it gets) call `get_packed_refs`: some name it reads has no loose file -/
def followLoads (v : Store) : Nat → Nat → Bool
  | fuel, name =>
    match lookup v.loose name with
    | none => true
    | some (.sha _) => false
    | some (.sym t) =>
      match fuel with
      | 0 => false
      | fuel' + 1 => followLoads v fuel' t

inductive Op where
  | set (n : Nat) (old : Option Nat) (new : Nat)
  | rm (n : Nat) (old : Option Nat)
  | add (n v : Nat)
  /-- `git pack-refs` of one ref by an outside process: the loose SHA moves into packed-refs -/
  | pack (n : Nat)
  deriving DecidableEq, Repr

inductive Res where
  | ok (b : Bool)
  | loop
  deriving DecidableEq, Repr

def packRef (s : Store) (n : Nat) : Bool × Store :=
  match lookup s.loose n with
  | some (.sha x) => (true, { loose := erase s.loose n, packed := insert s.packed n x })
  | _ => (false, s)

/-- one operation of a container whose packed-refs cache is `c` -/
def stepC (c : Cache) (s : Store) : Op → Res × Store × Cache
  | .set n old new =>
    let v := view c s
    let r := realName v n
    let c' := if followLoads v 5 n then some v.packed else c
    match old with
    | some o => if current v r = .sha o then (.ok true, write s r new, c') else (.ok false, s, c')
    | none => (.ok true, write s r new, c')
  | .rm n old =>
    let v := view c s
    let c1 := if old.isSome && (lookup s.loose n).isNone then some v.packed else c
    let go : Res × Store × Cache := (.ok true, del s n, some (erase s.packed n))
    match old with
    | some o => if current v n = .sha o then go else (.ok false, s, c1)
    | none => go
  | .add n x =>
    let v := view c s
    let c' := if followLoads v 5 n then some v.packed else c
    match follow v n with
    | none => (.loop, s, c')
    | some (names, contents) =>
      match contents with
      | some _ => (.ok false, s, c')
      | none => (.ok true, write s (match names.getLast? with | some r => r | none => n) x, c')
  | .pack n => (.ok (packRef s n).1, (packRef s n).2, c)

/-- the same operation with the cache dropped first (what the code does once
every conditional update re-reads packed-refs) -/
def stepF (c : Cache) (s : Store) (op : Op) : Res × Store × Cache :=
  match op with
  | .pack _ => stepC c s op
  | _ => stepC none s op

/-- the compare-and-swap specification of one operation on the transport state -/
def specStep (s : Store) : Op → Res × Store
  | .set n old new => let r := setIfEquals s n old new; (.ok r.1, r.2)
  | .rm n old => let r := removeIfEquals s n old; (.ok r.1, r.2)
  | .add n x =>
    match addIfNew s n x with
    | none => (.loop, s)
    | some r => (.ok r.1, r.2)
  | .pack n => (.ok (packRef s n).1, (packRef s n).2)

/-- two containers A (`false`) and B (`true`) on one transport, operated one
after the other in any order (`pack` is done by an outside process) -/
def runCC (step : Cache → Store → Op → Res × Store × Cache) :
    List (Bool × Op) → Store × Cache × Cache → List Res × (Store × Cache × Cache)
  | [], st => ([], st)
  | (who, op) :: rest, (s, ca, cb) =>
    let r := step (if who then cb else ca) s op
    let st' : Store × Cache × Cache :=
      match op with
      | .pack _ => (r.2.1, ca, cb)
      | _ => if who then (r.2.1, ca, r.2.2) else (r.2.1, r.2.2, cb)
    let q := runCC step rest st'
    (r.1 :: q.1, q.2)

def runSpec : List Op → Store → List Res × Store
  | [], s => ([], s)
  | op :: rest, s =>
    let r := specStep s op
    let q := runSpec rest r.2
    (r.1 :: q.1, q.2)

/-- along the run, is the cache of the acting container coherent with the transport before each of its operations? -/
def cohRun : List (Bool × Op) → Store × Cache × Cache → Bool
  | [], _ => true
  | (who, op) :: rest, (s, ca, cb) =>
    let r := stepC (if who then cb else ca) s op
    let st' : Store × Cache × Cache :=
      match op with
      | .pack _ => (r.2.1, ca, cb)
      | _ => if who then (r.2.1, ca, r.2.2) else (r.2.1, r.2.2, cb)
    (match op with
     | .pack _ => true
     | _ => coherent (if who then cb else ca) s) && cohRun rest st'

end BreezyVerif.C37
