import BreezyVerif.Model.C10
/-!
C10 — helper lemmas: association-list lookups, true records, applying records.
-/
namespace BreezyVerif.C10

theorem get_erase (t : Tree) (i j : Id) : get (erase t i) j = if i = j then none else get t j := by
  induction t with
  | nil => simp [erase, get]
  | cons x rest ih =>
    obtain ⟨k, e⟩ := x
    by_cases hki : k = i
    · subst hki
      by_cases hkj : k = j
      · subst hkj; simp [erase, ih]
      · simp [erase, get, ih, hkj]
    · by_cases hij : i = j
      · subst hij; simp [erase, get, hki, ih]
      · simp [erase, get, hki, ih, hij]

theorem get_set (t : Tree) (i j : Id) (e : Entry) :
    get (set t i e) j = if i = j then some e else get t j := by
  unfold set
  by_cases hij : i = j
  · simp [get, hij]
  · simp [get, hij, get_erase]

theorem get_none_of_not_mem {t : Tree} {i : Id} (h : i ∉ ids t) : get t i = none := by
  induction t with
  | nil => rfl
  | cons x rest ih =>
    obtain ⟨k, e⟩ := x
    simp only [ids, List.map_cons, List.mem_cons, not_or] at h
    have hk : ¬ k = i := fun hh => h.1 hh.symm
    simp only [get, hk, if_false]
    exact ih (by simpa [ids] using h.2)

theorem mem_ids_of_get {t : Tree} {i : Id} {e : Entry} (h : get t i = some e) : i ∈ ids t := by
  by_cases hm : i ∈ ids t
  · exact hm
  · rw [get_none_of_not_mem hm] at h; cases h

theorem get_isSome_of_mem {t : Tree} {i : Id} (h : i ∈ ids t) : (get t i).isSome = true := by
  induction t with
  | nil => simp [ids] at h
  | cons x rest ih =>
    obtain ⟨k, e⟩ := x
    by_cases hk : k = i
    · simp [get, hk]
    · simp only [get, hk, if_false]
      apply ih
      simp only [ids, List.map_cons, List.mem_cons] at h
      rcases h with h | h
      · exact absurd h.symm hk
      · simpa [ids] using h

theorem mem_allIds {src tgt : Tree} {i : Id} : i ∈ allIds src tgt ↔ i ∈ ids tgt ∨ i ∈ ids src := by
  unfold allIds
  simp only [List.mem_append, List.mem_filter, Bool.not_eq_eq_eq_not, Bool.not_true,
    List.contains_eq_mem, decide_eq_false_iff_not]
  constructor
  · rintro (h | h)
    · exact Or.inl h
    · exact Or.inr h.1
  · rintro (h | h)
    · exact Or.inl h
    · by_cases ht : i ∈ ids tgt
      · exact Or.inl ht
      · exact Or.inr ⟨h, ht⟩

/-- the record of an id carries that id -/
theorem change_id {src tgt : Tree} {i : Id} {c : Change} (h : change src tgt i = some c) : c.id = i := by
  unfold change at h
  split at h <;> simp at h <;> (subst h; rfl)

theorem change_mem_allIds {src tgt : Tree} {i : Id} {c : Change} (h : change src tgt i = some c) :
    i ∈ allIds src tgt := by
  rw [mem_allIds]
  unfold change at h
  split at h
  · cases h
  · rename_i s hs _; exact Or.inr (mem_ids_of_get hs)
  · rename_i t _ ht; exact Or.inl (mem_ids_of_get ht)
  · rename_i s t hs ht; exact Or.inl (mem_ids_of_get ht)

theorem change_none_iff {src tgt : Tree} {i : Id} :
    change src tgt i = none ↔ get src i = none ∧ get tgt i = none := by
  unfold change
  split <;> simp_all

theorem node_eq_of_unchanged {a b : Node} (h : contentChanged a b = false) :
    a.withExec b.exec = b := by
  cases a <;> cases b <;> simp_all [contentChanged, Node.withExec, Node.exec]

/-- **an unchanged record is a true no-op** -/
theorem unchanged_noop' {src tgt : Tree} {i : Id} {c : Change} (h : change src tgt i = some c)
    (hc : c.isChanged = false) : get src i = get tgt i := by
  unfold change at h
  split at h
  · cases h
  · simp at h; subst h; simp [Change.isChanged] at hc
  · simp at h; subst h; simp [Change.isChanged] at hc
  · rename_i s t hs ht
    simp at h; subst h
    simp only [Change.isChanged, Option.isSome_some, bne_self_eq_false, Bool.or_false, Option.map_some,
      Bool.or_eq_false_iff, bne_eq_false_iff_eq, Option.some.injEq, Entry.meta] at hc
    obtain ⟨⟨⟨hcc, hp⟩, hn⟩, hx⟩ := hc
    rw [hs, ht]
    have := node_eq_of_unchanged hcc
    obtain ⟨sp, sn, snode⟩ := s
    obtain ⟨tp, tn, tnode⟩ := t
    simp only at hp hn hx this
    subst hp; subst hn
    congr 2
    cases snode <;> cases tnode <;> simp_all [contentChanged, Node.withExec, Node.exec]

/-- applying the true record of `j` makes `j` look like the target and leaves
every other id alone -/
theorem applyOne_true {src tgt : Tree} (t : Tree) {j : Id} {c : Change}
    (h : change src tgt j = some c) :
    ∃ t1, applyOne src tgt t c = some t1 ∧ ∀ i, get t1 i = if j = i then get tgt j else get t i := by
  have hid := change_id h
  unfold change at h
  split at h
  · cases h
  · rename_i s hs ht
    simp at h; subst h
    refine ⟨erase t j, by simp [applyOne], ?_⟩
    intro i; rw [get_erase, ht]
  · rename_i te hs ht
    simp at h; subst h
    refine ⟨set t j ⟨te.parent, te.name, te.node⟩, by simp [applyOne, ht, Entry.meta], ?_⟩
    intro i; rw [get_set, ht]
  · rename_i s te hs ht
    simp at h; subst h
    by_cases hcc : contentChanged s.node te.node = true
    · refine ⟨set t j ⟨te.parent, te.name, te.node⟩, by simp [applyOne, ht, hcc, Entry.meta], ?_⟩
      intro i; rw [get_set, ht]
    · have hcc' : contentChanged s.node te.node = false := by simpa using hcc
      refine ⟨set t j ⟨te.parent, te.name, s.node.withExec te.node.exec⟩,
        by simp [applyOne, hs, hcc', Entry.meta], ?_⟩
      intro i; rw [get_set, ht, node_eq_of_unchanged hcc']

/-- applying a list of true records -/
theorem applyList_true {src tgt : Tree} (cs : List Change)
    (hcs : ∀ c ∈ cs, change src tgt c.id = some c) (t : Tree) :
    ∃ t', applyList src tgt t cs = some t' ∧
      ∀ i, get t' i = if cs.any (fun c => c.id == i) then get tgt i else get t i := by
  induction cs generalizing t with
  | nil => exact ⟨t, rfl, by simp⟩
  | cons c rest ih =>
    obtain ⟨t1, h1, g1⟩ := applyOne_true (src := src) (tgt := tgt) t (hcs c (by simp))
    obtain ⟨t', h2, g2⟩ := ih (fun c' hc' => hcs c' (by simp [hc'])) t1
    refine ⟨t', by simp [applyList, h1, h2], ?_⟩
    intro i
    rw [g2 i, g1 i]
    by_cases hr : rest.any (fun c => c.id == i) = true
    · simp [hr]
    · by_cases hci : c.id = i
      · subst hci; simp
      · simp [hr, hci]

/-- a changed true record is in the unfiltered result -/
theorem mem_changesOf {src tgt : Tree} {i : Id} {c : Change} (h : change src tgt i = some c)
    (hc : c.isChanged = true) : c ∈ changesOf src tgt := by
  unfold changesOf allRecords
  rw [List.mem_filter]
  refine ⟨?_, hc⟩
  rw [List.mem_filterMap]
  exact ⟨i, change_mem_allIds h, h⟩

theorem changesOf_true {src tgt : Tree} {c : Change} (h : c ∈ changesOf src tgt) :
    change src tgt c.id = some c ∧ c.isChanged = true := by
  unfold changesOf allRecords at h
  rw [List.mem_filter, List.mem_filterMap] at h
  obtain ⟨⟨i, _, hi⟩, hc⟩ := h
  rw [change_id hi]; exact ⟨hi, hc⟩

/-- a record of an id that is gone from the target always counts as a change -/
theorem removed_isChanged {src tgt : Tree} {i : Id} {c : Change} (h : change src tgt i = some c)
    (ht : get tgt i = none) : c.isChanged = true := by
  unfold change at h
  split at h <;> simp_all
  all_goals (subst h; simp [Change.isChanged])

end BreezyVerif.C10
