import BreezyVerif.Common
import BreezyVerif.Model.C41
/-!
C41 driver.  Strings travel as `x` + lowercase hex of their UTF-8 bytes (`x`
alone is the empty string); lists are comma-separated (`-` = empty list);
sub-records use `:`.

* `text V rid committer tsMs tz parents message entries props`
  V = 1|2|3, tz = integer or `~`, entry = `kind:path:fileid:sha1:target:revision:T|F`
  (kind f|d|l|t), prop = `name:value`  →  `ok x<hex of text>` | `E:Value` | `E:Assert`
* `short V digest rid committer tsMs tz parents message entries props` → `as_short_text()` with
  `sha := fun _ => digest` (the harness passes the SHA-1 hex digest of the real `as_text()`;
  the text itself is tied by `text`)  →  `ok x<hex>` | `E:Value` | `E:Assert`
* `lines s` → the `splitlines` list
* `join lines` → `"\n".join(lines)`;  `canon s` → `T`/`F` (`msgCanon`)
* `esc V s` → `_escape_path`
* `order paths` → paths in `list_files` order
-/
namespace BreezyVerif.C41

def decStr (s : String) : Option Str :=
  match s.toList with
  | 'x' :: rest =>
    match fromHexChars rest with
    | some b => (String.fromUTF8? (ByteArray.mk b.toArray)).map String.toList
    | none => none
  | _ => none

def hexOfBytes (b : Bytes) : String :=
  String.ofList (b.flatMap fun x => [hexDigit (x.toNat / 16), hexDigit (x.toNat % 16)])

def encStr (s : Str) : String := "x" ++ hexOfBytes (String.ofList s).toUTF8.toList

def decList (s : String) : Option (List Str) := (splitList s).mapM decStr

def encList (l : List Str) : String := joinList (l.map encStr)

def decVariant (s : String) : Option Variant :=
  if s == "1" then some .v1 else if s == "2" then some .strict
  else if s == "3" then some .strict3 else none

def decKind (s : String) : Option Kind :=
  if s == "f" then some .file else if s == "d" then some .directory
  else if s == "l" then some .symlink else if s == "t" then some .treeref else none

def decEntry (s : String) : Option Entry :=
  match s.splitOn ":" with
  | [k, p, f, h, t, r, x] => do
    let k ← decKind k
    let p ← decStr p
    let f ← decStr f
    let h ← decStr h
    let t ← decStr t
    let r ← decStr r
    let x ← parseBool x
    pure { path := p, kind := k, fileId := f, sha1 := h, target := t, revision := r, executable := x }
  | _ => none

def decProp (s : String) : Option (Str × Str) :=
  match s.splitOn ":" with
  | [n, v] => do
    let n ← decStr n
    let v ← decStr v
    pure (n, v)
  | _ => none

def decTz (s : String) : Option (Option Int) :=
  if s == "~" then some none else s.toInt?.map some

def showErr : Err → String
  | .value => "E:Value"
  | .assert => "E:Assert"

def decRev (rid c ts tz ps m es props : String) : Option Rev :=
  match decStr rid, decStr c, ts.toInt?, decTz tz, decList ps, decStr m,
      (splitList es).mapM decEntry, (splitList props).mapM decProp with
  | some rid, some c, some ts, some tz, some ps, some m, some es, some props =>
    some { revisionId := rid, committer := c, timestampMs := ts, timezone := tz,
           parents := ps, message := m, entries := es, props := props }
  | _, _, _, _, _, _, _, _ => none

def showRes : Except Err Str → String
  | .ok t => "ok " ++ encStr t
  | .error e => showErr e

def handle : List String → String
  | ["text", v, rid, c, ts, tz, ps, m, es, props] =>
    match decVariant v, decRev rid c ts tz ps m es props with
    | some v, some r => showRes (text v r)
    | _, _ => "bad-op"
  | ["short", v, dg, rid, c, ts, tz, ps, m, es, props] =>
    match decVariant v, decStr dg, decRev rid c ts tz ps m es props with
    | some v, some dg, some r => showRes (shortText (fun _ => dg) v r)
    | _, _, _ => "bad-op"
  | ["join", ls] =>
    match decList ls with
    | some ls => encStr (joinNl ls)
    | none => "bad-op"
  | ["canon", s] =>
    match decStr s with
    | some s => if msgCanon s then "T" else "F"
    | none => "bad-op"
  | ["lines", s] =>
    match decStr s with
    | some s => encList (splitlines s)
    | none => "bad-op"
  | ["esc", v, s] =>
    match decVariant v, decStr s with
    | some v, some s => encStr (escapePath v s)
    | _, _ => "bad-op"
  | ["order", ps] =>
    match decList ps with
    | some ps =>
      encList ((sortEntries (ps.map fun p =>
        { path := p, kind := .directory, fileId := [], sha1 := [], target := [], revision := [],
          executable := false })).map Entry.path)
    | none => "bad-op"
  | _ => "bad-op"

end BreezyVerif.C41

def main : IO Unit := BreezyVerif.runDriver BreezyVerif.C41.handle
