"""C19 — text conflicts are reported exactly when conflict markers are written.

Mechanism: breezy/merge.py: Merge3Merger.text_merge (sentinel start marker,
`iter_merge3` flag + replace), _do_merge_contents/merge_contents in front of it,
_dump_conflicts/_conflict_file (helper files), breezy/bzr/conflicts.py
TextConflict._resolve / ContentsConflict._resolve + breezy/conflicts.py
resolve()/cleanup.

T1: the byte constants of text_merge (sentinel, `<`*7, `|`*7, TREE,
    MERGE-SOURCE, BASE-REVISION) are read from the source (ast) into
    Generated/C19.lean; Props/C19T1.lean proves them equal to the model's.
T2: scenarios = (format 2a|git, options reprocess/show-base/cherrypick, front
    end Merger.from_revision_ids | Merge3Merger directly, N files); each file is
    a generated (BASE, THIS, OTHER) text triple.  The real merge runs on real
    working trees; per file the observed slot (file bytes, .BASE/.THIS/.OTHER
    bytes, conflict record kind, which name is versioned) is compared with the
    Lean model `mergeFile` fed with the regions computed by the external merge3
    package (resolved to lines); then every conflict is resolved with
    take_this / take_other through breezy.conflicts.resolve (sometimes after
    deleting or editing a helper = malformed stream) and the slot afterwards is
    compared with `resolveText` / `resolveContents`.  Also compared:
    osutils.split_lines vs `splitLines`, the start marker (`freshMarker`) and
    the theorems' hypothesis `FromInputs` on every case.
Oracle (model-independent): record present <=> merge3 reports a conflict
    region (and both sides changed differently); file == conventional marker
    rendering of the regions / == clean merge; helpers == the three texts
    exactly / absent; after take_this/take_other: file == THIS/OTHER text,
    helpers and record gone, file versioned.
Run-time-checked assumption on merge3: the regions reproduce THIS and OTHER
    (projections), and the text-level laws hold.

History: two defects found by this check were repaired in /repo (fix: commits
40e57db sentinel collision, b2b6407 contents-conflict take-this); the model
follows the repaired code, no known-finding family is left: any oracle failure
is a plain VIOLATION.  "Fix reverted" mutants: reverting either commit gives a
VIOLATION with a concrete input (sentinel line in a clean merge; binary
both-sides take_this).

Mutants this was built against (scratch worktrees, all caught with a concrete
input): (1) `startswith(start_marker)` -> `start_marker in line`; (2) flag set
only when `line == start_marker + b" TREE\n"` (CRLF / bare-CR first line of
THIS); (3) `_dump_conflicts` lines order (base, other, this) permuted -> helper
files swapped; (4) TextConflict.action_take_this resolves with "OTHER";
(5) the replacement `b"<" * 7` -> `b"<" * 6`; (6) text_merge records the
conflict but skips _dump_conflicts; (7) cleanup() skipping .BASE; (8) base_marker
always None (show_base ignored); (9) `if retval["text_conflicts"] is True` ->
`is not None` (every text merge records a conflict).
(10) the marker-extension loop removed (= fix reverted); (11) `+= b"!"` only once
(`if` instead of `while`: needs a line starting with the once-extended marker);
(12) ContentsConflict hand-over removed (= fix reverted).
Harmless rewrite kept clean: iter_merge3 building a list instead of yielding;
sentinel split differently (`b"!START OF MERGE " + b"CONFLICT!I HOPE THIS IS UNIQUE"`).
"""
import ast
import os
import sys

from vlib import env

THEOREMS = [
    "text_merge_spec", "render_conflict_iff", "flag_of_conflict", "render_clean", "text_merge_clean",
    "marker_fresh", "render_append", "render_content_plain", "render_content_show_base", "sentinel_line_clean",
    "join_splitLines", "helpers_exact", "merge_file_spec", "resolve_text", "resolve_take_this",
    "resolve_take_other", "merge_then_resolve", "resolve_contents_take_other",
    "resolve_contents_take_this",
]
T1_THEOREMS = ["sentinel_gen_eq", "replacement_gen_eq", "extension_gen_eq", "base_marker_gen_eq", "names_gen_eq"]
RULE = ("scenario = (format, reprocess, show_base, cherrypick, front end); case = one file = (BASE, THIS, OTHER) "
        "texts over an alphabet with marker look-alikes, the sentinel, CR/CRLF endings, missing final newline, NUL; "
        "plus one resolve step per recorded conflict; non-trivial = both sides changed the text differently "
        "(text_merge / contents conflict path actually taken); distinct by (options, triple, action)")
ASSUMPTIONS = [
    "merge3.Merge3.merge_regions / reprocess_merge_regions (external) produce regions that reproduce THIS and OTHER "
    "(checked on every case by projection) ; their conflict regions define 'has conflicting regions'",
    "texts are shorter than the 1024-byte window of check_text_lines (binary <=> contains NUL)",
]
TRUSTED = ["merge3 region computation and patiencediff (external) are inputs of the model, not verified",
           "tree transform apply / rename machinery is covered by C13/C14, here only its observable result"]

SENT = b"!START OF MERGE CONFLICT!I HOPE THIS IS UNIQUE"


# --------------------------------------------------------------------------
# T1

def _const(e):
    if isinstance(e, ast.Constant) and isinstance(e.value, (bytes, int)):
        return e.value
    if isinstance(e, ast.BinOp) and isinstance(e.op, (ast.Add, ast.Mult)):
        l, r = _const(e.left), _const(e.right)
        return l + r if isinstance(e.op, ast.Add) else l * r
    if isinstance(e, ast.IfExp):          # b"|" * 7 if self.show_base is True else None
        return _const(e.body)
    raise ValueError("not a constant: %s" % ast.dump(e))


def extract(ctx):
    sys.path.insert(0, os.path.join(env.VERIF, "tools"))
    import extract as ex
    f = ex.find_func(os.path.join(env.REPO, "breezy/merge.py"), "Merge3Merger.text_merge")
    vals = {}
    for n in ast.walk(f):
        if isinstance(n, ast.Assign) and len(n.targets) == 1 and isinstance(n.targets[0], ast.Name):
            if n.targets[0].id in ("start_marker", "base_marker"):
                vals[n.targets[0].id] = _const(n.value)
        if isinstance(n, ast.AugAssign) and isinstance(n.target, ast.Name) and n.target.id == "start_marker" \
                and isinstance(n.op, ast.Add):
            vals["extension"] = _const(n.value)
        if isinstance(n, ast.Call) and isinstance(n.func, ast.Attribute):
            if n.func.attr == "merge_lines":
                for k in n.keywords:
                    if k.arg in ("name_a", "name_b", "name_base"):
                        vals[k.arg] = _const(k.value)
        if isinstance(n, ast.Yield) and isinstance(n.value, ast.BinOp) and isinstance(n.value.op, ast.Add):
            # yield b"<" * 7 + line[len(start_marker):]
            try:
                vals["replacement"] = _const(n.value.left)
            except ValueError:
                pass
    need = ("start_marker", "base_marker", "name_a", "name_b", "name_base", "replacement", "extension")
    if any(k not in vals or not isinstance(vals[k], bytes) for k in need):
        raise ex.ExtractError("text_merge constants not found: %r" % sorted(vals))
    text = ("-- GENERATED by harness/checks/c19.py from breezy/merge.py (Merge3Merger.text_merge) — do not edit\n"
            "import BreezyVerif.Model.C19\nnamespace BreezyVerif.C19\n"
            "def sentinelGen : Bytes := %s\n"
            "def replacementGen : Bytes := %s\n"
            "def extensionGen : Bytes := %s\n"
            "def baseMarkerGen : Bytes := %s\n"
            "def nameAGen : Bytes := %s\n"
            "def nameBGen : Bytes := %s\n"
            "def nameBaseGen : Bytes := %s\n"
            "end BreezyVerif.C19\n") % tuple(ex.lean_bytes(vals[k]) for k in
                                             ("start_marker", "replacement", "extension", "base_marker", "name_a", "name_b", "name_base"))
    ex.write_if_changed(os.path.join(env.VERIF, "lean/BreezyVerif/Generated/C19.lean"), text)
    return "regenerated text_merge constants"


# --------------------------------------------------------------------------
# generators

BODIES = [b"a", b"b", b"c", b"d", b"e", b"x", b"y", b"", b" ", b"a", b"b", b"c",
          b"<<<<<<< TREE", b"=======", b">>>>>>> MERGE-SOURCE", b"||||||| BASE-REVISION", b"<<<<<<<", b">>>>>>>",
          b"x" + SENT, b" " + SENT]
SENT_BODIES = [SENT, SENT + b" TREE", SENT + b" x", SENT + SENT, SENT + b"\r", SENT + b"!", SENT + b"!! TREE", SENT + b"!x"]


def gen_line(rng, sent_p):
    if rng.random() < sent_p:
        body = rng.choice(SENT_BODIES)
    else:
        body = rng.choice(BODIES)
    r = rng.random()
    if r < 0.06:
        return body + b"\r\n"
    return body + b"\n"


def gen_lines(rng, sent_p, crlf=False):
    n = rng.choice([0, 1, 1, 2, 3, 3, 4, 5, 6])
    ls = [gen_line(rng, sent_p) for _ in range(n)]
    if crlf:
        ls = [l[:-1].rstrip(b"\r") + b"\r\n" for l in ls]
    return ls


def mutate(rng, lines, sent_p):
    ls = list(lines)
    for _ in range(rng.choice([0, 1, 1, 1, 2, 2, 3])):
        op = rng.random()
        if op < 0.4 and ls:
            ls[rng.randrange(len(ls))] = gen_line(rng, sent_p)
        elif op < 0.7:
            ls.insert(rng.randint(0, len(ls)), gen_line(rng, sent_p))
        elif ls:
            del ls[rng.randrange(len(ls))]
    return ls


def finish(rng, ls):
    """join; sometimes drop the final newline (-> last line without \\n, possibly ending in \\r)"""
    t = b"".join(ls)
    if t and rng.random() < 0.2:
        t = t[:-1]
    return t


def gen_triple(rng, sent_p, binary=False):
    crlf = rng.random() < 0.08
    base = gen_lines(rng, sent_p, crlf)
    k = rng.random()
    if k < 0.06:
        this, other = mutate(rng, base, sent_p), list(base)
    elif k < 0.12:
        this, other = list(base), mutate(rng, base, sent_p)
    elif k < 0.18:
        this = mutate(rng, base, sent_p)
        other = list(this)
    elif k < 0.26:
        this, other = gen_lines(rng, sent_p, crlf), gen_lines(rng, sent_p, crlf)
    else:
        this, other = mutate(rng, base, sent_p), mutate(rng, base, sent_p)
    b, t, o = finish(rng, base), finish(rng, this), finish(rng, other)
    if binary:
        which = rng.choice([(1, 1, 1), (0, 1, 1), (1, 0, 0), (0, 1, 0), (0, 0, 1), (1, 1, 0)])
        b, t, o = [x + (b"\x00z\n" if w else b"") for x, w in zip((b, t, o), which)]
    return b, t, o


def split_lines(t):
    from breezy import osutils
    return list(osutils.split_lines(t))


def hexb(b):
    return b.hex() if b else "-"


def ob(b):
    return "~" if b is None else hexb(b)


def enc_lines(ls):
    return ",".join(l.hex() for l in ls) if ls else "_"


# --------------------------------------------------------------------------
# merge3 regions (external package), resolved to lines

def regions_for(base_l, this_l, other_l, reprocess, cherrypick):
    from merge3 import Merge3
    import patiencediff
    m3 = Merge3(base_l, this_l, other_l, is_cherrypick=cherrypick,
                sequence_matcher=patiencediff.PatienceSequenceMatcher)
    regs = m3.merge_regions()
    if reprocess:
        regs = m3.reprocess_merge_regions(regs)
    regs = list(regs)
    out = []
    for t in regs:
        w = t[0]
        if w == "unchanged":
            out.append(("u", base_l[t[1]:t[2]]))
        elif w == "a":
            out.append(("a", this_l[t[1]:t[2]]))
        elif w == "same":
            out.append(("s", this_l[t[1]:t[2]]))
        elif w == "b":
            out.append(("b", other_l[t[1]:t[2]]))
        elif w == "conflict":
            _, iz, zm, ia, am, ib, bm = t
            out.append(("c", None if iz is None else base_l[iz:zm], this_l[ia:am], other_l[ib:bm]))
        else:
            raise ValueError(w)
    return regs, out


def check_reproduce(base_l, this_l, other_l, regs, cherrypick=False):
    """the regions reproduce THIS and OTHER: projection onto each side, filling
    one-sided regions with the BASE lines they replace.  In cherrypick mode
    merge3 deliberately drops the OTHER lines of a conflict that match BASE, so
    only the THIS projection is required there."""
    def gap(i):
        lo = 0
        for t in reversed(regs[:i]):
            if t[0] == "unchanged":
                lo = t[2]; break
            if t[0] == "conflict" and t[1] is not None:
                lo = t[2]; break
        hi = len(base_l)
        for t in regs[i + 1:]:
            if t[0] == "unchanged":
                hi = t[1]; break
            if t[0] == "conflict" and t[1] is not None:
                hi = t[1]; break
        return base_l[lo:hi]
    pa, pb = [], []
    for i, t in enumerate(regs):
        w = t[0]
        if w == "unchanged":
            pa += base_l[t[1]:t[2]]; pb += base_l[t[1]:t[2]]
        elif w == "same":
            pa += this_l[t[1]:t[2]]; pb += this_l[t[1]:t[2]]
        elif w == "a":
            pa += this_l[t[1]:t[2]]; pb += gap(i)
        elif w == "b":
            pa += gap(i); pb += other_l[t[1]:t[2]]
        else:
            pa += this_l[t[3]:t[4]]; pb += other_l[t[5]:t[6]]
    return pa == this_l and (cherrypick or pb == other_l)


def enc_regions(out):
    if not out:
        return "_"
    parts = []
    for r in out:
        if r[0] == "c":
            parts.append("c:%s:%s:%s" % ("~" if r[1] is None else enc_lines(r[1]), enc_lines(r[2]), enc_lines(r[3])))
        else:
            parts.append("%s:%s" % (r[0], enc_lines(r[1])))
    return ";".join(parts)


def oracle_render(out, this_l, show_base):
    """what a user expects in the file: conventional markers around each conflict region"""
    nl = b"\n"
    if this_l:
        if this_l[0].endswith(b"\r\n"):
            nl = b"\r\n"
        elif this_l[0].endswith(b"\r"):
            nl = b"\r"
    res = []
    for r in out:
        if r[0] == "c":
            res.append(b"<<<<<<< TREE" + nl)
            res += r[2]
            if show_base:
                res.append(b"||||||| BASE-REVISION" + nl)
                res += r[1] or []
            res.append(b"=======" + nl)
            res += r[3]
            res.append(b">>>>>>> MERGE-SOURCE" + nl)
        else:
            res += r[1]
    return b"".join(res)


# --------------------------------------------------------------------------
# running the real code

def read_opt(path):
    try:
        with open(path, "rb") as f:
            return f.read()
    except FileNotFoundError:
        return None


def observe(wt, name):
    root = wt.basedir
    rec = None
    for c in wt.conflicts():
        if c.path == name:
            ts = c.typestring
            rec = {"text conflict": "text", "contents conflict": "contents"}.get(ts, ts.replace(" ", "_"))
    idon = "none"
    for key, n in (("item", name), ("this", name + ".THIS"), ("other", name + ".OTHER"), ("base", name + ".BASE")):
        if wt.is_versioned(n):
            idon = key if idon == "none" else idon + "+" + key
    return [read_opt(os.path.join(root, name)), read_opt(os.path.join(root, name + ".BASE")),
            read_opt(os.path.join(root, name + ".THIS")), read_opt(os.path.join(root, name + ".OTHER")), rec, idon]


def slot_str(s):
    return "%s %s %s %s %s %s" % (ob(s[0]), ob(s[1]), ob(s[2]), ob(s[3]), s[4] or "~", s[5])


def exc_kind(e):
    n = type(e).__name__
    return {"CantReprocessAndShowBase": "E:CantReprocessAndShowBase", "MalformedTransform": "E:Malformed"}.get(n, "E:" + n)


def run_scenario(sc):
    """sc: dict(fmt, reprocess, show_base, cherrypick, via, triples=[(b,t,o)], actions=[(action, pre)])
    returns dict(merge_exc, slots=[...], resolves=[(pre_slot, action, exc|None, post_slot)|None])"""
    from breezy import conflicts as _mod_conflicts
    from breezy.merge import Merge3Merger, Merger
    fmt = sc["fmt"]
    triples = sc["triples"]
    names = ["f%d" % i for i in range(len(triples))]
    wt = env.make_tree(fmt)
    root = wt.basedir

    def write(d, idx):
        for n, t in zip(names, triples):
            with open(os.path.join(d, n), "wb") as f:
                f.write(t[idx])
    write(root, 0)
    wt.add(names)
    base_rev = wt.commit("base")
    odir = env.fresh_dir("other")
    owt = wt.controldir.sprout(odir).open_workingtree()
    write(odir, 2)
    other_rev = owt.commit("other", allow_pointless=True)
    write(root, 1)
    wt.commit("this", allow_pointless=True)
    res = dict(merge_exc=None, slots=[], resolves=[])
    try:
        if sc["via"] == "merger":
            with wt.lock_write():
                m = Merger.from_revision_ids(wt, other_rev, other_branch=owt.branch)
                m.merge_type = Merge3Merger
                m.reprocess = sc["reprocess"]
                m.show_base = sc["show_base"]
                m.do_merge()
        else:
            with owt.lock_read():
                Merge3Merger(wt, wt, wt.branch.repository.revision_tree(base_rev),
                             owt.branch.repository.revision_tree(other_rev),
                             reprocess=sc["reprocess"], show_base=sc["show_base"],
                             cherrypick=sc["cherrypick"], do_merge=True)
    except Exception as e:  # noqa
        res["merge_exc"] = exc_kind(e)
    res["slots"] = [observe(wt, n) for n in names]
    # the texts the merge actually saw (the repository's, not the ones written to disk)
    try:
        orepo = wt.branch.repository if (sc["via"] == "merger" and not res["merge_exc"]) else owt.branch.repository
        bt, ot = wt.branch.repository.revision_tree(base_rev), orepo.revision_tree(other_rev)
        with bt.lock_read(), ot.lock_read():
            res["stored"] = [(bt.get_file_text(n), ot.get_file_text(n)) for n in names]
    except Exception as e:  # noqa
        res["stored"] = None
    res["extra_files"] = sorted(x for x in os.listdir(root)
                                if x not in (".bzr", ".git") and x.split(".")[0] not in names)
    for n, (action, pre), slot in zip(names, sc["actions"], res["slots"]):
        if slot[4] is None or res["merge_exc"]:
            res["resolves"].append(None)
            continue
        if pre:
            kind, which = pre
            p = os.path.join(root, n + "." + which)
            if kind == "del":
                if os.path.exists(p):
                    os.unlink(p)
            elif kind == "edit":
                with open(p, "wb") as f:
                    f.write(b"edited by user\n")
        before = observe(wt, n)
        exc = None
        try:
            _mod_conflicts.resolve(wt, [n], action=action)
        except Exception as e:  # noqa
            exc = exc_kind(e)
        res["resolves"].append((before, action, exc, observe(wt, n)))
    return res


# --------------------------------------------------------------------------

def has_sentinel_line(triple):
    return any(l.startswith(SENT) for t in triple for l in t.split(b"\n"))


def is_binary(triple):
    return any(b"\x00" in t for t in triple)


def case_of(sc, i):
    b, t, o = sc["triples"][i]
    return dict(fmt=sc["fmt"], reprocess=sc["reprocess"], show_base=sc["show_base"], cherrypick=sc["cherrypick"],
                via=sc["via"], base=b.hex(), this=t.hex(), other=o.hex(),
                action=sc["actions"][i][0], pre=sc["actions"][i][1])


def gen_scenario(ctx, fmt, nfiles, sent_p, bin_p):
    rng = ctx.rng
    r = rng.random()
    reprocess = show_base = False
    if r < 0.3:
        reprocess = True
    elif r < 0.6:
        show_base = True
    elif r < 0.64:
        reprocess = show_base = True
    via = "merger" if rng.random() < 0.5 else "direct"
    cherrypick = via == "direct" and rng.random() < 0.4
    triples, actions = [], []
    for _ in range(nfiles):
        binary = fmt == "2a" and rng.random() < bin_p
        triples.append(gen_triple(rng, sent_p, binary))
        action = rng.choice(["take_this", "take_other"])
        pre = None
        if rng.random() < 0.1:
            which = rng.choice(["THIS", "OTHER", "BASE"])
            kind = rng.choice(["del", "edit"])
            if not (fmt == "git" and kind == "del"):   # git crashes with AttributeError on a missing helper: not compared
                pre = [kind, which]
        actions.append([action, pre])
    return dict(fmt=fmt, reprocess=reprocess, show_base=show_base, cherrypick=cherrypick, via=via,
                triples=triples, actions=actions)


def evaluate(ctx, sc, res):
    """T2 + oracle for one executed scenario.  Returns (cases, lines, impl_outs) for the batched model call."""
    cases, lines, outs = [], [], []
    R = "T" if sc["reprocess"] else "F"
    S = "T" if sc["show_base"] else "F"
    both = sc["reprocess"] and sc["show_base"]
    per_file = []
    need_text_merge = False
    if res.get("stored"):
        # a repository that hands out a text different from the one committed is a defect of
        # another property (C03: fetch/commit fidelity); C19 is evaluated on the texts the merge saw
        fixed = []
        for (b, t, o), (sb, so) in zip(sc["triples"], res["stored"]):
            if (sb, so) != (b, o):
                ctx.count("repository-text-differs-from-committed(C03)")
                ctx.extra.setdefault("repository_text_differs", []).append(
                    dict(fmt=sc["fmt"], via=sc["via"], committed=[b.hex(), o.hex()], stored=[sb.hex(), so.hex()]))
            fixed.append((sb, t, so))
        sc = dict(sc, triples=fixed)
    for i, (b, t, o) in enumerate(sc["triples"]):
        bl, tl, ol = split_lines(b), split_lines(t), split_lines(o)
        regs, out = regions_for(bl, tl, ol, sc["reprocess"], sc["cherrypick"])
        if not check_reproduce(bl, tl, ol, regs, sc["cherrypick"]):
            ctx.mismatch(case_of(sc, i), "merge3 regions do not reproduce the inputs", str(regs), tie="assumption:merge3")
        changed_both = b != o and t != b and t != o
        binary = is_binary((b, t, o))
        if changed_both and not binary:
            need_text_merge = True
        per_file.append((bl, tl, ol, regs, out, changed_both, binary))
    if res["merge_exc"]:
        # the whole merge failed: only legal reason is reprocess+show_base with at least one text merge
        case = dict(fmt=sc["fmt"], reprocess=sc["reprocess"], show_base=sc["show_base"], via=sc["via"],
                    triples=[[x.hex() for x in t] for t in sc["triples"]])
        ctx.count("merge-raised:" + res["merge_exc"])
        if not (both and need_text_merge and res["merge_exc"] == "E:CantReprocessAndShowBase"):
            ctx.violation(case, "merge raised %s" % res["merge_exc"])
        for i, slot in enumerate(res["slots"]):
            exp = [sc["triples"][i][1], None, None, None, None, "item"]
            if slot != exp:
                ctx.violation(case_of(sc, i), "failed merge changed the tree: %s" % slot_str(slot))
    elif both and need_text_merge:
        ctx.violation(dict(fmt=sc["fmt"], via=sc["via"]), "reprocess+show_base accepted although a text merge was needed")
    if res["extra_files"]:
        ctx.violation(dict(fmt=sc["fmt"], files=res["extra_files"]), "unexpected files after merge: %r" % res["extra_files"])

    for i, (b, t, o) in enumerate(sc["triples"]):
        bl, tl, ol, regs, out, changed_both, binary = per_file[i]
        case = case_of(sc, i)
        fam = None          # no known family: every oracle failure is a plain VIOLATION
        ctx.case([case["fmt"], R, S, sc["cherrypick"], sc["via"], case["base"], case["this"], case["other"], case["action"], case["pre"]],
                 nontrivial=changed_both)
        ctx.count("fmt:" + sc["fmt"]); ctx.count("opts:R%sS%sC%s" % (R, S, "T" if sc["cherrypick"] else "F"))
        ctx.count("via:" + sc["via"]); ctx.count("lines:%d" % max(len(bl), len(tl), len(ol)))
        ctx.count("relation:" + ("both-changed" if changed_both else "this=other" if t == o else
                                 "other=base" if b == o else "this=base"))
        if not (t.endswith(b"\n") or not t) or not (o.endswith(b"\n") or not o) or not (b.endswith(b"\n") or not b):
            ctx.count("missing-final-newline")
        if has_sentinel_line((b, t, o)):
            ctx.count("sentinel-line")
        if binary:
            ctx.count("binary")
        # split_lines correspondence
        for txt, ls in ((b, bl), (t, tl), (o, ol)):
            cases.append(dict(op="split_lines", text=txt.hex())); lines.append("sl %s" % hexb(txt)); outs.append(enc_lines(ls))
        # the theorems' hypothesis (regions denote input lines) and the marker's freshness, on this case
        cases.append(dict(op="FromInputs", case=case))
        lines.append("fi %s %s %s %s %s" % (S, enc_lines(bl), enc_lines(tl), enc_lines(ol), enc_regions(out)))
        outs.append("T")
        mk = SENT
        while any(l.startswith(mk) for l in bl + ol + tl):
            mk += b"!"
        cases.append(dict(op="marker", case=case))
        lines.append("mk %s %s %s" % (enc_lines(bl), enc_lines(tl), enc_lines(ol)))
        outs.append(mk.hex())
        ctx.count("marker-extensions:%d" % (len(mk) - len(SENT)))
        if res["merge_exc"]:
            if both and need_text_merge:
                # model: this file or an earlier one raises; compare only the files that need a text merge
                if changed_both and not binary:
                    cases.append(case); outs.append(res["merge_exc"])
                    lines.append("mf %s %s %s %s %s %s" % (R, S, enc_lines(bl), enc_lines(tl), enc_lines(ol), enc_regions(out)))
            continue
        slot = res["slots"][i]
        cases.append(case); outs.append(slot_str(slot))
        lines.append("mf %s %s %s %s %s %s" % (R, S, enc_lines(bl), enc_lines(tl), enc_lines(ol), enc_regions(out)))
        # ---- oracle: the property on the real outcome --------------------
        has_conf = changed_both and any(r[0] == "c" for r in out)
        recorded = slot[4] == "text"
        ctx.count("outcome:" + (slot[4] or "clean"))
        if binary and changed_both:
            ok = slot[4] == "contents" and slot[0] is None and slot[1:4] == [b, t, o]
            if not ok:
                ctx.violation(case, "binary both-changed: expected contents conflict with exact helpers, got %s" % slot_str(slot))
        else:
            if recorded != has_conf:
                ctx.violation(case, "text conflict recorded=%s but merge3 conflict regions=%s (file %r)" % (
                    recorded, has_conf, slot[0]), family=fam)
            if slot[4] not in (None, "text"):
                ctx.violation(case, "unexpected conflict kind %s" % slot[4], family=fam)
            if not changed_both:
                expect = t if (b == o or t == o) else o
            else:
                expect = oracle_render(out, tl, sc["show_base"])
            if slot[0] != expect:
                ctx.violation(case, "file content %r, expected %s %r" % (
                    slot[0], "marker rendering" if has_conf else "clean merge", expect), family=fam)
            if recorded:
                if slot[1:4] != [b, t, o]:
                    ctx.violation(case, "helper files (BASE,THIS,OTHER)=%r differ from the three texts" % (slot[1:4],), family=fam)
            elif slot[1:4] != [None, None, None]:
                ctx.violation(case, "helper files present without a conflict: %r" % (slot[1:4],), family=fam)
            if slot[5] != "item":
                ctx.violation(case, "versioned names after merge: %s" % slot[5], family=fam)
        # ---- resolution -------------------------------------------------------
        rs = res["resolves"][i]
        if rs is None:
            continue
        before, action, exc, after = rs
        side = "this" if action == "take_this" else "other"
        pre = sc["actions"][i][1]
        ctx.count("resolve:%s:%s%s" % (before[4], action, (":" + pre[0] + pre[1]) if pre else ""))
        if before[4] == "text":
            cases.append(dict(case, step="resolve")); lines.append("rt %s %s" % (side, slot_str(before)))
            outs.append(exc if exc else slot_str(after))
        elif before[4] == "contents":
            cases.append(dict(case, step="resolve")); lines.append("rc %s %s" % (side, slot_str(before)))
            outs.append(exc if exc else slot_str(after))
        if pre is None and exc is None:
            want = t if side == "this" else o
            good = [want, None, None, None, None, "item"]
            if after != good:
                f2 = fam
                ctx.violation(dict(case, step="resolve"), "after %s: %s, expected file=%r, no helpers, no record, versioned" % (
                    action, slot_str(after), want), family=f2)
        elif pre is None and exc is not None:
            ctx.violation(dict(case, step="resolve"), "resolve %s raised %s" % (action, exc), family=fam)
        elif exc is None:
            # user touched a helper: the file must hold whatever p.<WINNER> held, helpers and record gone
            w = before[2] if side == "this" else before[3]
            if before[4] == "text" and (after[0] != w or after[1:5] != [None, None, None, None]):
                ctx.violation(dict(case, step="resolve"), "after %s with edited helpers: %s" % (action, slot_str(after)), family=fam)
    return cases, lines, outs


def _run_sc(sc):
    return run_scenario(sc)


def run(ctx, scale=1):
    nsc = ctx.pick(24, 900) * scale
    nfiles = ctx.pick(14, 16)
    scs = []
    # corpus first: the F3 witness, CRLF first line, bare CR, no trailing newline
    corpus = [
        (b"a\nb\n", b"a\n" + SENT + b" x\nb\n", b"a\nb\nc\n"),                 # former F3 witness: now clean
        (b"a\nb\n", b"a\n" + SENT + b"! TREE\nB\n", b"a\n" + SENT + b"\nX\n"),     # conflict + lines starting with marker and marker!

        (b"a\r\nb\r\n", b"a\r\nB\r\n", b"a\r\nX\r\n"),
        (b"a", b"b\r", b"c"),
        (b"a\nb\nc", b"a\nB\nc", b"a\nX\nc"),
        (b"a\n", b"<<<<<<< TREE\n", b"=======\n"),
        (b"a\n\x00b\n", b"a\n\x00B\n", b"a\n\x00X\n"),
    ]
    for fmt in ("2a", "git"):
        tr = [c for c in corpus if not (fmt == "git" and is_binary(c))]
        for (r, s) in ((False, False), (False, True), (True, False)):
            scs.append(dict(fmt=fmt, reprocess=r, show_base=s, cherrypick=False, via="merger", triples=tr,
                            actions=[["take_this" if (i + r) % 2 == 0 else "take_other", None] for i in range(len(tr))]))
    for k in range(nsc):
        fmt = "2a" if k % 3 != 2 else "git"
        scs.append(gen_scenario(ctx, fmt, nfiles, sent_p=0.05, bin_p=0.04))
    results = ctx.pmap(_run_sc, scs)
    cases, lines, outs = [], [], []
    for sc, res in zip(scs, results):
        c, l, o = evaluate(ctx, sc, res)
        cases += c; lines += l; outs += o
    ctx.diff(cases, lines, outs)
    ctx.extra["scenarios"] = len(scs)


def widen(ctx):
    run(ctx, scale=4)


def replay(ctx, case):
    if "base" not in case:
        return dict(note="scenario-level record", case=case)
    sc = dict(fmt=case["fmt"], reprocess=case["reprocess"], show_base=case["show_base"],
              cherrypick=case["cherrypick"], via=case["via"],
              triples=[(bytes.fromhex(case["base"]), bytes.fromhex(case["this"]), bytes.fromhex(case["other"]))],
              actions=[[case["action"], case["pre"]]])
    res = run_scenario(sc)
    cases, lines, outs = evaluate(ctx, sc, res)
    model = ctx.model(lines)
    return dict(case=case, texts=[repr(x) for x in sc["triples"][0]],
                impl=dict(after_merge=slot_str(res["slots"][0]), merge_exc=res["merge_exc"],
                          file=repr(res["slots"][0][0]),
                          resolve=None if not res["resolves"] or res["resolves"][0] is None else
                          dict(exc=res["resolves"][0][2], after=slot_str(res["resolves"][0][3]))),
                model=[dict(line=l, model=m, impl=o) for l, m, o in zip(lines, model, outs) if l.startswith(("mf", "rt", "rc"))],
                oracle_failures=[v["what"] for v in ctx.violations])
