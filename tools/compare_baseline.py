#!/usr/bin/env python3
"""compare a junit xml of the baseline command with BASELINE.json stable_pass"""
import json, sys
import xml.etree.ElementTree as ET
base = json.load(open('/root/.vp/BASELINE.json'))
stable = set(base['stable_pass'])
tree = ET.parse(sys.argv[1])
res = {}
for tc in tree.iter('testcase'):
    name = "%s::%s" % (tc.get('classname'), tc.get('name'))
    bad = any(c.tag in ('failure', 'error') for c in tc)
    skipped = any(c.tag == 'skipped' for c in tc)
    res[name] = 'fail' if bad else 'skip' if skipped else 'pass'
missing = [t for t in stable if t not in res]
notpass = [t for t in stable if res.get(t) not in ('pass',) and t in res]
print("stable_pass=%d seen=%d pass=%d notpass=%d missing=%d" % (len(stable), len(res), sum(1 for t in stable if res.get(t)=='pass'), len(notpass), len(missing)))
for t in notpass[:40]: print("  NOTPASS", t, res[t])
for t in missing[:10]: print("  MISSING", t)
