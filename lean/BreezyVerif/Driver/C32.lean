import BreezyVerif.Common
import BreezyVerif.Model.C32
/-
C32 driver.

  run <fx T|F> <src> <ops>   →  L=<results>|<state> R=<results>|<state>

src  = `rev:par,par;rev:~;…` (hex fields, `~` = no parents, `-` = empty graph)
ops  = `;`-joined: ts:<revno>:<rev> | tg:<name>:<rev> | td:<name> | tD | cs:<name>:<value> |
       cg:<name> | ll | rr:<T|F> | tt:<T|F>:<revno>:<rev> | pm:<k,k,…> | tp | fe:<rev>
results = `;`-joined: ok | token | E:… | tags=<n>=<r>,… | val=<hex|~> | pm=<k>=<p+p…>,… | info=<n>:<rev>
state   = tip=<n>:<rev> tags=… conf=… lock=<T|F> revs=<k,k…>   (dictionaries sorted)
The remote run lets the server add the whole source graph to every get_parent_map answer.
-/
namespace BreezyVerif.C32

def sortStrs (l : List String) : List String := l.mergeSort (fun a b => decide (a ≤ b))

def hexOr (s : String) : Option Bytes := fromHex s

def parseGraph (s : String) : Option Graph :=
  if s == "-" then some [] else
  (s.splitOn ";").mapM fun e =>
    match e.splitOn ":" with
    | [r, ps] => do
      let r ← fromHex r
      let ps ← if ps == "~" then some [] else (ps.splitOn ",").mapM fromHex
      pure (r, ps)
    | _ => none

def parseOp (s : String) : Option Op :=
  match s.splitOn ":" with
  | ["ts", n, r] => do pure (.tipSet (← n.toNat?) (← fromHex r))
  | ["tg", n, r] => do pure (.tagSet (← fromHex n) (← fromHex r))
  | ["td", n] => do pure (.tagDel (← fromHex n))
  | ["tD"] => some .tagDict
  | ["cs", n, v] => do pure (.confSet (← fromHex n) (← fromHex v))
  | ["cg", n] => do pure (.confGet (← fromHex n))
  | ["ll"] => some .lockLeave
  | ["rr", g] => do pure (.relockRelease (← parseBool g))
  | ["tt", g, n, r] => do pure (.tipSetTok (← parseBool g) (← n.toNat?) (← fromHex r))
  | ["pm", ks] => do pure (.parentMap (← (ks.splitOn ",").mapM fromHex))
  | ["tp"] => some .tip
  | ["fe", r] => do pure (.fetch (← fromHex r))
  | _ => none

def showDict (d : List (Bytes × Bytes)) : String :=
  joinList (sortStrs (d.map fun e => s!"{toHex e.1}={toHex e.2}"))

def showRes : Res → String
  | .ok => "ok"
  | .token => "token"
  | .err e => e.toString
  | .tags d => "tags=" ++ showDict d
  | .value none => "val=~"
  | .value (some v) => "val=" ++ toHex v
  | .pmap m => "pm=" ++ joinList (sortStrs (m.map fun e =>
      s!"{toHex e.1}={if e.2.isEmpty then "~" else "+".intercalate (e.2.map toHex)}"))
  | .info n r => s!"info={n}:{toHex r}"

def showSt (st : St) : String :=
  s!"tip={st.tip.1}:{toHex st.tip.2} tags={showDict st.tags} conf={showDict st.conf} " ++
  s!"lock={showBool st.lock.isSome} revs={joinList (sortStrs (st.revs.map fun e => toHex e.1))}"

def showRun (r : List Res × St) : String :=
  (if r.1.isEmpty then "-" else ";".intercalate (r.1.map showRes)) ++ "|" ++ showSt r.2

def handle : List String → String
  | ["run", fx, src, ops] =>
    match parseBool fx, parseGraph src, (if ops == "-" then some [] else (ops.splitOn ";").mapM parseOp) with
    | some fx, some src, some ops =>
      let l := runWith (localStep src) St.init ops
      let r := runWith (remoteStep fx src (src.map (·.1))) St.init ops
      s!"L={showRun l} R={showRun r}"
    | _, _, _ => "bad-op"
  | _ => "bad-op"

end BreezyVerif.C32

def main : IO Unit := BreezyVerif.runDriver BreezyVerif.C32.handle
