import BreezyVerif.Model.C47
import BreezyVerif.Lemmas.C47Path
import BreezyVerif.Lemmas.C47Join
import BreezyVerif.Lemmas.C47Lines
import BreezyVerif.Lemmas.C47Date
import BreezyVerif.Lemmas.C47F64
/-!
C47 — theorems.  Every statement is for *all* inputs (path lists, byte strings,
chunkings, nanosecond counts); nothing is bounded.
-/
namespace BreezyVerif.C47

/-! ## minimum_path_selection / is_inside / is_inside_any -/

/-- the selection is a subset of the input -/
theorem mps_subset (ps : List Path) : ∀ q ∈ mps ps, q ∈ ps := mps_subset' ps

/-- no selected path lies inside another selected path -/
theorem mps_antichain (ps : List Path) :
    ∀ q ∈ mps ps, ∀ q' ∈ mps ps, isInside q q' = true → q = q' := by
  intro q hq q' hq' h
  exact mps_antichain' ps q hq q' hq' ((isInside_iff _ _).mp h)

/-- every input path lies inside exactly one selected path -/
theorem mps_covers_exactly_one (ps : List Path) (p : Path) (hp : p ∈ ps) :
    ∃ q ∈ mps ps, isInside q p = true ∧ ∀ q' ∈ mps ps, isInside q' p = true → q' = q := by
  obtain ⟨q, hq, hqp⟩ := mps_cover' ps p hp
  refine ⟨q, hq, (isInside_iff _ _).mpr hqp, ?_⟩
  intro q' hq' hq'p
  have hq'p := (isInside_iff _ _).mp hq'p
  -- two prefixes of the same path are comparable; the antichain property makes them equal
  rcases Nat.le_total q'.length q.length with hl | hl
  · exact mps_antichain' ps q' hq' q hq (List.prefix_of_prefix_length_le hq'p hqp hl)
  · exact (mps_antichain' ps q hq q' hq' (List.prefix_of_prefix_length_le hqp hq'p hl)).symm

/-- order-independent characterisation: the selected paths are exactly the
input paths that have no other input path as a proper ancestor -/
theorem mps_characterisation (ps : List Path) (q : Path) :
    q ∈ mps ps ↔ q ∈ ps ∧ ∀ p ∈ ps, isInside p q = true → p = q := by
  constructor
  · intro hq
    refine ⟨mps_subset ps q hq, fun p hp hpq => ?_⟩
    have hpq := (isInside_iff _ _).mp hpq
    obtain ⟨q0, hq0, hq0p⟩ := mps_cover' ps p hp
    have : q0 = q := mps_antichain' ps q0 hq0 q hq (hq0p.trans hpq)
    subst this
    exact prefix_antisymm _ _ hpq hq0p
  · rintro ⟨hq, hmin⟩
    obtain ⟨q0, hq0, hq0q⟩ := mps_cover' ps q hq
    have := hmin q0 (mps_subset ps q0 hq0) ((isInside_iff _ _).mpr hq0q)
    exact this ▸ hq0

/-- `is_inside_any` is containment in some listed directory -/
theorem inside_any_iff (dirs : List Path) (f : Path) :
    isInsideAny dirs f = true ↔ ∃ d ∈ dirs, d <+: f := by
  unfold isInsideAny
  simp [isInside_iff]

/-- the selection covers exactly what the input covers -/
theorem inside_any_mps (ps : List Path) (f : Path) :
    isInsideAny (mps ps) f = isInsideAny ps f := by
  rw [Bool.eq_iff_iff, inside_any_iff, inside_any_iff]
  constructor
  · rintro ⟨d, hd, hdf⟩
    exact ⟨d, mps_subset ps d hd, hdf⟩
  · rintro ⟨d, hd, hdf⟩
    obtain ⟨q, hq, hqd⟩ := mps_cover' ps d hd
    exact ⟨q, hq, hqd.trans hdf⟩

/-- the scan on the sorted list `a, a/b, ab, b, b/a` keeps `ab, b` after `a` -/
example : scan [[97]] [[[97], [98]], [[97, 98]], [[98]], [[98], [97]]] = [[[97, 98]], [[98]]] := by
  decide

/-! ## splitpath / joinpath -/

/-- a normalised relative path: empty, or `/`-separated non-empty segments none of which is `.` or `..` -/
def normalised (p : Bytes) : Bool :=
  p = [] ∨ (splitOn slash p).all (fun s => s ≠ [] ∧ s ≠ [dot] ∧ s ≠ [dot, dot])

/-- splitting a normalised path and joining the parts gives the path back -/
theorem split_join_id (p : Bytes) (h : normalised p = true) :
    ∃ cs, splitpath p = .ok cs ∧ joinpath cs = .ok p := by
  simp only [normalised, Bool.decide_or, Bool.or_eq_true, decide_eq_true_eq] at h
  rcases h with rfl | h
  · exact ⟨[], by simp [splitpath, splitOn, splitpathAux], by simp [joinpath, pathjoin]⟩
  · have hv : ∀ c ∈ splitOn slash p, validComp c = true := by
      intro c hc
      have := List.all_eq_true.mp h c hc
      simp only [Bool.decide_and, Bool.and_eq_true, decide_eq_true_eq] at this
      simp only [validComp, decide_eq_true_eq]
      exact ⟨this.1, splitOn_no_sep slash p c hc, this.2.1, this.2.2⟩
    refine ⟨splitOn slash p, splitpathAux_valid _ hv, ?_⟩
    rw [joinpath_valid _ hv, joinSlash_splitOn]

/-- joining valid components and splitting the result gives the components back -/
theorem join_split_id (cs : List Bytes) (h : ∀ c ∈ cs, validComp c = true) :
    ∃ p, joinpath cs = .ok p ∧ splitpath p = .ok cs := by
  refine ⟨joinSlash cs, joinpath_valid cs h, ?_⟩
  unfold splitpath
  cases cs with
  | nil => simp [joinSlash, splitOn, splitpathAux]
  | cons c rest =>
    have hs : ∀ x ∈ c :: rest, slash ∉ x := by
      intro x hx
      have := h x hx
      simp only [validComp, decide_eq_true_eq] at this
      exact this.2.1
    rw [splitOn_joinSlash _ (by simp) hs]
    exact splitpathAux_valid _ h

/-- `splitpath` normalises: whatever it returns is reproduced by join-then-split -/
theorem split_join_split (p : Bytes) (cs : List Bytes) (h : splitpath p = .ok cs) :
    ∃ p', joinpath cs = .ok p' ∧ splitpath p' = .ok cs :=
  join_split_id cs (splitpathAux_ok_valid _ cs (splitOn_no_sep slash p) h)

example : normalised [97, 47, 98, 99] = true ∧ splitpath [97, 47, 98, 99] = .ok [[97], [98, 99]] := by decide
example : validComp [97] = true ∧ validComp [46, 46] = false ∧ validComp [] = false := by decide
example : splitpath [97, 47, 46, 47, 47, 98] = .ok [[97], [98]] := by decide

/-! ## byte strings ↔ component lists

The selection / containment theorems above are stated on component lists; the
code works on byte strings through `Path::components()`.  For every list of
valid components the normalised spelling `c₁/c₂/…` is in the modelled domain and
has exactly these components, so the theorems transfer to byte-string paths. -/

/-- `components` inverts `"/".join` on valid components -/
theorem components_joinSlash (cs : List Bytes) (h : ∀ c ∈ cs, validComp c = true) :
    components (joinSlash cs) = cs := by
  unfold components
  cases cs with
  | nil => simp [joinSlash, splitOn]
  | cons c rest =>
    have hs : ∀ x ∈ c :: rest, slash ∉ x := by
      intro x hx
      have := h x hx
      simp only [validComp, decide_eq_true_eq] at this
      exact this.2.1
    rw [splitOn_joinSlash _ (by simp) hs]
    apply List.filter_eq_self.mpr
    intro x hx
    have := h x hx
    simp only [validComp, decide_eq_true_eq] at this
    simp [this.1, this.2.2.1]

/-- the normalised spelling of valid components is in the modelled domain -/
theorem relOk_joinSlash (cs : List Bytes) (h : ∀ c ∈ cs, validComp c = true) :
    relOk (joinSlash cs) = true := by
  unfold relOk
  cases cs with
  | nil => simp [joinSlash, splitOn]
  | cons c rest =>
    have hs : ∀ x ∈ c :: rest, slash ∉ x := by
      intro x hx
      have := h x hx
      simp only [validComp, decide_eq_true_eq] at this
      exact this.2.1
    have hc := h c (by simp)
    simp only [validComp, decide_eq_true_eq] at hc
    rw [splitOn_joinSlash _ (by simp) hs]
    have hdd : [dot, dot] ∉ c :: rest := by
      intro hm
      have := h _ hm
      simp [validComp] at this
    have hhead : (joinSlash (c :: rest)).head? ≠ some slash := by
      intro e
      apply hc.2.1
      cases c with
      | nil => exact absurd rfl hc.1
      | cons x xs =>
        simp only [joinSlash, List.cons_append, List.head?_cons, Option.some.injEq] at e
        simp [e]
    simp [hhead, hc.2.2.1, hdd]

/-- containment of byte-string paths is the component-prefix relation -/
theorem inside_bytes (a b : List Bytes) (ha : ∀ c ∈ a, validComp c = true) (hb : ∀ c ∈ b, validComp c = true) :
    isInside (components (joinSlash a)) (components (joinSlash b)) = true ↔ a <+: b := by
  rw [components_joinSlash a ha, components_joinSlash b hb, isInside_iff]

/-- the selection computed from the byte-string spellings is the selection of the component lists -/
theorem mps_bytes (ps : List Path) (h : ∀ p ∈ ps, ∀ c ∈ p, validComp c = true) :
    mps ((ps.map joinSlash).map components) = mps ps := by
  congr 1
  rw [List.map_map]
  conv => rhs; rw [← List.map_id ps]
  apply List.map_congr_left
  intro p hp
  simp [components_joinSlash p (h p hp)]

example : components (joinSlash [[97], [46, 97], [97, 46]]) = [[97], [46, 97], [97, 46]] ∧
    validComp [46, 97] = true ∧ relOk (joinSlash [[46, 97]]) = true := by decide

/-! ## split_lines / chunks_to_lines -/

/-- concatenating the lines gives the text back -/
theorem split_lines_concat (t : Bytes) : (splitLines t).flatten = t := splitLines_flatten t

/-- the result is a sequence of complete lines (exactly one `\\n`, at the end)
followed by at most one non-empty unterminated line -/
theorem split_lines_shape (t : Bytes) :
    ∃ ls tl, splitLines t = ls ++ tl ∧ (∀ l ∈ ls, IsLine l) ∧ (tl = [] ∨ ∃ x, tl = [x] ∧ IsTail x) :=
  splitLines_shape t

/-- `lib.rs: chunks_to_lines` equals `split_lines` of the concatenation, for every chunking -/
theorem chunks_to_lines_eq (chunks : List Bytes) : c2lCore [] chunks = splitLines chunks.flatten := by
  rw [c2lCore_eq]; simp

/-- the Python-visible iterator equals `split_lines` of the concatenation, for every chunking -/
theorem chunks_to_lines_py_eq (chunks : List Bytes) : c2lPy none chunks = splitLines chunks.flatten := by
  rw [c2lPy_eq none chunks (by simp)]; simp [pyTail]

/-- the Python-visible `split_lines` is the crate's `split_lines` -/
theorem split_lines_py_eq (t : Bytes) : splitLinesPy t = splitLines t := by
  unfold splitLinesPy; rw [chunks_to_lines_py_eq]; simp

/-- the result does not depend on how the text was chunked -/
theorem chunks_to_lines_chunking_independent (cs ds : List Bytes) (h : cs.flatten = ds.flatten) :
    c2lPy none cs = c2lPy none ds ∧ c2lCore [] cs = c2lCore [] ds := by
  rw [chunks_to_lines_py_eq, chunks_to_lines_py_eq, chunks_to_lines_eq, chunks_to_lines_eq, h]
  exact ⟨rfl, rfl⟩

example : c2lPy none [[97], [10, 98], [], [10]] = [[97, 10], [98, 10]] := by
  rw [chunks_to_lines_py_eq]
  simp [splitLines, takeLine, nl]

/-! ## format_highres_date / unpack_highres_date -/

/-- the calendar used for `%Y-%m-%d` is inverted by the parser's day count, for every day -/
theorem calendar_inverse (z : Int) : daysFromCivil (civilFromDays z) = z := days_civil z

/-- **whole-nanosecond timestamps**: for every nanosecond count and every
whole-minute offset below 100 h whose local date has a four-digit year,
unpacking the formatted string returns exactly the inputs. -/
theorem date_roundtrip (nanos offset : Int)
    (hr : inRange (nanos / 1000000000 + offset) = true)
    (h60 : offset % 60 = 0) (hb : offset.natAbs < 360000) :
    unpackHighres (formatHighresNs nanos offset) = .ok (nanos, offset) := by
  unfold formatHighresNs
  have hf : (nanos % 1000000000).toNat < 1000000000 := by
    have := Int.emod_lt_of_pos nanos (show (0 : Int) < 1000000000 by omega)
    omega
  rw [unpack_assemble _ _ _ hr hf, parseI32_fixed_offset offset hb]
  simp only []
  have := offsetSeconds_fixed offset h60
  unfold offsetSeconds at this
  rw [this]
  congr 2
  have h0 := Int.emod_nonneg nanos (show (1000000000 : Int) ≠ 0 by omega)
  rw [Int.toNat_of_nonneg h0]
  omega

/-- non-vacuity: a modern timestamp with offset −05:30 satisfies the hypotheses of `date_roundtrip`,
and a negative fractional one too -/
example : inRange (1700000000123456789 / 1000000000 + (-19800)) = true ∧ (-19800 : Int) % 60 = 0 ∧
    (-19800 : Int).natAbs < 360000 := by decide +kernel
example : inRange (-1500000000 / 1000000000 + 5400) = true := by decide +kernel
example : unpackHighres (formatHighresNs (-1500000000) (-5400)) = .ok (-1500000000, -5400) := by
  decide +kernel

/-! ### arbitrary f64 timestamps `t = num / 2^k` -/

/-- the nanosecond count the f64 `num / 2^k` rounds to: whole seconds from the
floor plus the 9-digit rounding of the (f64) fraction; the rounding may reach
the next second -/
def roundedNanos (num : Int) (k : Nat) : Int :=
  num / ((2 ^ k : Nat) : Int) * 1000000000 + (fracUnits num k : Nat)

theorem fracUnits_le (num : Int) (k : Nat) : fracUnits num k ≤ 1000000000 := by
  unfold fracUnits fracF64
  apply round9_le
  apply roundF64_le
  have hD : (0 : Int) < ((2 ^ k : Nat) : Int) := by
    have : 0 < 2 ^ k := Nat.pos_of_ne_zero (by simp)
    omega
  have := Int.emod_lt_of_pos num hD
  have := Int.emod_nonneg num (Int.ne_of_gt hD)
  omega

/-- the code as written formats an f64 like the whole-nanosecond timestamp
"floor seconds + (rounded fraction mod 1 s)" -/
theorem formatF64_eq_ns (num : Int) (k : Nat) (offset : Int) :
    formatHighresF64 num k offset =
      formatHighresNs (num / ((2 ^ k : Nat) : Int) * 1000000000 + ((fracUnits num k % 1000000000 : Nat) : Int)) offset := by
  unfold formatHighresF64 formatHighresNs offsetStr
  generalize num / ((2 ^ k : Nat) : Int) = fl
  have hm : fracUnits num k % 1000000000 < 1000000000 := Nat.mod_lt _ (by omega)
  generalize fracUnits num k % 1000000000 = m at *
  have e1 : (fl * 1000000000 + (m : Int)) / 1000000000 = fl := by omega
  have e2 : ((fl * 1000000000 + (m : Int)) % 1000000000).toNat = m := by omega
  rw [e1, e2]

/-- the patched formatter formats an f64 like the whole-nanosecond timestamp it rounds to -/
theorem formatF64Carry_eq_ns (num : Int) (k : Nat) (offset : Int) :
    formatHighresF64Carry num k offset = formatHighresNs (roundedNanos num k) offset := by
  unfold formatHighresF64Carry formatHighresNs offsetStr roundedNanos
  generalize num / ((2 ^ k : Nat) : Int) = fl
  have hle := fracUnits_le num k
  generalize fracUnits num k = u at *
  have e1 : (fl * 1000000000 + (u : Int)) / 1000000000 = fl + (if 1000000000 ≤ u then 1 else 0) := by
    split <;> omega
  have e2 : ((fl * 1000000000 + (u : Int)) % 1000000000).toNat = u % 1000000000 := by omega
  rw [e1, e2]

/-- **partial** (the code as written, any finite f64): when the printed
fraction does not round up to `1.000000000`, unpacking the formatted string
returns the timestamp rounded to 9 digits, and the offset.  Missing: fractions
≥ 1 − ½·10⁻⁹ (see `date_f64_carry_loses_second` and the witnesses). -/
theorem date_roundtrip_f64_partial (num : Int) (k : Nat) (offset : Int)
    (hnc : fracUnits num k < 1000000000)
    (hr : inRange (num / ((2 ^ k : Nat) : Int) + offset) = true)
    (h60 : offset % 60 = 0) (hb : offset.natAbs < 360000) :
    unpackHighres (formatHighresF64 num k offset) = .ok (roundedNanos num k, offset) := by
  rw [formatF64_eq_ns, Nat.mod_eq_of_lt hnc]
  apply date_roundtrip _ _ _ h60 hb
  have : (num / ((2 ^ k : Nat) : Int) * 1000000000 + ((fracUnits num k : Nat) : Int)) / 1000000000
      = num / ((2 ^ k : Nat) : Int) := by omega
  rw [this]; exact hr

/-- **the defect family, in general**: whenever the fraction is printed as
`1.000000000`, the code as written unpacks to the *floor* second — one full
second below the value the timestamp rounds to. -/
theorem date_f64_carry_loses_second (num : Int) (k : Nat) (offset : Int)
    (hc : fracUnits num k = 1000000000)
    (hr : inRange (num / ((2 ^ k : Nat) : Int) + offset) = true)
    (h60 : offset % 60 = 0) (hb : offset.natAbs < 360000) :
    unpackHighres (formatHighresF64 num k offset) = .ok (roundedNanos num k - 1000000000, offset) := by
  rw [formatF64_eq_ns, hc]
  have e : roundedNanos num k - 1000000000 =
      num / ((2 ^ k : Nat) : Int) * 1000000000 + ((1000000000 % 1000000000 : Nat) : Int) := by
    unfold roundedNanos; rw [hc]; omega
  rw [e]
  apply date_roundtrip _ _ _ h60 hb
  have : (num / ((2 ^ k : Nat) : Int) * 1000000000 + ((1000000000 % 1000000000 : Nat) : Int)) / 1000000000
      = num / ((2 ^ k : Nat) : Int) := by omega
  rw [this]; exact hr

/-- which timestamps are in the defect family: the (f64) fraction is at least 1 − ½·10⁻⁹ -/
theorem carry_iff (num : Int) (k : Nat) :
    fracUnits num k = 1000000000 ↔
      2 * (1000000000 * 2 ^ k) ≤ 2 * (fracF64 num k * 1000000000) + 2 ^ k := by
  unfold fracUnits
  apply round9_carry_iff
  unfold fracF64
  apply roundF64_le
  have hD : (0 : Int) < ((2 ^ k : Nat) : Int) := by
    have : 0 < 2 ^ k := Nat.pos_of_ne_zero (by simp)
    omega
  have := Int.emod_lt_of_pos num hD
  have := Int.emod_nonneg num (Int.ne_of_gt hD)
  omega

/-- **with the carry** (the proposed patch): for every finite f64, unpacking the
formatted string returns the timestamp rounded to 9 digits, and the offset. -/
theorem date_roundtrip_f64_carry (num : Int) (k : Nat) (offset : Int)
    (hr : inRange (roundedNanos num k / 1000000000 + offset) = true)
    (h60 : offset % 60 = 0) (hb : offset.natAbs < 360000) :
    unpackHighres (formatHighresF64Carry num k offset) = .ok (roundedNanos num k, offset) := by
  rw [formatF64Carry_eq_ns]
  exact date_roundtrip _ _ hr h60 hb

/-- the 9-digit rounding is within half a nanosecond of the f64 fraction -/
theorem fracUnits_close (num : Int) (k : Nat) :
    2 * (fracUnits num k * 2 ^ k) ≤ 2 * (fracF64 num k * 1000000000) + 2 ^ k ∧
    2 * (fracF64 num k * 1000000000) ≤ 2 * (fracUnits num k * 2 ^ k) + 2 ^ k :=
  round9_close k (fracF64 num k)

/-- for a non-negative f64 (mantissa below 2^53) the subtraction `t - t.floor()` is exact -/
theorem fracF64_exact (num : Int) (k : Nat) (h0 : 0 ≤ num) (h53 : num < 2 ^ 53) :
    (fracF64 num k : Int) = num % ((2 ^ k : Nat) : Int) := by
  unfold fracF64
  have hD : (0 : Int) < ((2 ^ k : Nat) : Int) := by
    have : 0 < 2 ^ k := Nat.pos_of_ne_zero (by simp)
    omega
  have h1 := Int.emod_nonneg num (Int.ne_of_gt hD)
  have h2 : num % ((2 ^ k : Nat) : Int) ≤ num := by
    have e := Int.mul_ediv_add_emod num ((2 ^ k : Nat) : Int)
    have := Int.mul_nonneg (Int.le_of_lt hD) (Int.ediv_nonneg h0 (Int.le_of_lt hD))
    omega
  rw [roundF64_small]
  · omega
  · have : ((num % ((2 ^ k : Nat) : Int)).toNat : Int) < 2 ^ 53 := by omega
    exact_mod_cast this

/-- end to end for non-negative timestamps: the value read back (when there is
no carry, by `date_roundtrip_f64_partial`; with the patch always) is within
half a nanosecond of the exact value of the f64 -/
theorem roundedNanos_close (num : Int) (k : Nat) (h0 : 0 ≤ num) (h53 : num < 2 ^ 53) :
    2 * (roundedNanos num k * ((2 ^ k : Nat) : Int) - num * 1000000000).natAbs ≤ 2 ^ k := by
  have hex := fracF64_exact num k h0 h53
  obtain ⟨c1, c2⟩ := fracUnits_close num k
  have e := Int.mul_ediv_add_emod num ((2 ^ k : Nat) : Int)
  unfold roundedNanos
  rw [← hex] at e
  generalize fracUnits num k = U at *
  generalize fracF64 num k = n at *
  generalize 2 ^ k = D at *
  generalize num / (D : Int) = fl at *
  rw [← e]
  have h : (fl * 1000000000 + (U : Int)) * (D : Int) - ((D : Int) * fl + (n : Int)) * 1000000000
      = (U : Int) * D - (n : Int) * 1000000000 := by
    rw [Int.add_mul, Int.add_mul, Int.mul_right_comm fl 1000000000 (D : Int), Int.mul_comm (D : Int) fl]
    omega
  rw [h]
  rw [← Int.natCast_mul]
  generalize U * D = A at *
  omega

/-- t = 2097152.9999999995 (= 4503601774854143 / 2^31): printed with fraction
`.000000000` in second 2097152, read back as 2097152.0 — one second is lost -/
theorem date_f64_witness_carry :
    fracUnits 4503601774854143 31 = 1000000000 ∧
    unpackHighres (formatHighresF64 4503601774854143 31 0) = .ok (2097152000000000, 0) ∧
    unpackHighres (formatHighresF64Carry 4503601774854143 31 0) = .ok (2097153000000000, 0) := by
  decide +kernel

/-- t = 0.9999999996 (= 140737488299033 / 2^47) is read back as 0.0 -/
theorem date_f64_witness_carry_small :
    unpackHighres (formatHighresF64 140737488299033 47 0) = .ok (0, 0) := by
  decide +kernel

/-- t = −1e-20: `t - t.floor()` is already 1.0 in f64 (IEEE rounding of 1 − 1e-20); read back as −1.0 -/
theorem date_f64_witness_tiny_negative :
    fracF64 (-6646139978924579) 119 = 2 ^ 119 ∧
    unpackHighres (formatHighresF64 (-6646139978924579) 119 0) = .ok (-1000000000, 0) := by
  decide +kernel

/-- non-vacuity of `date_roundtrip_f64_partial`: t = −0.3 at offset +05:30, and a 9-digit tie (1/1024, ties to even) -/
example : fracUnits (-5404319552844595) 54 = 700000000 ∧
    inRange (-5404319552844595 / ((2 ^ 54 : Nat) : Int) + 19800) = true := by decide +kernel
example : fracUnits 1 10 = 976562 ∧ fracUnits 3 10 = 2929688 := by decide +kernel
/-- non-vacuity of `fracF64_exact` / of the hypotheses of `date_f64_carry_loses_second` -/
example : (0 : Int) ≤ 4503601774854143 ∧ (4503601774854143 : Int) < 2 ^ 53 ∧
    inRange (4503601774854143 / ((2 ^ 31 : Nat) : Int) + 0) = true := by decide +kernel

end BreezyVerif.C47
