"""bzr (2a dirstate) working tree: a committed file is moved out of its directory, the directory is then removed from
versioning (remove --keep; it stays on disk): revert() raises DuplicateKey.

  mkdir e; echo u > e/a; add; commit; rename_one e/a d; remove(['e'], keep_files=True); revert()

Run: /venv/bin/python repro_bzr_revert_duplicate_key.py   (exit 1 = defect present)
"""
import os, sys, tempfile, traceback
REPO = os.environ.get("VERIF_REPO", "/repo")
sys.path.insert(0, REPO)
base = tempfile.mkdtemp(prefix="c09-repro-", dir="/var/tmp/imp-C09")
os.environ["HOME"] = base
os.environ["BRZ_HOME"] = base
os.environ["BRZ_EMAIL"] = "T <t@example.com>"
import breezy
breezy.initialize()
import breezy.bzr  # noqa
from breezy.controldir import ControlDir, format_registry


def run(keep):
    d = tempfile.mkdtemp(prefix="wt-", dir=base)
    wt = ControlDir.create_standalone_workingtree(d, format=format_registry.make_controldir("2a"))
    os.mkdir(os.path.join(d, "e"))
    open(os.path.join(d, "e", "a"), "w").write("u")
    wt.add(["e", "e/a"])
    wt.commit("one")
    wt.rename_one("e/a", "d")
    wt.remove(["e"], keep_files=keep, force=not keep)
    try:
        wt.revert(backups=False)
    except BaseException as e:
        print("keep_files=%s: revert RAISED" % keep, type(e).__name__, e)
        traceback.print_exc(limit=-6)
        return False
    with wt.lock_read():
        paths = sorted(wt.all_versioned_paths())
        ch = [c.path for c in wt.iter_changes(wt.basis_tree())]
    print("keep_files=%s:" % keep, "versioned:", paths, "status:", ch)
    return paths == ["", "e", "e/a"] and not ch


ok = [run(False), run(True)]
sys.exit(0 if all(ok) else 1)
