import BreezyVerif.Props.C12
import BreezyVerif.Generated.C12
/-! C12 — T1 tie.  `Generated/C12.lean` holds, translated from the AST of
`breezy/transform.py:_alter_files` on every run, the `keep_content` computation
(`sourceKeepContent`), the dispatch on the working file (`sourceRevertAction`) and the
variant flag of the `basis_path is None` branch (`sourceFlags`).  Here they are proved
equal, for all inputs, to the model the theorems of Props/C12 are about, and the property is
restated for the source's own functions — a source change that alters the decision (e.g. a
return to the variant that deletes content absent from the basis) makes this file fail. -/
namespace BreezyVerif.C12

/-- the `basis_path is None` branch found in the source is the keeping variant -/
theorem source_flags_fixed : sourceFlags = fixedFlags := by decide

/-- `keep_content` as computed by the source = the model's `keepContent`, for every input -/
theorem source_keep_content_eq (i : RevertIn) : sourceKeepContent i = keepContent fixedFlags i := by
  obtain ⟨cc, wk, bk, tk, tv, mm, bp, bi⟩ := i
  cases wk <;> cases bk <;> cases tk <;> cases mm <;> cases bp <;> cases bi <;>
    first | rfl | (rename_i k; cases k <;> first | rfl | (rename_i k2; cases k2 <;> rfl))

/-- the dispatch of the source (nothing / delete / backup-and-replace / keep in place) = the
model's `revertAction`, for every input -/
theorem source_revert_action_eq (i : RevertIn) : sourceRevertAction i = revertAction fixedFlags i := by
  have hk := source_keep_content_eq i
  obtain ⟨cc, wk, bk, tk, tv, mm, bp, bi⟩ := i
  simp only [sourceRevertAction, revertAction, hk]
  cases cc <;> cases wk <;> cases tk <;> simp <;> split <;> simp_all

/-- **revert keeps user content, for the source's own decision**: a user-edited working file is
never handed to `tt.delete_contents` by a revert with backups -/
theorem revert_keeps_user_content_source (i : RevertIn) (hu : userEdited i = true) (hb : i.backups = true) :
    sourceRevertAction i ≠ .deleteContents := by
  rw [source_revert_action_eq]
  have h := revert_keeps_user_content i hu hb
  intro ha
  simp [revertFate, ha] at h

/-- the directory-level statement for the flags found in the source -/
theorem revert_dir_keeps_user_bytes_source {β : Type} (i : RevertIn) (d : Listing β) (name : String) (c new : β)
    (hu : userEdited i = true) (hb : i.backups = true) (h : (name, c) ∈ d) :
    ∃ d', revertDir sourceFlags i d name new = some d' ∧ c ∈ contents d' ∧ (∀ e ∈ d, e.1 ≠ name → e ∈ d') := by
  rw [source_flags_fixed]
  exact revert_dir_keeps_user_bytes i d name c new hu hb h

end BreezyVerif.C12
