import BreezyVerif.Common
import BreezyVerif.Model.C46World
/-
C46 driver.

  clean <fmt B|G> <opts> <layout>
     opts   = 6 characters: unknown ignored detritus dry_run (T|F each), the
              prompt (`~` not asked, T|F the answer) and which nested-control-dir
              filter the tree implements (`o` as found, `x` the proposed repair)
     layout = entries joined by `;` (parents before children, `-` = empty), entry =
              `<path>|<kind f|d|D|l>|<flags>`; path = names joined by `/`;
              D = link to a directory, l = other link;
              flags = versioned ignored valid helper (T|F each)
     reply  = `<extras> <selected> <raised T|F> <surviving paths> <dirs ControlDir.open accepts>`
              (each a sorted list of paths joined by `;`, `-` = empty)
  cleanw <fmt> <opts> <layout> <outside> <targets>
     the same run on the file-system refinement (`Model/C46World.lean`: per-kind
     primitives, path resolution through links, dry-run test inside delete_items)
     outside = layout of the observed area outside the tree (same encoding)
     targets = `<link path>><outside path>` joined by `;` (`-` = none): the links
               to directories of the tree that point into the outside area
     reply  = the five fields of `clean`, then `<surviving outside paths>` and three
              characters: layout is wf / unvClosed / invShaped (T|F each)
  det <hex>      is_detritus of the latin-1 string → T|F
  ctl <hex>      controldir.is_control_filename of the latin-1 name (no `/`) → T|F
-/
namespace BreezyVerif.C46

def parsePath (s : String) : Option Path :=
  (s.splitOn "/").mapM fun c => if c.isEmpty then none else some c

def parseKind (s : String) : Option Kind :=
  if s == "f" then some .file else if s == "d" then some .dir
  else if s == "D" then some .linkDir else if s == "l" then some .linkFile else none

def parseBools (s : String) : Option (List Bool) :=
  s.toList.mapM fun c => if c == 'T' then some true else if c == 'F' then some false else none

def parseEntry (s : String) : Option (Path × Info) :=
  match s.splitOn "|" with
  | [p, k, fl] =>
    match parsePath p, parseKind k, parseBools fl with
    | some p, some k, some [v, ig, va, h] =>
      match p.getLast? with
      | some n => some (p, { name := n, kind := k, versioned := v, ignored := ig, valid := va, helper := h })
      | none => none
    | _, _, _ => none
  | _ => none

def parseLayout (s : String) : Option Forest :=
  if s == "-" then some .nil else
  (s.splitOn ";").foldlM (fun f e => do
    let (p, i) ← parseEntry e
    insert f p i) .nil

def showPaths (ps : List Path) : String :=
  let l := (ps.map joinPath).mergeSort (fun a b => decide (a ≤ b))
  if l.isEmpty then "-" else ";".intercalate l

def parseOpts (s : String) : Option (Opts × Filter) :=
  match s.toList with
  | [u, i, d, r, p, x] =>
    match parseBools (String.ofList [u, i, d, r]),
          (if x == 'o' then some Filter.asFound else if x == 'x' then some Filter.fixed else none) with
    | some [u, i, d, r], some flt =>
      let o : Opts := { unknown := u, ignored := i, detritus := d, dryRun := r }
      if p == '~' then some (o, flt)
      else if p == 'T' then some ({ o with prompt := some true }, flt)
      else if p == 'F' then some ({ o with prompt := some false }, flt)
      else none
    | _, _ => none
  | _ => none

def parseFmt (s : String) : Option Fmt :=
  if s == "B" then some .bzr else if s == "G" then some .git else none

def parseTargets (s : String) : Option (List (Path × Path)) :=
  if s == "-" then some [] else
  (s.splitOn ";").mapM fun e =>
    match e.splitOn ">" with
    | [a, b] => do
      let a ← parsePath a
      let b ← parsePath b
      pure (a, b)
    | _ => none

def handle : List String → String
  | ["cleanw", fmt, opts, layout, outside, targets] =>
    match parseFmt fmt, parseOpts opts, parseLayout layout, parseLayout outside, parseTargets targets with
    | some fmt, some (o, flt), some f, some out, some tg =>
      let keep := keepOf flt f
      let w : World := { tree := f, outside := out, targets := tg }
      let r := cleanTreeW keep fmt o w
      s!"{showPaths ((extras fmt f).map (·.path))} {showPaths ((selectedWith keep fmt o f).map (·.path))} {showBool r.2} {showPaths r.1.tree.paths} {showPaths (nestedRoots f)} {showPaths r.1.outside.paths} {showBool f.wf}{showBool f.unvClosed}{showBool (invShaped f)}"
    | _, _, _, _, _ => "bad-op"
  | ["clean", fmt, opts, layout] =>
    match parseFmt fmt, parseOpts opts, parseLayout layout with
    | some fmt, some (o, flt), some f =>
      let keep := keepOf flt f
      let r := cleanTreeWith keep fmt o f
      s!"{showPaths ((extras fmt f).map (·.path))} {showPaths ((selectedWith keep fmt o f).map (·.path))} {showBool r.2} {showPaths r.1.paths} {showPaths (nestedRoots f)}"
    | _, _, _ => "bad-op"
  | ["det", h] =>
    match fromHex h with
    | some b => showBool (isDetritus (String.ofList (b.map fun x => Char.ofNat x.toNat)))
    | none => "bad-op"
  | ["ctl", h] =>
    match fromHex h with
    | some b => showBool (isCtlName (String.ofList (b.map fun x => Char.ofNat x.toNat)))
    | none => "bad-op"
  | _ => "bad-op"

end BreezyVerif.C46

def main : IO Unit := BreezyVerif.runDriver BreezyVerif.C46.handle
