import BreezyVerif.Model.C21
import BreezyVerif.Lemmas.C21F
/-!
C21 — theorems.  Every well-formed revision graph (any size, merges, several
roots, ghosts), every pair of tips (`null:` included), every stop revision,
overwrite flag, append-only setting, bound master, and every finite sequence of
pull/push operations over any number of branches.

`wf g` (the graph is listed children-first, i.e. it is a DAG) is the only
hypothesis on graphs; `requested src stop = some (s, rn)` names the revision
`_update_revisions` is asked to move to (`stop_revision`, or the source tip).
-/
namespace BreezyVerif.C21

/-! ### ancestry is a partial order -/

theorem isAnc_refl (g : Graph) (t : Tip) : isAnc g t t = true := isAnc_refl' g t

theorem isAnc_antisymm (g : Graph) (hwf : wf g = true) (a b : Tip)
    (h1 : isAnc g a b = true) (h2 : isAnc g b a = true) : a = b := isAnc_antisymm' g hwf a b h1 h2

theorem isAnc_trans (g : Graph) (hwf : wf g = true) (a b c : Tip)
    (h1 : isAnc g a b = true) (h2 : isAnc g b c = true) : isAnc g a c = true :=
  isAnc_trans' g hwf a b c h1 h2

example : wf [(4, [2, 3, 100]), (3, [1]), (2, [1]), (1, [])] = true := by decide
example : isAnc [(4, [2, 3, 100]), (3, [1]), (2, [1]), (1, [])] (some 1) (some 4) = true ∧
    isAnc [(4, [2, 3, 100]), (3, [1]), (2, [1]), (1, [])] (some 2) (some 3) = false := by decide

/-! ### classification -/

/-- `_revision_relations` never reaches its `AssertionError` branch: on a DAG
the heads of two revisions are always one of `{b}`, `{a, b}`, `{a}`. -/
theorem relations_total (g : Graph) (hwf : wf g = true) (a b : Tip) :
    revisionRelations (heads g [a, b]) a b ≠ .invalid := by
  cases h1 : isAnc g a b
  · cases h2 : isAnc g b a
    · rw [relation_diverged g a b h1 h2]; simp
    · rw [relation_descends g a b h1 h2]; simp
  · rw [relation_contained g hwf a b h1]; simp

/-- The target already contains the requested revision (it is the tip or an
ancestor of the tip): nothing changes and no error is raised. -/
theorem update_contained (g : Graph) (hwf : wf g = true) (src tgt : Br) (stop : Option Tip)
    (s : Tip) (rn : Option Nat) (hreq : requested src stop = some (s, rn))
    (hp : tipPresent g s = true) (h : isAnc g s tgt.tip = true) :
    updateRevisions g src tgt stop false = .ok tgt := by
  rw [update_eq_spec g hwf, hreq]
  simp [updateSpec, hp, h]

/-- Neither contains the other: `DivergedBranches`. (The tip is unchanged
because an error carries no new state: see `update_error_unchanged`.) -/
theorem update_diverged (g : Graph) (hwf : wf g = true) (src tgt : Br) (stop : Option Tip)
    (s : Tip) (rn : Option Nat) (hreq : requested src stop = some (s, rn))
    (hp : tipPresent g s = true) (h1 : isAnc g s tgt.tip = false) (h2 : isAnc g tgt.tip s = false) :
    updateRevisions g src tgt stop false = .error .diverged := by
  rw [update_eq_spec g hwf, hreq]
  simp [updateSpec, hp, h1, h2]

/-- The requested revision properly descends from the tip: the tip moves to it
and the recorded revno is the length of its left-hand history — provided that
length exists (no ghost on the left-hand side), both branches record correct
revnos and the target is not append-only (for which see `append_only`). -/
theorem update_descends (g : Graph) (hwf : wf g = true) (src tgt : Br) (stop : Option Tip)
    (s : Tip) (rn : Option Nat) (hreq : requested src stop = some (s, rn))
    (hp : tipPresent g s = true) (h1 : isAnc g tgt.tip s = true) (hne : s ≠ tgt.tip)
    (hao : tgt.appendOnly = false) (hs : revnoOK g src = true) (ht : revnoOK g tgt = true)
    (n : Nat) (hn : revnoOf g s = some n) :
    updateRevisions g src tgt stop false = .ok { tgt with tip := s, revno := n } := by
  have h2 : isAnc g s tgt.tip = false := by
    cases hh : isAnc g s tgt.tip
    · rfl
    · exact absurd (isAnc_antisymm' g hwf _ _ hh h1) hne
  rw [update_eq_spec g hwf, hreq]
  simp only [updateSpec, hp, h1, h2, Bool.not_true, Bool.not_false, Bool.false_eq_true, if_false,
    Bool.and_false]
  cases stop with
  | none =>
    -- the revno is the one recorded by the source
    obtain ⟨h3, h4⟩ := requested_none src s rn hreq
    subst h4
    rw [revnoOK_iff, ← h3, hn] at hs
    simp only [Option.some.injEq] at hs
    simp only
    rw [setLast_free g tgt _ _ hao, hs]
  | some s' =>
    obtain ⟨_, h4⟩ := requested_some src s' s rn hreq
    subst h4
    simp only
    rw [distTip_complete g hwf src tgt hs ht s n hn]
    exact setLast_free g tgt _ _ hao

/-- With overwrite the tip becomes the requested revision whatever the
relation between the two (same side conditions as `update_descends`). -/
theorem overwrite_sets (g : Graph) (hwf : wf g = true) (src tgt : Br) (stop : Option Tip)
    (s : Tip) (rn : Option Nat) (hreq : requested src stop = some (s, rn))
    (hp : tipPresent g s = true)
    (hao : tgt.appendOnly = false) (hs : revnoOK g src = true) (ht : revnoOK g tgt = true)
    (n : Nat) (hn : revnoOf g s = some n) :
    updateRevisions g src tgt stop true = .ok { tgt with tip := s, revno := n } := by
  rw [update_eq_spec g hwf, hreq]
  simp only [updateSpec, hp, Bool.not_true, Bool.false_eq_true, if_false, Bool.false_and]
  cases stop with
  | none =>
    obtain ⟨h3, h4⟩ := requested_none src s rn hreq
    subst h4
    rw [revnoOK_iff, ← h3, hn] at hs
    simp only [Option.some.injEq] at hs
    simp only
    rw [setLast_free g tgt _ _ hao, hs]
  | some s' =>
    obtain ⟨_, h4⟩ := requested_some src s' s rn hreq
    subst h4
    simp only
    rw [distTip_complete g hwf src tgt hs ht s n hn]
    exact setLast_free g tgt _ _ hao

-- non-vacuity of the hypotheses of the four classification theorems
def exG : Graph := [(4, [2, 3, 100]), (3, [1]), (2, [1]), (1, [])]
def exSrc : Br := { tip := some 4, revno := 3 }
def exTgt : Br := { tip := some 2, revno := 2 }
example : wf exG = true ∧ tipPresent exG (some 4) = true ∧
    isAnc exG exTgt.tip (some 4) = true ∧ revnoOK exG exSrc = true ∧ revnoOK exG exTgt = true ∧
    isAnc exG (some 3) exTgt.tip = false ∧ isAnc exG exTgt.tip (some 3) = false := by decide
example : requested exSrc none = some (some 4, some 3) := rfl
example : revnoOf exG (some 4) = some 3 := rfl
example : updateRevisions exG exSrc exTgt none false = .ok { tip := some 4, revno := 3 } := rfl
example : updateRevisions exG exSrc exTgt (some (some 3)) false = .error .diverged := rfl
example : updateRevisions exG exSrc exTgt (some (some 1)) false = .ok exTgt := rfl
example : updateRevisions exG exSrc exTgt (some (some 3)) true = .ok { tip := some 3, revno := 2 } := rfl

/-! ### errors leave the target alone -/

/-- Whatever exception a pull or push ends with, the target branch's tip,
revno and settings are exactly what they were (a bound target's master may
already have been updated: the master is updated first). -/
theorem update_error_unchanged (g : Graph) (src tgt : Br) (m : Option Br) (stop : Option Tip) (ow : Bool) :
    ((pullOp g src tgt m stop ow).err ≠ none → (pullOp g src tgt m stop ow).tgt = tgt) ∧
    ((pushOp g src tgt m stop ow).err ≠ none → (pushOp g src tgt m stop ow).tgt = tgt) :=
  ⟨bound2_err_unchanged _ tgt m, bound2_err_unchanged _ tgt m⟩

/-! ### the title: history is never dropped -/

/-- Without overwrite, whatever `_update_revisions` accepts has the old tip as
an ancestor (or is the old tip): for ALL stop revisions, source states,
append-only settings, with or without ghosts. -/
theorem no_overwrite_never_drops (g : Graph) (hwf : wf g = true) (src tgt : Br) (stop : Option Tip)
    (t' : Br) (h : updateRevisions g src tgt stop false = .ok t') :
    isAnc g tgt.tip t'.tip = true := by
  rw [update_eq_spec g hwf] at h
  cases hreq : requested src stop with
  | none => rw [hreq] at h; cases h; exact isAnc_refl' g _
  | some p =>
    obtain ⟨s, rn⟩ := p
    rw [hreq] at h
    simp only [updateSpec, Bool.not_false, Bool.true_and] at h
    split at h
    · cases h
    · split at h
      · cases h; exact isAnc_refl' g _
      · split at h
        · cases h
        · rename_i hd
          have hd' : isAnc g tgt.tip s = true := by simpa using hd
          have key : ∀ n, setLast g tgt n s = .ok t' → isAnc g tgt.tip t'.tip = true := by
            intro n hs
            rw [setLast_ok g tgt n s t' hs]
            exact hd'
          cases rn with
          | some n => exact key n h
          | none =>
            simp only at h
            split at h
            · cases h
            · exact key _ h

/-- Same for whole pull / push operations, for the target and for the master
of a bound target. -/
theorem push_pull_never_drop (g : Graph) (hwf : wf g = true) (src tgt : Br) (m : Option Br)
    (stop : Option Tip) :
    (isAnc g tgt.tip (pullOp g src tgt m stop false).tgt.tip = true ∧
      ∀ mb, m = some mb → ∃ mb', (pullOp g src tgt m stop false).master = some mb' ∧
        isAnc g mb.tip mb'.tip = true) ∧
    (isAnc g tgt.tip (pushOp g src tgt m stop false).tgt.tip = true ∧
      ∀ mb, m = some mb → ∃ mb', (pushOp g src tgt m stop false).master = some mb' ∧
        isAnc g mb.tip mb'.tip = true) := by
  constructor
  · exact bound2_pres (fun b b' => isAnc g b.tip b'.tip = true) (fun b => isAnc_refl' g _) _
      (fun b b' h => no_overwrite_never_drops g hwf src b stop b' h) tgt m
  · apply bound2_pres (fun b b' => isAnc g b.tip b'.tip = true) (fun b => isAnc_refl' g _)
    intro b b' h
    unfold basicPush at h
    split at h
    · cases h; exact isAnc_refl' g _
    · exact no_overwrite_never_drops g hwf src b stop b' h

/-! ### revno = length of the left-hand history -/

/-- If source and target record correct revnos, so does the target after any
accepted update (any stop revision, overwrite or not, append-only or not). -/
theorem revno_is_lefthand_length (g : Graph) (hwf : wf g = true) (src tgt : Br) (stop : Option Tip)
    (ow : Bool) (hs : revnoOK g src = true) (ht : revnoOK g tgt = true)
    (t' : Br) (h : updateRevisions g src tgt stop ow = .ok t') : revnoOK g t' = true := by
  rw [update_eq_spec g hwf] at h
  cases hreq : requested src stop with
  | none => rw [hreq] at h; cases h; exact ht
  | some p =>
    obtain ⟨s, rn⟩ := p
    rw [hreq] at h
    simp only [updateSpec] at h
    split at h
    · cases h
    · rename_i hp
      have hp' : tipPresent g s = true := by simpa using hp
      split at h
      · cases h; exact ht
      · split at h
        · cases h
        · cases stop with
          | none =>
            obtain ⟨h3, h4⟩ := requested_none src s rn hreq
            subst h4
            simp only at h
            rw [setLast_ok g tgt _ _ t' h, revnoOK_iff]
            rw [revnoOK_iff, ← h3] at hs
            exact hs
          | some s' =>
            obtain ⟨_, h4⟩ := requested_some src s' s rn hreq
            subst h4
            simp only at h
            split at h
            · cases h
            · rename_i n hd
              rw [setLast_ok g tgt _ _ t' h, revnoOK_iff]
              exact distTip_correct g hwf src tgt hs ht s hp' n hd

example : revnoOK exG exSrc = true := by decide

/-! ### append-only -/

/-- With append-only enabled, an update (overwrite or not) that moves the tip
only moves it to a revision whose left-hand chain contains the old tip. -/
theorem append_only (g : Graph) (hwf : wf g = true) (src tgt : Br) (stop : Option Tip) (ow : Bool)
    (hao : tgt.appendOnly = true) (t' : Br) (h : updateRevisions g src tgt stop ow = .ok t') :
    t' = tgt ∨ tgt.tip = none ∨ ∃ o r, tgt.tip = some o ∧ t'.tip = some r ∧ o ∈ lhChain g r := by
  rw [update_eq_spec g hwf] at h
  cases hreq : requested src stop with
  | none => rw [hreq] at h; cases h; exact Or.inl rfl
  | some p =>
    obtain ⟨s, rn⟩ := p
    rw [hreq] at h
    simp only [updateSpec] at h
    have key : ∀ n, setLast g tgt n s = .ok t' →
        t' = tgt ∨ tgt.tip = none ∨ ∃ o r, tgt.tip = some o ∧ t'.tip = some r ∧ o ∈ lhChain g r := by
      intro n hs
      right
      rcases setLast_append_only g tgt n s t' hao hs with h0 | ⟨o, r, h1, h2, h3⟩
      · exact Or.inl h0
      · right
        refine ⟨o, r, h1, ?_, h3⟩
        rw [setLast_ok g tgt n s t' hs]
        exact h2
    split at h
    · cases h
    · split at h
      · cases h; exact Or.inl rfl
      · split at h
        · cases h
        · cases rn with
          | some n => exact key n h
          | none =>
            simp only at h
            split at h
            · cases h
            · exact key _ h

-- an append-only target rejects an overwrite to a sibling and accepts a left-hand descendant
example : updateRevisions exG exSrc { tip := some 2, revno := 2, appendOnly := true } (some (some 3)) true
    = .error .appendOnly := rfl
example : updateRevisions exG exSrc { tip := some 3, revno := 2, appendOnly := true } none false
    = .error .appendOnly := rfl
example : updateRevisions exG exSrc { tip := some 2, revno := 2, appendOnly := true } none false
    = .ok { tip := some 4, revno := 3, appendOnly := true } := rfl

/-! ### sequences of operations over any number of branches -/

/-- **Invariant.** Starting from branches that all record correct revnos,
every state reachable by any finite sequence of pulls and pushes (any stop
revisions, overwrite flags, bound masters, append-only settings; failing
operations included) records, for every branch, a revno equal to the length of
its tip's left-hand history. -/
theorem run_revno_invariant (g : Graph) (hwf : wf g = true) (ops : List Op) :
    ∀ (s : List Br), (∀ b ∈ s, revnoOK g b = true) → ∀ b ∈ run g s ops, revnoOK g b = true := by
  induction ops with
  | nil => intro s h b hb; exact h b hb
  | cons op ops ih =>
    intro s h
    have hstep : ∀ b ∈ step g s op, revnoOK g b = true := by
      intro b' hb'
      let R : Br → Br → Prop := fun b b' => revnoOK g b = true → revnoOK g b' = true
      have hpt := step_pointwise R (fun _ h => h) g s op (by
        intro isPull src tgt m stop hsrc
        have hs := h src hsrc
        cases isPull
        · apply bound2_pres R (fun _ h => h)
          intro b b'' hb hq
          unfold basicPush at hb
          split at hb
          · cases hb; exact hq
          · exact revno_is_lefthand_length g hwf src b stop _ hs hq b'' hb
        · apply bound2_pres R (fun _ h => h)
          intro b b'' hb hq
          exact revno_is_lefthand_length g hwf src b stop _ hs hq b'' hb)
      obtain ⟨b, hb, hR⟩ := mem_step_of g s op b' hb' R hpt (step_length g s op)
      exact hR (h b hb)
    exact ih (step g s op) hstep

/-- **No history is ever dropped.** After any finite sequence of pulls and
pushes none of which overwrites, every branch's tip has that branch's original
tip as an ancestor (or is still the original tip) — whichever operations
failed, whatever masters were involved. -/
theorem run_never_drops (g : Graph) (hwf : wf g = true) (ops : List Op) :
    (∀ op ∈ ops, op.ow = false) → ∀ (s : List Br) (i : Nat) (b : Br), s[i]? = some b →
      ∃ b', (run g s ops)[i]? = some b' ∧ isAnc g b.tip b'.tip = true := by
  induction ops with
  | nil => intro _ s i b hb; exact ⟨b, hb, isAnc_refl' g _⟩
  | cons op ops ih =>
    intro hno s i b hb
    have how : op.ow = false := hno op (by simp)
    let R : Br → Br → Prop := fun b b' => isAnc g b.tip b'.tip = true
    obtain ⟨b1, hb1, h1⟩ := step_pointwise R (fun _ => isAnc_refl' g _) g s op (by
      intro isPull src tgt m stop _
      rw [how]
      cases isPull
      · exact (push_pull_never_drop g hwf src tgt m stop).2
      · exact (push_pull_never_drop g hwf src tgt m stop).1) i b hb
    obtain ⟨b2, hb2, h2⟩ := ih (fun op' h' => hno op' (by simp [h'])) (step g s op) i b1 hb1
    exact ⟨b2, hb2, isAnc_trans' g hwf _ _ _ h1 h2⟩

example : (run exG [exSrc, exTgt, { tip := some 3, revno := 2 }]
    [.pull 0 1 none none false, .push 2 1 none none false, .pull 0 2 (some 1) none true]).map (·.tip)
    = [some 4, some 4, some 4] := rfl

/-! ### append-only targets: the positive half, and operation sequences -/

/-- The requested revision has the target's tip **on its left-hand history**
(or the target has no tip yet): the update is accepted and the tip moves to it
with the right revno — whatever the append-only setting of the target.  This is
the positive counterpart of `append_only` (and `update_descends` for
append-only targets). -/
theorem update_descends_append_only (g : Graph) (hwf : wf g = true) (src tgt : Br) (stop : Option Tip)
    (s : Tip) (rn : Option Nat) (hreq : requested src stop = some (s, rn))
    (hp : tipPresent g s = true) (hne : s ≠ tgt.tip)
    (hchain : tgt.tip = none ∨ ∃ o r l, tgt.tip = some o ∧ s = some r ∧ lefthand g r = some l ∧ o ∈ l)
    (hs : revnoOK g src = true) (ht : revnoOK g tgt = true)
    (n : Nat) (hn : revnoOf g s = some n) :
    updateRevisions g src tgt stop false = .ok { tgt with tip := s, revno := n } := by
  have h1 : isAnc g tgt.tip s = true := by
    rcases hchain with h0 | ⟨o, r, l, ho, hr, hl, hol⟩
    · rw [h0]; rfl
    · rw [ho, hr, isAnc_some]; exact lefthand_sub_anc g r l hl o hol
  have h2 : isAnc g s tgt.tip = false := by
    cases hh : isAnc g s tgt.tip
    · rfl
    · exact absurd (isAnc_antisymm' g hwf _ _ hh h1) hne
  rw [update_eq_spec g hwf, hreq]
  simp only [updateSpec, hp, h1, h2, Bool.not_true, Bool.not_false, Bool.false_eq_true, if_false,
    Bool.and_false]
  cases stop with
  | none =>
    obtain ⟨h3, h4⟩ := requested_none src s rn hreq
    subst h4
    rw [revnoOK_iff, ← h3, hn] at hs
    simp only [Option.some.injEq] at hs
    simp only
    rw [setLast_accepts g tgt _ _ (fun _ => hchain), hs]
  | some s' =>
    obtain ⟨_, h4⟩ := requested_some src s' s rn hreq
    subst h4
    simp only
    rw [distTip_complete g hwf src tgt hs ht s n hn]
    exact setLast_accepts g tgt _ _ (fun _ => hchain)

/-- the same with overwrite: an append-only target accepts an overwrite exactly
along its left-hand history -/
theorem overwrite_sets_append_only (g : Graph) (hwf : wf g = true) (src tgt : Br) (stop : Option Tip)
    (s : Tip) (rn : Option Nat) (hreq : requested src stop = some (s, rn))
    (hp : tipPresent g s = true)
    (hchain : tgt.tip = none ∨ ∃ o r l, tgt.tip = some o ∧ s = some r ∧ lefthand g r = some l ∧ o ∈ l)
    (hs : revnoOK g src = true) (ht : revnoOK g tgt = true)
    (n : Nat) (hn : revnoOf g s = some n) :
    updateRevisions g src tgt stop true = .ok { tgt with tip := s, revno := n } := by
  rw [update_eq_spec g hwf, hreq]
  simp only [updateSpec, hp, Bool.not_true, Bool.false_eq_true, if_false, Bool.false_and]
  cases stop with
  | none =>
    obtain ⟨h3, h4⟩ := requested_none src s rn hreq
    subst h4
    rw [revnoOK_iff, ← h3, hn] at hs
    simp only [Option.some.injEq] at hs
    simp only
    rw [setLast_accepts g tgt _ _ (fun _ => hchain), hs]
  | some s' =>
    obtain ⟨_, h4⟩ := requested_some src s' s rn hreq
    subst h4
    simp only
    rw [distTip_complete g hwf src tgt hs ht s n hn]
    exact setLast_accepts g tgt _ _ (fun _ => hchain)

-- non-vacuity: an append-only target at 2 accepts 4 (left-hand history 4, 2, 1)
example : lefthand exG 4 = some [4, 2, 1] := rfl
example : updateRevisions exG exSrc { tip := some 2, revno := 2, appendOnly := true } (some (some 4)) false
    = .ok { tip := some 4, revno := 3, appendOnly := true } := rfl

/-- **Append-only along operation sequences.**  After ANY finite sequence of
pulls and pushes (any stop revisions, with or without overwrite, the branch as
target or as master of a bound target, failing operations included) a branch
that was append-only is still append-only, and its tip is the original tip, or
there was no tip, or the original tip lies on the left-hand chain of the final
tip.  Since this holds from every state it holds between any two points of a
run: no operation ever moves the tip of an append-only branch to a revision
whose left-hand history lacks the previous tip. -/
theorem run_append_only (g : Graph) (hwf : wf g = true) (ops : List Op) (s : List Br) (i : Nat) (b : Br)
    (hb : s[i]? = some b) (hao : b.appendOnly = true) :
    ∃ b', (run g s ops)[i]? = some b' ∧ b'.appendOnly = true ∧
      (b'.tip = b.tip ∨ b.tip = none ∨ ∃ o r, b.tip = some o ∧ b'.tip = some r ∧ o ∈ lhChain g r) := by
  obtain ⟨b', hb', h1, h2⟩ := run_aoStep g hwf ops s i b hb
  exact ⟨b', hb', h1.trans hao, h2 hao⟩

/-- the single-operation form, for the target and the master of a bound target -/
theorem op_append_only (g : Graph) (isPull : Bool) (src tgt : Br) (m : Option Br) (stop : Option Tip) (ow : Bool) :
    AoStep g tgt (applyOp g isPull src tgt m stop ow).tgt ∧
      ∀ mb, m = some mb → ∃ mb', (applyOp g isPull src tgt m stop ow).master = some mb' ∧ AoStep g mb mb' :=
  applyOp_aoStep g isPull src tgt m stop ow

-- an append-only master (index 1) keeps its tip on the left-hand chain through a run that overwrites
example : (run exG [exSrc, { tip := some 2, revno := 2, appendOnly := true }, { tip := some 3, revno := 2 }]
    [.pull 2 1 none none true, .push 0 2 (some 1) none true, .pull 2 1 none (some (some 1)) true]).map (·.tip)
    = [some 4, some 4, some 4] := rfl

/-! ### bound targets: the classification for the pair (master, target) -/

/-- without overwrite and with the requested revision present, a bound pull and
a bound push are `_update_revisions` on the master and then on the target -/
theorem bound_eq_update (g : Graph) (hwf : wf g = true) (isPull : Bool) (src tgt m : Br) (stop : Option Tip)
    (s : Tip) (rn : Option Nat) (hreq : requested src stop = some (s, rn)) (hp : tipPresent g s = true) :
    applyOp g isPull src tgt (some m) stop false =
      bound2 (fun b => updateRevisions g src b stop false) tgt (some m) := by
  cases isPull
  · have : (fun b => basicPush g src b stop false) = (fun b => updateRevisions g src b stop false) :=
      funext (fun b => basicPush_eq_update g hwf src b stop s rn hreq hp)
    simp only [applyOp, pushOp, Bool.false_eq_true, if_false, this]
  · rfl

/-- The requested revision and the **master's** tip have diverged: the whole
operation is refused with `DivergedBranches`; neither the master nor the target
changes (the target is not even looked at). -/
theorem bound_master_diverged (g : Graph) (hwf : wf g = true) (isPull : Bool) (src tgt m : Br)
    (stop : Option Tip) (s : Tip) (rn : Option Nat) (hreq : requested src stop = some (s, rn))
    (hp : tipPresent g s = true) (h1 : isAnc g s m.tip = false) (h2 : isAnc g m.tip s = false) :
    applyOp g isPull src tgt (some m) stop false = ⟨some .diverged, tgt, some m⟩ := by
  rw [bound_eq_update g hwf isPull src tgt m stop s rn hreq hp]
  simp [bound2, update_diverged g hwf src m stop s rn hreq hp h1 h2]

/-- Master and target both contain the requested revision: nothing changes, no error. -/
theorem bound_both_contained (g : Graph) (hwf : wf g = true) (isPull : Bool) (src tgt m : Br)
    (stop : Option Tip) (s : Tip) (rn : Option Nat) (hreq : requested src stop = some (s, rn))
    (hp : tipPresent g s = true) (hm : isAnc g s m.tip = true) (ht : isAnc g s tgt.tip = true) :
    applyOp g isPull src tgt (some m) stop false = ⟨none, tgt, some m⟩ := by
  rw [bound_eq_update g hwf isPull src tgt m stop s rn hreq hp]
  simp [bound2, update_contained g hwf src m stop s rn hreq hp hm,
    update_contained g hwf src tgt stop s rn hreq hp ht]

/-- The requested revision descends from the master's tip and from the
target's tip: both move to it, both with the right revno (master first). -/
theorem bound_both_descend (g : Graph) (hwf : wf g = true) (isPull : Bool) (src tgt m : Br)
    (stop : Option Tip) (s : Tip) (rn : Option Nat) (hreq : requested src stop = some (s, rn))
    (hp : tipPresent g s = true)
    (hm1 : isAnc g m.tip s = true) (hmne : s ≠ m.tip) (hmao : m.appendOnly = false) (hmr : revnoOK g m = true)
    (ht1 : isAnc g tgt.tip s = true) (htne : s ≠ tgt.tip) (htao : tgt.appendOnly = false)
    (htr : revnoOK g tgt = true) (hs : revnoOK g src = true) (n : Nat) (hn : revnoOf g s = some n) :
    applyOp g isPull src tgt (some m) stop false =
      ⟨none, { tgt with tip := s, revno := n }, some { m with tip := s, revno := n }⟩ := by
  rw [bound_eq_update g hwf isPull src tgt m stop s rn hreq hp]
  simp [bound2, update_descends g hwf src m stop s rn hreq hp hm1 hmne hmao hs hmr n hn,
    update_descends g hwf src tgt stop s rn hreq hp ht1 htne htao hs htr n hn]

/-- **Master out of step with the target.**  The requested revision descends
from the master's tip but has diverged from the target's tip: the master HAS
MOVED to it when `DivergedBranches` is raised for the target; the target is
unchanged.  (The statement speaks about the target tip only; C23 reports the
moved master as a finding for checkouts.) -/
theorem bound_master_moves_target_diverged (g : Graph) (hwf : wf g = true) (isPull : Bool) (src tgt m : Br)
    (stop : Option Tip) (s : Tip) (rn : Option Nat) (hreq : requested src stop = some (s, rn))
    (hp : tipPresent g s = true)
    (hm1 : isAnc g m.tip s = true) (hmne : s ≠ m.tip) (hmao : m.appendOnly = false) (hmr : revnoOK g m = true)
    (ht1 : isAnc g s tgt.tip = false) (ht2 : isAnc g tgt.tip s = false)
    (hs : revnoOK g src = true) (n : Nat) (hn : revnoOf g s = some n) :
    applyOp g isPull src tgt (some m) stop false =
      ⟨some .diverged, tgt, some { m with tip := s, revno := n }⟩ := by
  rw [bound_eq_update g hwf isPull src tgt m stop s rn hreq hp]
  simp [bound2, update_descends g hwf src m stop s rn hreq hp hm1 hmne hmao hs hmr n hn,
    update_diverged g hwf src tgt stop s rn hreq hp ht1 ht2]

/-- **Master in step with the target** (same tip, revno and setting): whatever
the operation does (any stop revision, overwrite or not), master and target end
equal again — both moved to the same (tip, revno), or both untouched with the
error raised for the master. -/
theorem bound_in_step_stays (g : Graph) (isPull : Bool) (src tgt : Br) (stop : Option Tip) (ow : Bool) :
    ((applyOp g isPull src tgt (some tgt) stop ow).err = none →
      (applyOp g isPull src tgt (some tgt) stop ow).master = some (applyOp g isPull src tgt (some tgt) stop ow).tgt) ∧
    ((applyOp g isPull src tgt (some tgt) stop ow).err ≠ none →
      (applyOp g isPull src tgt (some tgt) stop ow).tgt = tgt ∧
      (applyOp g isPull src tgt (some tgt) stop ow).master = some tgt) := by
  cases isPull
  · simp only [applyOp, pushOp, bound2, Bool.false_eq_true, if_false]
    cases h : basicPush g src tgt stop ow <;> simp
  · simp only [applyOp, pullOp, bound2, if_true]
    cases h : updateRevisions g src tgt stop ow <;> simp

-- non-vacuity: master at 1, target at 3, requested revision 2 (sibling of 3): the master moves, the target refuses
example : applyOp exG true exSrc { tip := some 3, revno := 2 } (some { tip := some 1, revno := 1 }) (some (some 2)) false
    = ⟨some .diverged, { tip := some 3, revno := 2 }, some { tip := some 2, revno := 2 }⟩ := rfl
example : applyOp exG false exSrc { tip := some 1, revno := 1 } (some { tip := some 3, revno := 2 }) (some (some 2)) false
    = ⟨some .diverged, { tip := some 1, revno := 1 }, some { tip := some 3, revno := 2 }⟩ := rfl
example : applyOp exG true exSrc exTgt (some { tip := some 1, revno := 1 }) none false
    = ⟨none, { tip := some 4, revno := 3 }, some { tip := some 4, revno := 3 }⟩ := rfl

/-! ### `pull(local=True)` and pulling from the master itself -/

/-- `local=True` and `source is the master` never touch the master; `local=True`
on an unbound target is refused with nothing changed; in every case a pull
without overwrite leaves the old target tip an ancestor of the new one, and a
failing pull leaves the target as it was. -/
theorem pull_local_or_from_master (g : Graph) (hwf : wf g = true) (src tgt : Br) (m : Option Br)
    (stop : Option Tip) (ow lo sm : Bool) :
    ((lo = true ∨ sm = true) → (pullOpX g src tgt m stop ow lo sm).master = m) ∧
    (lo = true → m = none → pullOpX g src tgt m stop ow lo sm = ⟨some .localRequiresBound, tgt, none⟩) ∧
    (ow = false → isAnc g tgt.tip (pullOpX g src tgt m stop ow lo sm).tgt.tip = true) ∧
    ((pullOpX g src tgt m stop ow lo sm).err ≠ none → (pullOpX g src tgt m stop ow lo sm).tgt = tgt) := by
  refine ⟨?_, ?_, ?_, ?_⟩
  · intro h
    unfold pullOpX
    cases m with
    | none =>
      cases lo
      · have : sm = true := by simpa using h
        simp [this, pullOp, bound2]
        cases updateRevisions g src tgt stop ow <;> rfl
      · simp
    | some mb =>
      have : (lo || sm) = true := by rcases h with h | h <;> simp [h]
      simp only [Option.isNone_some, Bool.and_false, Bool.false_eq_true, if_false, this, Option.isSome_some,
        Bool.and_self, if_true]
      cases updateRevisions g src tgt stop ow <;> rfl
  · intro h1 h2
    subst h1 h2
    simp [pullOpX]
  · intro how
    subst how
    unfold pullOpX
    split
    · exact isAnc_refl' g _
    · split
      · cases h : updateRevisions g src tgt stop false with
        | ok t => exact no_overwrite_never_drops g hwf src tgt stop t h
        | error e => exact isAnc_refl' g _
      · exact (push_pull_never_drop g hwf src tgt m stop).1.1
  · intro h
    unfold pullOpX at h ⊢
    split
    · rfl
    · split
      · cases hu : updateRevisions g src tgt stop ow with
        | ok t => rename_i h1 h2; simp [h1, h2, hu] at h
        | error e => rfl
      · rename_i h1 h2
        simp only [h1, h2] at h
        exact (update_error_unchanged g src tgt m stop ow).1 h

example : pullOpX exG exSrc exTgt (some { tip := some 1, revno := 1 }) none false true false
    = ⟨none, { tip := some 4, revno := 3 }, some { tip := some 1, revno := 1 }⟩ := rfl
example : pullOpX exG exSrc exTgt none none false true false = ⟨some .localRequiresBound, exTgt, none⟩ := rfl

/-! ### git -/

/-- `breezy/git/branch.py:_update_tip` decides exactly like the generic
`_update_revisions` (which goes through `heads`): same new tip, same
divergence error; the only additional failure of the bzr side is
`GhostRevisionsHaveNoRevno` (git has no ghosts and stores no revno). -/
theorem git_agrees_with_bzr (g : Graph) (hwf : wf g = true) (src tgt : Br) (s : Tip) (ow : Bool)
    (hp : tipPresent g s = true) (hao : tgt.appendOnly = false) :
    match updateTipGit g tgt.tip s ow with
    | .ok t =>
      (∀ t', updateRevisions g src tgt (some s) ow = .ok t' → t'.tip = t) ∧
      (∀ e, updateRevisions g src tgt (some s) ow = .error e → e = .ghostRevno)
    | .error e => updateRevisions g src tgt (some s) ow = .error e := by
  rw [update_eq_spec g hwf]
  simp only [requested, updateSpec, updateTipGit, hp, Bool.not_true, Bool.false_eq_true, if_false]
  have key : ∀ (r : Except Err Br),
      r = (match distTip (seed tgt ++ seed src) g s with
        | none => .error .ghostRevno
        | some n => setLast g tgt n s) →
      (∀ t', r = .ok t' → t'.tip = s) ∧ (∀ e, r = .error e → e = .ghostRevno) := by
    intro r hr
    cases hd : distTip (seed tgt ++ seed src) g s with
    | none => rw [hd] at hr; subst hr; simp
    | some n =>
      rw [hd] at hr; subst hr
      simp only [setLast_free g tgt n s hao]
      simp
  cases ow
  · simp only [Bool.not_false, Bool.true_and, if_true]
    cases h1 : isAnc g s tgt.tip
    · cases h2 : isAnc g tgt.tip s
      · simp
      · simp only [Bool.false_eq_true, if_false, Bool.not_true]
        exact key _ rfl
    · simp
  · simp only [Bool.not_true, Bool.false_and, Bool.false_eq_true, if_false]
    exact key _ rfl

example : updateTipGit exG (some 2) (some 3) false = .error .diverged := rfl
example : updateTipGit exG (some 2) (some 4) false = .ok (some 4) := rfl

end BreezyVerif.C21
