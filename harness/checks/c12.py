"""C12 — tree-changing commands never silently discard uncommitted work.

Mechanism: breezy/transform.py:_alter_files (keep_content / backup decision of
revert), TreeTransform._available_backup_name + osutils.available_backup_name
(crates/osutils, rebuilt per run), InventoryWorkingTree.remove /
GitWorkingTree.remove (safety test for changed / unknown files),
Merge3Merger (content decision, _dump_conflicts helper files), uncommit.

T1: the branch of _alter_files for a working file whose file id is absent from
    the basis (`if basis_path is None:`) is read from the source and written to
    Generated/C12.lean as the flag `keepWhenNoBasis`; Props/C12T1.lean proves
    the flag record is one of the two variants the theorems cover.
T2: (a) revert: for every working-tree file in the scope of a generated revert
    the inputs of the keep/backup decision (wt kind, backups, target kind,
    target versioned, merge-modified hash, working hash, basis hash or "absent
    from basis") are computed from the trees through public API, the Lean model
    decides delete / backup / keep-in-place, and the fate observed after the
    real `WorkingTree.revert` (content still at a tree path / content in a new
    `.~N~` file / gone) must agree; (b) remove: the same for
    `WorkingTree.remove` with keep / force / neither; (c) backup names:
    osutils.available_backup_name (Rust) and tt._available_backup_name against
    the model for generated sets of taken names; (d) merge content decision:
    fate of THIS content for generated (base, this, other) texts against the
    model (kept / replaced by OTHER / merged / conflict helpers).
    (e) merge hashes: after every merge-like command of the two-step sequences
    `WorkingTree.merge_modified()` is compared per path with the model's rule
    (recorded iff the incoming revision changed the file's text or added it;
    never for a file it only renames or moves).
Two-step sequences (own stream, every seed, corpus/C12/seq-min-*.json first):
    a checkout / branch with uncommitted edits receives, by pull / merge
    --force / update / switch (optionally twice), revisions that rename or
    move edited files (in place, into a new or existing directory, out of a
    directory, renamed again), change other files and add files; then revert
    (all / the moved path, backups on), remove of the moved path, or a second
    merge.  User contents are tracked over the whole sequence: a content must
    stay verbatim below the tree root after every step, until a merge-like step
    merges it into a text (from then on it is "written by a merge").
Oracle: histories (bzr 2a and git trees) with modified, added, re-added,
    unknown and previously merged files; commands revert (all / selected /
    -r OLD, backups on/off), remove (keep / force / default), merge, pull,
    update, switch, uncommit.  Every content the harness wrote as a user edit
    must be found verbatim in some file below the tree root afterwards (tree,
    `.~N~` backups, `.THIS/.OTHER/.BASE`, `.moved`), or - for merge-like
    commands - every line of the edit must appear in one file (clean three-way
    merge); exceptions: the user asked to discard (revert --no-backup on
    versioned files in scope, remove --force).  uncommit: directory snapshot
    identical.

Finding repaired by a fix: commit in /repo (corpus/C12 holds the two scenarios,
run first): revert with backups deleted the content of a working file whose id
is absent from the basis but present in the revert target.

Mutants this was built against (scratch worktree with the proposed fix applied,
seed 0; o = caught by the oracle with a concrete lost content, t = by the
correspondence): keep_content when the hash EQUALS the basis (o,t);
`backups and target_kind is None` (o,t); merge_modified test inverted (o,t);
bzr remove: changed files not added to files_to_backup (o,t); git remove: the
same (o,t); bzr remove: safety scan skipped (o,t); bzr remove: rmtree of a
non-empty directory without force (o,t); backup branch of _alter_files deleting
instead of renaming (o,t); _dump_conflicts without the THIS helper (o,t);
_has_named_child ignoring the file system, so the backup name collides (t);
no-basis branch keeping content only for a versioned target (o,t);
_apply_insertions reporting renamed files in modified_paths, so that
write_modified records them as written by the merge and a later revert drops
the edit without backup (seeded by the coordinator; o,t on every seed through
the two-step sequences).  Equivalent
mutants (stay clean, by design of the code): dropping the `versioned[0] is
False` branch of remove (the `changed_content` branch covers unknown and added
files).  Harmless rewrites that stay clean: remove() using sorted(); the
keep_content condition reordered.
"""
import ast
import hashlib
import os
import random
import shutil
import sys

from vlib import env

THEOREMS = [
    "revert_keeps_user_content", "revert_keeps_user_content_partial", "revert_no_basis_witness",
    "revert_no_backup_keeps_added", "revert_deletes_only_unedited_or_on_request",
    "firstFree_sound", "firstFree_congr", "firstFree_total", "backup_name_fresh",
    "remove_safe", "remove_keep", "remove_deletes_only_clean",
    "merge_keeps_local", "merge_helper_iff", "uncommit_pure",
    "merge_records_only_written", "move_only_merge_then_revert_keeps", "merge_written_then_revert_may_discard",
]
T1_THEOREMS = ["source_flags_covered"]
RUST = ("osutils-py",)
RULE = ("scenario = (format, random two-revision history with a side branch, local state with modified / added / "
        "re-added / unknown / merged files, command with options); distinct by canonical scenario; non-trivial = "
        "at least one user-edited content is in the scope of the command")
ASSUMPTIONS = ["contents the harness writes as user edits carry unique marker lines; merge3 output for disjoint edits contains both edits"]
TRUSTED = ["whole-command composition (locking, dirstate, index) is exercised, not modelled; the model is per-file decisions"]

FILES = ["f0", "f1", "f2", "f3", "d/g0", "d/g1"]


def base_text(name, v=0):
    return "".join("%s-L%d v%d\n" % (name.replace("/", "_"), i, v if i == 2 else 0) for i in range(5))


# --------------------------------------------------------------------------
# scenario construction

def gen_scenario(seed_tuple):
    rng = random.Random(repr(tuple(seed_tuple)))
    fmt, cmd = seed_tuple[1], seed_tuple[3]
    sc = dict(id=list(seed_tuple), fmt=fmt, cmd=cmd)
    sc["files"] = [f for f in FILES if rng.random() < 0.85] or ["f0"]
    files = sc["files"]
    sc["main_mod"] = [f for f in files if rng.random() < 0.3]
    rest = [f for f in files if f not in sc["main_mod"]]
    sc["main_del"] = [rng.choice(rest)] if rest and rng.random() < 0.5 else []
    rest = [f for f in rest if f not in sc["main_del"]]
    sc["main_ren"] = [rng.choice(rest)] if rest and rng.random() < 0.3 else []
    sc["other_mod"] = [f for f in files if rng.random() < 0.4]
    sc["other_del"] = [f for f in files if f not in sc["other_mod"] and rng.random() < 0.15]
    sc["other_add"] = ["o0"] if rng.random() < 0.5 else []
    # local state
    k = [0]

    def tok(kind):
        k[0] += 1
        return "%s-%d-%d" % (kind, seed_tuple[2], k[0])
    live = [f for f in files if f not in sc["main_del"]]
    live = [(f + "r" if f in sc["main_ren"] else f) for f in live]
    sc["premerge"] = cmd in ("revert", "remove") and rng.random() < 0.25
    sc["edits"] = []
    for f in live:
        r = rng.random()
        if r < 0.25:
            sc["edits"].append([f, "top", tok("EDIT")])
        elif r < 0.45:
            sc["edits"].append([f, "bottom", tok("EDIT")])
        elif r < 0.55:
            sc["edits"].append([f, "whole", tok("EDIT")])
    sc["unknown"] = [[p, tok("UNK")] for p in ["u0", "d/u1"] if rng.random() < 0.5 and (("/" not in p) or any(x.startswith("d/") for x in live))]
    sc["added"] = [[p, tok("ADD")] for p in ["a0", "d/a1"] if rng.random() < 0.4 and (("/" not in p) or any(x.startswith("d/") for x in live))]
    # re-create a path deleted on main and version it again (same file id in bzr half of the time)
    sc["readd"] = [[f, tok("READD"), rng.random() < 0.6] for f in sc["main_del"] if rng.random() < 0.6 and (("/" not in f) or any(x.startswith("d/") for x in live))]
    # command options
    if cmd == "revert":
        sc["backups"] = rng.random() < 0.75
        sc["old"] = rng.random() < 0.5
        cand = live + [u[0] for u in sc["unknown"]] + [a[0] for a in sc["added"]] + [x[0] for x in sc["readd"]] + ["d"]
        sc["select"] = sorted(set(rng.sample(cand, rng.randint(1, min(3, len(cand)))))) if rng.random() < 0.5 else None
    elif cmd == "remove":
        sc["mode"] = rng.choice(["safe", "safe", "keep", "force"])
        cand = live + [u[0] for u in sc["unknown"]] + [a[0] for a in sc["added"]] + ["d"]
        sc["select"] = sorted(set(rng.sample(cand, rng.randint(1, min(3, len(cand))))))
    return sc


def _write(root, rel, data):
    full = os.path.join(root, rel)
    os.makedirs(os.path.dirname(full), exist_ok=True)
    with open(full, "w") as f:
        f.write(data)


def apply_edit(text, how, token):
    if how == "top":
        return token + "\n" + text
    if how == "bottom":
        return text + token + "\n"
    return token + "\nwhole " + token + "\n"


def build(sc):
    """-> dict(wt=<working tree to run the command on>, other=<branch>, rev1, rev2, user={path: content})"""
    from breezy.controldir import ControlDir
    from breezy.workingtree import WorkingTree
    fmt = sc["fmt"]
    main = env.make_tree(fmt)
    root = main.basedir
    for f in sc["files"]:
        _write(root, f, base_text(f))
    main.smart_add([root])
    rev1 = main.commit("rev1")
    # side branch from rev1
    odir = env.fresh_dir("other")
    os.rmdir(odir)
    other_cd = main.controldir.sprout(odir)
    other = other_cd.open_workingtree()
    for f in sc["other_mod"]:
        _write(odir, f, base_text(f).replace("L0 v0", "L0 other"))
    for f in sc["other_del"]:
        other.remove([f], keep_files=False, force=True)
    for f in sc["other_add"]:
        _write(odir, f, "other new\n")
        other.add([f])
    other_rev = other.commit("other") if (sc["other_mod"] or sc["other_del"] or sc["other_add"]) else other.commit("other-empty")
    # main rev2
    ids = {}
    for f in sc["main_mod"]:
        _write(root, f, base_text(f, 1))
    for f in sc["main_del"]:
        if fmt != "git":
            ids[f] = main.path2id(f)
        main.remove([f], keep_files=False, force=True)
    for f in sc["main_ren"]:
        main.rename_one(f, f + "r")
    rev2 = main.commit("rev2")
    res = dict(rev1=rev1, rev2=rev2, other_rev=other_rev, other=other.branch)
    cmd = sc["cmd"]
    wt = main
    if cmd in ("update", "switch"):
        # a lightweight checkout of main, made when main was at rev2; main advances afterwards (update)
        cdir = env.fresh_dir("co")
        os.rmdir(cdir)
        wt = main.branch.create_checkout(cdir, lightweight=True)
    elif cmd == "pull":
        # a branch of main at rev1 with local edits pulls rev2
        pdir = env.fresh_dir("pull")
        os.rmdir(pdir)
        wt = main.controldir.sprout(pdir, revision_id=rev1).open_workingtree()
    res["main"] = main
    wroot = wt.basedir
    if sc.get("premerge"):
        try:
            wt.merge_from_branch(res["other"], force=True)
        except Exception as e:
            res["premerge_error"] = type(e).__name__
    user = {}
    exists = lambda p: os.path.isfile(os.path.join(wroot, p))
    for f, how, token in sc["edits"]:
        if cmd == "pull":
            f = f[:-1] if f.endswith("r") and f[:-1] in sc["main_ren"] else f     # the rev1 name
            if not exists(f):
                continue
        if not exists(f):
            continue
        text = apply_edit(open(os.path.join(wroot, f)).read(), how, token)
        _write(wroot, f, text)
        user[f] = text
    for p, token in sc["unknown"]:
        if os.path.isdir(os.path.join(wroot, os.path.dirname(p))) and not os.path.lexists(os.path.join(wroot, p)):
            _write(wroot, p, token + "\nunknown\n")
            user[p] = token + "\nunknown\n"
    for p, token in sc["added"]:
        if os.path.isdir(os.path.join(wroot, os.path.dirname(p))) and not os.path.lexists(os.path.join(wroot, p)):
            _write(wroot, p, token + "\nadded\n")
            wt.add([p])
            user[p] = token + "\nadded\n"
    if cmd != "pull":
        for f, token, sameid in sc["readd"]:
            if os.path.isdir(os.path.join(wroot, os.path.dirname(f))) and not os.path.lexists(os.path.join(wroot, f)):
                _write(wroot, f, token + "\nre-added\n")
                try:
                    if fmt != "git" and sameid and f in ids:
                        wt.add([f], ids=[ids[f]])
                    else:
                        wt.add([f])
                except Exception:       # the id is in use (a conflict helper of the previous merge carries it)
                    wt.add([f])
                user[f] = token + "\nre-added\n"
    if cmd == "update":
        _write(root, sc["files"][0] if sc["files"][0] not in sc["main_del"] and sc["files"][0] not in sc["main_ren"] else "newmain", "main rev3\n")
        main.smart_add([root])
        res["rev3"] = main.commit("rev3")
    res["wt"] = wt
    res["user"] = user
    return res


def all_files(root, wt):
    out = {}
    for dp, dn, fn in os.walk(root):
        rel = os.path.relpath(dp, root)
        rel = "" if rel == "." else rel
        dn[:] = [d for d in dn if not wt.is_control_filename((rel + "/" + d) if rel else d)]
        for f in fn:
            r = (rel + "/" + f) if rel else f
            p = os.path.join(dp, f)
            if os.path.islink(p) or not os.path.isfile(p):
                continue
            with open(p, "rb") as fh:
                out[r] = fh.read().decode("utf-8", "replace")
    return out


def run_command(sc, b):
    from breezy.workingtree import WorkingTree
    wt = WorkingTree.open(b["wt"].basedir)
    cmd = sc["cmd"]
    err = None
    try:
        if cmd == "revert":
            with wt.lock_tree_write():
                old = wt.branch.repository.revision_tree(b["rev1"]) if sc["old"] else None
                wt.revert(filenames=sc["select"], old_tree=old, backups=sc["backups"])
        elif cmd == "remove":
            sel = [p for p in sc["select"] if os.path.lexists(os.path.join(wt.basedir, p))]
            if sel:
                wt.remove(sel, keep_files=(sc["mode"] == "keep"), force=(sc["mode"] == "force"))
        elif cmd == "merge":
            wt.merge_from_branch(b["other"], force=True)
        elif cmd == "pull":
            wt.pull(b["main"].branch)
        elif cmd == "update":
            wt.update()
        elif cmd == "switch":
            from breezy import switch
            switch.switch(wt.controldir, b["other"], force=True)
        elif cmd == "uncommit":
            from breezy.uncommit import uncommit
            uncommit(wt.branch, tree=wt)
    except Exception as e:
        import traceback
        err = "%s: %s" % (type(e).__name__, traceback.format_exc()[-400:])
    return err


# --------------------------------------------------------------------------
# per-file facts for the model (computed before the command through public API)

def sha(text):
    return hashlib.sha1(text.encode()).hexdigest()


def revert_facts(sc, b):
    """[(path, inputs-dict)] for working files in the scope of the revert"""
    from breezy.tree import InterTree
    from breezy.workingtree import WorkingTree
    wt = WorkingTree.open(b["wt"].basedir)
    out = []
    with wt.lock_read():
        basis = wt.basis_tree()
        target = wt.branch.repository.revision_tree(b["rev1"]) if sc["old"] else basis
        with basis.lock_read(), target.lock_read():
            mm = wt.merge_modified() if wt.supports_merge_modified() else {}
            for p, text in sorted(all_files(wt.basedir, wt).items()):
                if sc["select"] is not None and not any(p == s or p.startswith(s + "/") for s in sc["select"]):
                    continue
                if not wt.is_versioned(p):
                    continue        # revert works on iter_changes of versioned entries
                if sc.get("premerge") and p.endswith((".THIS", ".OTHER", ".BASE")):
                    # helper files of the earlier merge: WorkingTree.revert resolves the conflicts it
                    # reverted and that removes their helpers - not a decision of _alter_files
                    continue
                tpath = InterTree.get(target, wt).find_source_path(p)
                bpath = InterTree.get(basis, wt).find_source_path(p)
                tkind = target.kind(tpath) if tpath is not None else None
                ttext = target.get_file_text(tpath).decode() if tkind == "file" else None
                changed = (tkind != "file") or ttext != text
                btext = basis.get_file_text(bpath).decode() if bpath is not None and basis.kind(bpath) == "file" else None
                out.append((p, dict(changed=changed, backups=sc["backups"], tkind=tkind, tversioned=tpath is not None,
                                    mm=mm.get(p), wsha=wt.get_file_sha1(p), bpresent=bpath is not None,
                                    bsha=basis.get_file_sha1(bpath) if bpath is not None and basis.kind(bpath) == "file" else None,
                                    text=text)))
    return out


def fate(pre_path, text, before, after):
    """what happened to `text` that was at pre_path: 'kept' (at a tree path that is not a new backup file),
    'backup' (only in a new *.~N~ file), 'gone'"""
    holders = [p for p, t in after.items() if t == text]
    if not holders:
        return "gone"
    import re
    non_backup = [p for p in holders if not re.search(r"\.~\d+~(/|$)", p) or p in before]
    if non_backup:
        return "kept"
    return "backup"



def remove_facts(sc, b):
    """[(path, inputs, text)] for regular files at or below the selected paths"""
    from breezy.tree import InterTree
    from breezy.workingtree import WorkingTree
    wt = WorkingTree.open(b["wt"].basedir)
    out = []
    sel = [p for p in sc["select"] if os.path.lexists(os.path.join(wt.basedir, p))]
    with wt.lock_read():
        basis = wt.basis_tree()
        with basis.lock_read():
            for p, text in sorted(all_files(wt.basedir, wt).items()):
                if not any(p == s or p.startswith(s + "/") for s in sel):
                    continue
                versioned = wt.is_versioned(p)
                role = "s" if (p in sel or versioned) else "n"
                bpath = InterTree.get(basis, wt).find_source_path(p) if versioned else None
                inbasis = bpath is not None
                changed = inbasis and (basis.kind(bpath) != "file" or basis.get_file_text(bpath).decode() != text)
                out.append((p, dict(keep=sc["mode"] == "keep", force=sc["mode"] == "force", role=role, inbasis=inbasis, changed=changed), text))
    return out


def run_scenario(seed_tuple):
    """never raises (an exception object that cannot be unpickled would hang the pool)"""
    try:
        return _run_scenario(seed_tuple)
    except Exception as e:
        import traceback
        return dict(harness_error="%s: %s" % (type(e).__name__, traceback.format_exc()[-500:]), id=list(seed_tuple))


def _run_scenario(seed_tuple):
    """build, run the command on the real code, return everything the checks need (JSON-able)"""
    from breezy.workingtree import WorkingTree
    sc = gen_scenario(seed_tuple)
    b = build(sc)
    wt = WorkingTree.open(b["wt"].basedir)
    # numbered backup files that already exist (unknown user files): a new backup must not clobber them
    rng = random.Random(repr(("pre", tuple(seed_tuple))))
    for pth in sorted(b["user"]):
        if rng.random() < 0.25 and sc["cmd"] in ("revert", "remove"):
            for n in range(1, rng.randint(1, 2) + 1):
                bp = "%s.~%d~" % (pth, n)
                text = "UNK-%d-old-backup-%s\n" % (seed_tuple[2], bp.replace("/", "_"))
                _write(wt.basedir, bp, text)
                b["user"][bp] = text
    before = all_files(wt.basedir, wt)
    with wt.lock_read():
        versioned_before = sorted(wt.all_versioned_paths())
    facts = []
    if sc["cmd"] == "revert":
        facts = [(p, {k: v for k, v in f.items() if k != "text"}, f["text"]) for p, f in revert_facts(sc, b)]
    elif sc["cmd"] == "remove":
        facts = remove_facts(sc, b)
    err = run_command(sc, b)
    wt = WorkingTree.open(b["wt"].basedir)
    after = all_files(wt.basedir, wt)
    with wt.lock_read():
        versioned_after = sorted(wt.all_versioned_paths())
    res = dict(sc=sc, err=err, user=b["user"], before=before, after=after,
               versioned_before=versioned_before, versioned_after=versioned_after,
               facts=[(p, f, fate(p, t, before, after)) for p, f, t in facts], premerge_error=b.get("premerge_error"))
    dirs = set([b["main"].basedir, b["wt"].basedir])
    try:
        dirs.add(b["other"].user_transport.local_abspath("."))
    except Exception:
        pass
    for d in dirs:
        shutil.rmtree(d, ignore_errors=True)
    return res


# --------------------------------------------------------------------------
# merge mini-stream: one file, (this edit, other edit)

MERGE_EDITS = ["none", "top", "bottom", "whole", "line2"]
OTHER_EDITS = ["none", "top", "bottom", "line0", "line2", "delete", "same"]


def run_merge_case(case):
    try:
        return _run_merge_case(case)
    except Exception as e:
        import traceback
        return dict(harness_error="%s: %s" % (type(e).__name__, traceback.format_exc()[-500:]))


def _run_merge_case(case):
    """case = [fmt, this_edit, other_edit, k]"""
    from breezy.workingtree import WorkingTree
    fmt, te, oe, k = case
    main = env.make_tree(fmt)
    root = main.basedir
    base = base_text("m")
    _write(root, "m", base)
    _write(root, "keep", "keep\n")
    main.smart_add([root])
    main.commit("base")
    odir = env.fresh_dir("mo")
    os.rmdir(odir)
    other = main.controldir.sprout(odir).open_workingtree()
    token = "EDIT-m-%d" % k

    def edit(text, how, tok):
        if how == "none":
            return text
        if how == "line0":
            return text.replace("L0 v0", "L0 " + tok)
        if how == "line2":
            return text.replace("L2 v0", "L2 " + tok)
        return apply_edit(text, how, tok)
    this_text = edit(base, te, token)
    if oe == "delete":
        other.remove(["m"], keep_files=False, force=True)
        other_text = None
    elif oe == "same":
        other_text = this_text
        _write(odir, "m", other_text)
    else:
        other_text = edit(base, oe, "OTHER-%d" % k)
        _write(odir, "m", other_text)
    _write(odir, "keep", "keep other\n")
    other.commit("other")
    _write(root, "m", this_text)
    if te != "none" and rng_commit(k):
        main.commit("this")          # committed local change: merge of two committed texts
    err = None
    try:
        main.merge_from_branch(other.branch, force=True)
    except Exception as e:
        err = type(e).__name__
    wt = WorkingTree.open(root)
    after = all_files(root, wt)
    # independent account of the text merge (external library merge3)
    text_conflict = False
    if other_text is not None:
        import merge3
        m3 = merge3.Merge3(base.splitlines(True), other_text.splitlines(True), this_text.splitlines(True))
        text_conflict = any(r[0] == "conflict" for r in m3.merge_regions())
    if after.get("m") == this_text:
        f = "kept"
    elif after.get("m.THIS") == this_text:
        f = "kept" if oe == "delete" else "helper"
    elif "m" in after and token in after["m"] and te != "none" and all(l in after["m"].split("\n") for l in this_text.split("\n") if token in l):
        f = "merged"
    elif this_text in after.values():
        f = "kept"
    else:
        f = "gone"
    shutil.rmtree(root, ignore_errors=True)
    shutil.rmtree(odir, ignore_errors=True)
    return dict(fate=f, err=err, this_changed=this_text != base, other_changed=other_text is not None and other_text != base,
                other_deleted=other_text is None, same=other_text == this_text, text_conflict=text_conflict,
                after=sorted(after))


def rng_commit(k):
    return k % 3 == 0



# --------------------------------------------------------------------------
# two-step sequences: merge-like command(s) that rename / move edited files, then revert / remove / merge

SEQ_BRING = ["pull", "merge", "update", "switch"]
SEQ_FINAL = ["revert", "revert", "revert-path", "revert-path", "merge-other", "remove-path"]


def gen_sequence(seed_tuple):
    """seed_tuple = (seed, fmt, index | "min-<bring>", "seq")"""
    fmt, idx = seed_tuple[1], seed_tuple[2]
    rng = random.Random(repr(tuple(seed_tuple)))
    sc = dict(id=list(seed_tuple), fmt=fmt, cmd="seq")
    if isinstance(idx, str) and idx.startswith("min-"):
        # the minimal sequence: one edited file, the incoming revision only renames it, then revert
        sc.update(files=["f0", "f1"], bring=idx[4:], moves=[["f0", "f0r"]], mods=[], adds=[], chain=None,
                  edits=[["f0", "bottom", "EDIT-min-1"]], unknown=[], final="revert")
        return sc
    files = [f for f in FILES if rng.random() < 0.9] or ["f0"]
    sc["files"] = files
    sc["bring"] = rng.choice(SEQ_BRING)
    pool = list(files)
    rng.shuffle(pool)
    moves = []
    for f in pool[:rng.randint(1, 2)]:
        how = rng.random()
        if how < 0.4:
            new = f + "r"                                         # rename in place
        elif "/" in f:
            new = os.path.basename(f) + "m"                       # out of its directory
        else:
            new = "nd/" + f + "m" if how < 0.7 else "d/" + f + "m"   # into a new / an existing directory
        moves.append([f, new])
    sc["moves"] = moves
    moved = [m[0] for m in moves]
    sc["mods"] = [f for f in files if f not in moved and rng.random() < 0.35]      # content changed by the incoming revision
    sc["adds"] = ["inc0"] if rng.random() < 0.4 else []
    # an optional second incoming revision (chained merge-like command)
    chain = None
    if rng.random() < 0.4:
        rest = [f for f in files if f not in moved and f not in sc["mods"]]
        cm = []
        if rest and rng.random() < 0.6:
            cm.append([rest[0], rest[0] + "r2"])
        elif moves:
            cm.append([moves[0][1], moves[0][1] + "2"])            # rename the renamed file again
        chain = dict(moves=cm, mods=[f for f in sc["mods"][:1] if rng.random() < 0.5])
    sc["chain"] = chain
    k = [0]

    def tok():
        k[0] += 1
        return "EDIT-%s-%d" % (idx, k[0])
    sc["edits"] = []
    for f in files:
        p_edit = 0.85 if f in moved else 0.4 if f in sc["mods"] else 0.3
        if rng.random() < p_edit:
            sc["edits"].append([f, rng.choice(["top", "bottom", "bottom", "whole"]) if f not in sc["mods"] else "bottom", tok()])
    sc["unknown"] = [["u0", "UNK-%s-%d" % (idx, 99)]] if rng.random() < 0.4 else []
    sc["final"] = rng.choice(SEQ_FINAL)
    return sc


def _apply_incoming(main, root, moves, mods, adds, version):
    for f in mods:
        if os.path.exists(os.path.join(root, f)):
            _write(root, f, open(os.path.join(root, f)).read().replace("L%d v" % version, "L%d inc v" % version))
    for old, new in moves:
        if not os.path.exists(os.path.join(root, old)):
            continue
        d = os.path.dirname(new)
        if d and not os.path.isdir(os.path.join(root, d)):
            os.mkdir(os.path.join(root, d))
            main.add([d])
        main.rename_one(old, new)
    for f in adds:
        _write(root, f, "incoming new %d\n" % version)
        main.add([f])


def _bring(kind, wt, main, first):
    from breezy.workingtree import WorkingTree
    wt = WorkingTree.open(wt.basedir)
    if kind == "pull":
        wt.pull(main.branch)
    elif kind == "merge":
        wt.merge_from_branch(main.branch, force=True)
    elif kind == "update" or (kind == "switch" and not first):
        wt.update()
    elif kind == "switch":
        from breezy import switch
        switch.switch(wt.controldir, main.branch, force=True)


def run_sequence(seed_tuple):
    try:
        return _run_sequence(seed_tuple)
    except Exception as e:
        import traceback
        return dict(harness_error="%s: %s" % (type(e).__name__, traceback.format_exc()[-600:]), id=list(seed_tuple))


def _run_sequence(seed_tuple):
    from breezy.workingtree import WorkingTree
    sc = gen_sequence(seed_tuple)
    fmt = sc["fmt"]
    main = env.make_tree(fmt)
    root = main.basedir
    for f in sc["files"]:
        _write(root, f, base_text(f))
    main.smart_add([root])
    rev1 = main.commit("rev1")
    # a side branch for the final "merge-other"
    odir = env.fresh_dir("sother")
    os.rmdir(odir)
    other = main.controldir.sprout(odir).open_workingtree()
    _write(odir, "o-only", "other side\n")
    other.add(["o-only"])
    other.commit("other")
    # the tree the user works in
    wdir = env.fresh_dir("swork")
    os.rmdir(wdir)
    bring = sc["bring"]
    dirs = [root, odir, wdir]
    if bring in ("pull", "merge"):
        wt = main.controldir.sprout(wdir).open_workingtree()
    elif bring == "update":
        wt = main.branch.create_checkout(wdir, lightweight=True)
    else:
        bdir = env.fresh_dir("sbase")
        os.rmdir(bdir)
        dirs.append(bdir)
        base_br = main.controldir.sprout(bdir).open_branch()
        wt = base_br.create_checkout(wdir, lightweight=True)
    # user edits (before the incoming revision exists in the tree)
    tracked = {}
    for f, how, token in sc["edits"]:
        text = apply_edit(open(os.path.join(wdir, f)).read(), how, token)
        _write(wdir, f, text)
        tracked[text] = f
    for pth, token in sc["unknown"]:
        _write(wdir, pth, token + "\nunknown\n")
        tracked[token + "\nunknown\n"] = pth
    steps = []
    lost = []

    def snapshot():
        w = WorkingTree.open(wdir)
        return all_files(wdir, w)

    def account(step, kind, after, exempt=()):
        """tracked contents must still exist verbatim; after a merge-like step a content whose lines were
        merged into a file is from then on "written by a merge" and is no longer tracked"""
        for text in list(tracked):
            if text in after.values():
                continue
            origin = tracked.pop(text)
            toks = _tokens(text)
            if kind == "merge-like" and toks and any(all(t in a.split("\n") for t in toks) for a in after.values()):
                continue
            if origin in exempt:
                continue
            lost.append(dict(step=step, origin=origin, text=text[:60]))

    def mm_facts(moves, mods, adds):
        """[(path, otherChangedContent, otherAdded, onlyMoved, recorded)] for versioned files after a merge-like step"""
        w = WorkingTree.open(wdir)
        out = []
        if not w.supports_merge_modified():
            return out
        with w.lock_read():
            mm = w.merge_modified()
            newname = dict((m[0], m[1]) for m in moves)
            for pth in sorted(all_files(wdir, w)):
                if not w.is_versioned(pth):
                    continue
                changed = pth in mods
                added = pth in adds
                only_moved = pth in newname.values()
                out.append((pth, changed, added, only_moved, pth in mm))
        return out
    # ---- step 1 (and 1b): merge-like commands
    incoming = [(sc["moves"], sc["mods"], sc["adds"])]
    if sc["chain"]:
        incoming.append((sc["chain"]["moves"], sc["chain"]["mods"], []))
    mmobs = []
    cum_mods, cum_adds, cum_moves = [], [], []
    path_now = {f: f for f in sc["files"]}
    for n, (moves, mods, adds) in enumerate(incoming):
        mods_now = [path_now.get(f, f) for f in mods]
        _apply_incoming(main, root, moves, mods_now, adds, n + 2)
        main.commit("rev%d" % (n + 2))
        for old, new in moves:
            for f0, cur in list(path_now.items()):
                if cur == old:
                    path_now[f0] = new
        err = None
        try:
            _bring(bring, wt, main, n == 0)
        except Exception as e:
            import traceback
            err = "%s: %s" % (type(e).__name__, traceback.format_exc()[-300:])
        after = snapshot()
        steps.append(dict(cmd=bring if n == 0 else (bring if bring != "switch" else "update"), err=err))
        account(len(steps), "merge-like", after)
        if bring == "merge":
            # the first merge is not committed: the second merge from the same branch writes its texts again
            cum_mods = sorted(set([path_now.get(f, f) for f in cum_mods] + mods_now))
            cum_adds = sorted(set(cum_adds + adds))
            cum_moves = cum_moves + moves
        else:
            cum_mods, cum_adds, cum_moves = mods_now, adds, moves
        if err is None:
            fs = mm_facts(cum_moves, cum_mods, cum_adds)
            if bring == "merge" and n > 0:
                # whether a repeated, uncommitted merge rewrites a text depends on the local edits; what is
                # compared there is that nothing the merges did not write is recorded
                fs = [f for f in fs if not f[1] and not f[2]]
            mmobs.append(dict(step=len(steps), facts=fs))
    # ---- final step
    final = sc["final"]
    edited_moved = [path_now[f] for f, _h, _t in sc["edits"] if path_now[f] != f and os.path.exists(os.path.join(wdir, path_now[f]))]
    target = edited_moved[0] if edited_moved else None
    before_final = snapshot()
    facts = []
    err = None
    w = WorkingTree.open(wdir)
    try:
        if final in ("revert", "revert-path") or (final == "remove-path" and target is None):
            fsc = dict(backups=True, old=False, select=[target] if (final == "revert-path" and target) else None)
            b = dict(wt=w, rev1=rev1)
            facts = [(pth, {k: v for k, v in f.items() if k != "text"}, f["text"]) for pth, f in revert_facts(fsc, b)]
            with w.lock_tree_write():
                w.revert(filenames=fsc["select"], backups=True)
            final = "revert-path" if fsc["select"] else "revert"
        elif final == "remove-path":
            w.remove([target], keep_files=False, force=False)
        elif final == "merge-other":
            w.merge_from_branch(other.branch, force=True)
    except Exception as e:
        import traceback
        err = "%s: %s" % (type(e).__name__, traceback.format_exc()[-300:])
    after = snapshot()
    steps.append(dict(cmd=final, err=err, target=target))
    account(len(steps), "merge-like" if final == "merge-other" else "exact", after)
    res = dict(sc=sc, steps=steps, lost=lost, mm=mmobs,
               facts=[(pth, f, fate(pth, t, before_final, after)) for pth, f, t in facts] if err is None else [],
               ntracked=len(sc["edits"]) + len(sc["unknown"]))
    for d in dirs:
        shutil.rmtree(d, ignore_errors=True)
    return res


def check_sequence(ctx, res, flag):
    sc = res["sc"]
    cid = dict(id=sc["id"], fmt=sc["fmt"], cmd="seq",
               sequence=[s["cmd"] for s in res["steps"]], incoming_moves=sc["moves"], incoming_mods=sc["mods"],
               chain=sc["chain"], edits=sc["edits"], final_target=res["steps"][-1].get("target"))
    ctx.case(dict(sc=sc), nontrivial=bool(sc["edits"]))
    ctx.count("seq:%s:%s+%s%s" % (sc["fmt"], sc["bring"], res["steps"][-1]["cmd"], "+chain" if sc["chain"] else ""))
    for st in res["steps"]:
        if st["err"]:
            ctx.count("error:seq:%s:%s" % (st["cmd"], st["err"].split(":")[0]))
    for l in res["lost"]:
        ctx.count("user-content:LOST")
        ctx.violation(dict(cid, lost=l), "sequence %s: step %d (%s) discarded the user's content of %r (written before the sequence; "
                      "not in the tree, not in a backup or helper file afterwards): %r"
                      % (" ; ".join(s["cmd"] for s in res["steps"]), l["step"], res["steps"][l["step"] - 1]["cmd"], l["origin"], l["text"]))
    cases, lines, impls = [], [], []
    for ob in res["mm"]:
        for pth, changed, added, only_moved, recorded in ob["facts"]:
            ctx.count("merge-hashes:%s" % ("content-changed" if changed else "added" if added else "only-moved" if only_moved else "untouched"))
            cases.append(dict(cid, merge_hashes_after_step=ob["step"], path=pth))
            lines.append("mm %s %s %s" % (TF(changed), TF(added), TF(only_moved)))
            impls.append("recorded" if recorded else "absent")
    for pth, f, observed in res["facts"]:
        cases.append(dict(cid, path=pth, inputs=f))
        lines.append("revert %s %s f %s %s %s %s %s %s" % (
            TF(flag), TF(f["changed"]), TF(f["backups"]), KC[f["tkind"]], TF(f["tversioned"]),
            TF(f["mm"] is not None and f["mm"] == f["wsha"]), TF(f["bpresent"]), TF(f["bsha"] is not None and f["bsha"] == f["wsha"])))
        impls.append(observed)
    return cases, lines, impls


# --------------------------------------------------------------------------
# T1

def source_flag():
    tree = ast.parse(open(os.path.join(env.REPO, "breezy/transform.py")).read())
    fn = next(n for n in tree.body if isinstance(n, ast.FunctionDef) and n.name == "_alter_files")
    for n in ast.walk(fn):
        if isinstance(n, ast.If) and isinstance(n.test, ast.Compare) and isinstance(n.test.left, ast.Name) \
                and n.test.left.id == "basis_path" and isinstance(n.test.ops[0], ast.Is):
            first = n.body[0]
            if isinstance(first, ast.Assign) and getattr(first.targets[0], "id", None) == "keep_content":
                return True
            if isinstance(first, ast.If):
                # `if target_kind is None and not target_versioned: keep_content = True`
                names = {x.id for x in ast.walk(first.test) if isinstance(x, ast.Name)}
                if names == {"target_kind", "target_versioned"}:
                    return False
                if "backups" in names or names == {"target_kind"}:
                    return True
            raise ValueError("unexpected shape of the `basis_path is None` branch")
    raise ValueError("`if basis_path is None` not found in _alter_files")


def extract(ctx):
    sys.path.insert(0, os.path.join(env.VERIF, "tools"))
    import extract as ex
    flag = source_flag()
    text = ("-- GENERATED by harness/checks/c12.py from breezy/transform.py:_alter_files — do not edit\n"
            "import BreezyVerif.Model.C12\nnamespace BreezyVerif.C12\n"
            "/-- does `_alter_files` keep the content of a working file whose id is absent from the basis whenever it may? -/\n"
            "def sourceFlags : Flags := { keepWhenNoBasis := %s }\nend BreezyVerif.C12\n" % ("true" if flag else "false"))
    ex.write_if_changed(os.path.join(env.VERIF, "lean/BreezyVerif/Generated/C12.lean"), text)
    ctx.extra["keepWhenNoBasis"] = flag
    return "keepWhenNoBasis=%s" % flag


def _flag(ctx):
    if "keepWhenNoBasis" not in ctx.extra:
        try:
            ctx.extra["keepWhenNoBasis"] = source_flag()
        except Exception:
            ctx.extra["keepWhenNoBasis"] = False
    return ctx.extra["keepWhenNoBasis"]


# --------------------------------------------------------------------------
# checks

TF = lambda b: "T" if b else "F"
KC = {"file": "f", "directory": "d", "symlink": "l", None: "~", "tree-reference": "d"}
MERGE_LIKE = ("merge", "pull", "update", "switch")


def _tokens(text):
    return [l for l in text.split("\n") if l.startswith(("EDIT-", "UNK-", "ADD-", "READD-"))]


def _family(sc, path, fact):
    """no known-finding family: the one defect found here (revert deleting a file whose id is absent
    from the basis, without backup) was repaired by a fix: commit and is a plain violation if it returns"""
    return None


def check_scenario(ctx, res, flag):
    sc = res["sc"]
    cmd = sc["cmd"]
    cid = dict(id=sc["id"], fmt=sc["fmt"], cmd=cmd, options={k: sc.get(k) for k in ("backups", "old", "select", "mode", "premerge")})
    facts = {p: f for p, f, _ in res["facts"]}
    in_scope = [p for p in res["user"] if p in facts]
    ctx.case(dict(sc=sc), nontrivial=bool(in_scope) or (cmd in MERGE_LIKE + ("uncommit",) and bool(res["user"])))
    ctx.count("cmd:%s:%s" % (sc["fmt"], cmd))
    if res["err"]:
        ctx.count("error:%s:%s" % (cmd, res["err"].split(":")[0]))
    # ---- oracle
    if cmd == "uncommit":
        if res["before"] != res["after"]:
            ctx.violation(cid, "uncommit changed working tree files: %r" % sorted(set(res["before"].items()) ^ set(res["after"].items()))[:3])
        return [], [], []
    after_texts = list(res["after"].values())
    for p, text in sorted(res["user"].items()):
        ok = text in after_texts
        if not ok and cmd in MERGE_LIKE:
            toks = _tokens(text)
            ok = bool(toks) and any(all(t in a.split("\n") for t in toks) for a in after_texts)
        if ok:
            ctx.count("user-content:preserved")
            continue
        f = facts.get(p)
        if cmd == "revert" and not sc["backups"] and f is not None and f.get("tkind") is not None:
            ctx.count("user-content:discarded-on-request(no-backup)")
            continue
        if cmd == "remove" and sc["mode"] == "force" and f is not None:
            ctx.count("user-content:discarded-on-request(force)")
            continue
        ctx.count("user-content:LOST")
        ctx.violation(dict(cid, path=p, inputs=f), "%s discarded user content of %r (not in the tree, not in a backup or helper file): %r%s"
                      % (cmd, p, text[:40], " [command raised %s]" % res["err"].split(":")[0] if res["err"] else ""),
                      family=_family(sc, p, f))
    # ---- T2 lines
    cases, lines, impls = [], [], []
    for p, f, observed in res["facts"]:
        if cmd == "revert":
            line = "revert %s %s f %s %s %s %s %s %s" % (
                TF(flag), TF(f["changed"]), TF(f["backups"]), KC[f["tkind"]], TF(f["tversioned"]),
                TF(f["mm"] is not None and f["mm"] == f["wsha"]), TF(f["bpresent"]), TF(f["bsha"] is not None and f["bsha"] == f["wsha"]))
            ctx.count("revert-branch:%s" % ("unchanged" if not f["changed"] else "no-basis" if not f["bpresent"] else "modified" if f["bsha"] != f["wsha"] else "clean"))
        else:
            line = "remove %s %s %s %s %s" % (TF(f["keep"]), TF(f["force"]), f["role"], TF(f["inbasis"]), TF(f["changed"]))
            ctx.count("remove-branch:%s:%s" % (sc["mode"], f["role"]))
        if res["err"]:
            continue        # the command refused to run (e.g. a selected path is not versioned): nothing to compare
        cases.append(dict(cid, path=p, inputs=f))
        lines.append(line)
        impls.append(observed)
    return cases, lines, impls


def _scenarios(ctx, n):
    out = []
    cmds = ["revert", "revert", "revert", "remove", "remove", "merge", "pull", "update", "switch", "uncommit"]
    for fmt in ("2a", "git"):
        for i in range(n):
            out.append((ctx.seed, fmt, i, cmds[i % len(cmds)]))
    return out


def _corpus():
    import json
    d = os.path.join(env.VERIF, "corpus", "C12")
    out = []
    if os.path.isdir(d):
        for fn in sorted(os.listdir(d)):
            if fn.endswith(".json"):
                out.append(tuple(json.load(open(os.path.join(d, fn)))["id"]))
    return out


def run(ctx, n=None):
    flag = _flag(ctx)
    n = n or ctx.pick(70, 700)
    # ---- S1 commands
    seeds = [t for t in _corpus() if t[3] != "seq"] + _scenarios(ctx, n)
    results = ctx.pmap(run_scenario, seeds)
    cases, lines, impls = [], [], []
    nerr = 0
    # ---- S1b two-step sequences
    seqs = [t for t in _corpus() if t[3] == "seq"]
    for fmt in ("2a", "2a", "git"):
        for i in range(ctx.pick(14, 120)):
            seqs.append((ctx.seed, fmt, i if fmt != "2a" or len([x for x in seqs if x[1] == "2a" and x[0] == ctx.seed]) < ctx.pick(14, 120) else i + 1000, "seq"))
    seqs = list(dict.fromkeys(seqs))
    for res in ctx.pmap(run_sequence, seqs):
        if "harness_error" in res:
            nerr += 1
            ctx.count("harness-error:seq:" + res["harness_error"].split(":")[0])
            ctx.extra.setdefault("harness_errors", []).append(dict(id=res["id"], error=res["harness_error"][-300:]))
            continue
        c, l, i = check_sequence(ctx, res, flag)
        cases += c; lines += l; impls += i
    for res in results:
        if "harness_error" in res:
            nerr += 1
            ctx.count("harness-error:" + res["harness_error"].split(":")[0])
            ctx.extra.setdefault("harness_errors", []).append(dict(id=res["id"], error=res["harness_error"][-300:]))
            continue
        c, l, i = check_scenario(ctx, res, flag)
        cases += c; lines += l; impls += i
    if nerr > max(3, len(results) // 10):
        raise env.InfraError("too many scenarios could not be built: %r" % ctx.extra["harness_errors"][:2])
    # ---- S2 backup names (Rust osutils.available_backup_name, and the transform's wrapper)
    from breezy import osutils
    rng = ctx.rng
    for _ in range(ctx.pick(300, 3000)):
        base = rng.choice(["f", "d/g", "a.b", "x~", "f.~1~"])
        ks = rng.sample(range(1, 14), rng.randint(0, 12))
        if rng.random() < 0.5:
            ks = list(range(1, rng.randint(1, 12)))        # a dense prefix: the loop has to walk it
        taken = ["%s.~%d~" % (base, k) for k in ks] + rng.sample([base, base + ".~0~", base + ".~1", base + "~1~", "other.~1~"], 2)
        got = osutils.available_backup_name(base, lambda nme: nme in taken)
        ctx.case(dict(backup=base, taken=sorted(taken)), nontrivial=len(ks) > 0)
        ctx.count("backup:walk=%d" % min(len([k for k in ks]), 12))
        if got in taken:
            ctx.violation(dict(base=base, taken=taken), "available_backup_name returned the existing name %r" % got)
        cases.append(dict(backup=base, taken=sorted(taken)))
        lines.append("backup %s %s" % (base, ",".join(taken) or "-"))
        impls.append(got)
    # ---- S3 merge content decision
    mcases = []
    k = 0
    for fmt in ("2a", "git"):
        for te in MERGE_EDITS:
            for oe in OTHER_EDITS:
                if oe == "same" and te == "none":
                    continue
                k += 1
                mcases.append([fmt, te, oe, k + 100 * ctx.seed])
    if ctx.tier == "quick":
        mcases = rng.sample(mcases, 28)
    for mc, r in zip(mcases, ctx.pmap(run_merge_case, mcases)):
        if "harness_error" in r:
            ctx.count("harness-error:merge:" + r["harness_error"].split(":")[0])
            continue
        ctx.case(dict(merge=mc[:3]), nontrivial=r["this_changed"])
        ctx.count("merge:%s/%s:%s" % (mc[1], mc[2], r["fate"]))
        if r["this_changed"] and r["fate"] == "gone":
            ctx.violation(dict(merge=mc), "merge discarded the local text (this edit %s, other edit %s): files after = %r" % (mc[1], mc[2], r["after"]))
        if not r["this_changed"]:
            continue
        cases.append(dict(merge=mc))
        lines.append("merge %s %s %s %s %s" % (TF(r["this_changed"]), TF(r["other_changed"]), TF(r["other_deleted"]), TF(r["same"]), TF(r["text_conflict"])))
        impls.append(r["fate"])
    if lines and ctx.model_available:
        ctx.diff(cases, lines, impls)


def widen(ctx):
    run(ctx, n=400)


def replay(ctx, case):
    flag = _flag(ctx)
    if "id" in case and case["id"][3] == "seq":
        res = run_sequence(tuple(case["id"]))
        if "harness_error" in res:
            return dict(case=case, error=res["harness_error"])
        c, l, i = check_sequence(ctx, res, flag)
        m = ctx.model(l) if l else []
        return dict(case=case, scenario=res["sc"], steps=res["steps"], lost=res["lost"], merge_hashes=res["mm"], impl=i, model=m,
                    oracle_failures=[dict(what=v["what"], family=v["family"]) for v in ctx.violations])
    if "id" in case:
        res = run_scenario(tuple(case["id"]))
        c, l, i = check_scenario(ctx, res, flag)
        m = ctx.model(l) if l else []
        return dict(case=case, options={k: res["sc"].get(k) for k in ("backups", "old", "select", "mode", "premerge", "edits", "readd", "added", "unknown")},
                    error=res["err"], impl=i, model=m, per_file=[(x["path"], x["inputs"]) for x in c],
                    oracle_failures=[dict(what=v["what"], family=v["family"]) for v in ctx.violations])
    if "merge" in case:
        r = run_merge_case(case["merge"])
        line = "merge %s %s %s %s %s" % (TF(r["this_changed"]), TF(r["other_changed"]), TF(r["other_deleted"]), TF(r["same"]), TF(r["text_conflict"]))
        return dict(case=case, impl=r["fate"], model=ctx.model([line])[0])
    if "backup" in case:
        from breezy import osutils
        got = osutils.available_backup_name(case["backup"], lambda nme: nme in case["taken"])
        return dict(case=case, impl=got, model=ctx.model(["backup %s %s" % (case["backup"], ",".join(case["taken"]) or "-")])[0])
    return dict(case=case, error="unknown case shape")
