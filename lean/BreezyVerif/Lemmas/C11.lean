import BreezyVerif.Model.C11
import BreezyVerif.Lemmas.C46
/-! C11 — lemmas: the pass changes only `versioned` flags; the flag of every entry is `step` at
the mode handed down along its path. -/
namespace BreezyVerif.C11
open BreezyVerif.C46 Forest

theorem pass_clearV (c : Cfg) (here : Path) (m : Mode) (f : Forest) :
    clearV (pass c here m f) = clearV f := by
  induction f generalizing here m with
  | nil => rfl
  | cons i kids rest ih1 ih2 => simp [pass, clearV, ih1, ih2]

theorem pass_get_cons_ne {c : Cfg} {here : Path} {m : Mode} {i : Info} {kids rest : Forest}
    {n : String} {t : Path} (h : i.name ≠ n) :
    (pass c here m (cons i kids rest)).get (n :: t) = (pass c here m rest).get (n :: t) := by
  simp [pass, Forest.get, h]

/-- the entry found at `q` after the pass: same entry, flag = `step` at the
mode of its listing; its content is the pass continued in the mode `step` hands down -/
theorem pass_get {c : Cfg} {here : Path} {m : Mode} {f : Forest} {q : Path} {i : Info} {k : Forest}
    (hg : f.get q = some (i, k)) :
    ∃ m', modeOf c here m f q = some m' ∧
      (pass c here m f).get q =
        some ({ i with versioned := (step c (here ++ q) m' i k).1 },
              pass c (here ++ q) (step c (here ++ q) m' i k).2 k) := by
  induction f generalizing q here m with
  | nil => simp [Forest.get] at hg
  | cons j kids rest ih1 ih2 =>
    cases q with
    | nil => simp [Forest.get] at hg
    | cons n t =>
      by_cases e : j.name = n
      · subst e
        cases t with
        | nil =>
          rw [get_cons_self] at hg
          simp only [Option.some.injEq, Prod.mk.injEq] at hg
          obtain ⟨rfl, rfl⟩ := hg
          exact ⟨m, by simp [modeOf], by simp [pass, Forest.get]⟩
        | cons a b =>
          rw [get_cons_down] at hg
          obtain ⟨m', h1, h2⟩ := ih1 (here := here ++ [j.name]) (m := (step c (here ++ [j.name]) m j kids).2) hg
          refine ⟨m', by simpa [modeOf] using h1, ?_⟩
          have : (pass c here m (cons j kids rest)).get (j.name :: a :: b)
              = (pass c (here ++ [j.name]) (step c (here ++ [j.name]) m j kids).2 kids).get (a :: b) := by
            simp [pass, Forest.get]
          rw [this, h2]
          simp [List.append_assoc]
      · rw [get_cons_ne e] at hg
        obtain ⟨m', h1, h2⟩ := ih2 (here := here) (m := m) hg
        refine ⟨m', by simpa [modeOf, e] using h1, ?_⟩
        rw [pass_get_cons_ne e]; exact h2

/-- nothing appears: a lookup that fails before fails afterwards -/
theorem pass_get_none {c : Cfg} {here : Path} {m : Mode} {f : Forest} {q : Path}
    (hg : f.get q = none) : (pass c here m f).get q = none := by
  induction f generalizing q here m with
  | nil => simp [pass, Forest.get]
  | cons j kids rest ih1 ih2 =>
    cases q with
    | nil => simp [pass, Forest.get]
    | cons n t =>
      by_cases e : j.name = n
      · subst e
        cases t with
        | nil => rw [get_cons_self] at hg; simp at hg
        | cons a b =>
          rw [get_cons_down] at hg
          have : (pass c here m (cons j kids rest)).get (j.name :: a :: b)
              = (pass c (here ++ [j.name]) (step c (here ++ [j.name]) m j kids).2 kids).get (a :: b) := by
            simp [pass, Forest.get]
          rw [this]; exact ih1 hg
      · rw [get_cons_ne e] at hg
        rw [pass_get_cons_ne e]; exact ih2 hg

/-- whatever the mode: an entry that is versioned or on a named path stays / becomes versioned -/
theorem step_of_v1 (c : Cfg) (p : Path) (m : Mode) (i : Info) (k : Forest)
    (h : (i.versioned || onPath c p i) = true) : (step c p m i k).1 = true := by
  unfold step visitFlag
  simp only [h]
  cases c.fmt <;> cases m <;> simp <;> (repeat' split) <;> simp_all

end BreezyVerif.C11
