"""Standalone repro (unchanged /repo, default search batch size 50).

Family: fetch-fails-when-target-has-a-ghost-the-source-has:BzrCheckError
Same root cause as the known siblings (:AssertionError, :NoSuchRevision, :RevisionNotPresent, :ConnectionResetError):
the target holds a revision h one of whose parents (r07) it lacks while the source has it; a fetch with
find_ghosts=False stops at h, leaves r07 out, but copies the merge tip = [r07, h] whose inventory names a text introduced
by r07.  Here the copy is the local cross-serializer path (InterDifferingSerializer, pack-0.92 -> 2a): the text is not sent
because tip's parent tree r07 (read from the SOURCE) has it, and the 2a write group refuses:
    BzrCheckError: Cannot add revision(s) to repository: missing text keys: [(b'f-id', b'r07')]
With find_ghosts=True the same fetch succeeds.
Run: /venv/bin/python repro_ids_bzrcheckerror.py   (exit 1 = reproduced)
"""
import os, sys, tempfile, shutil
home = tempfile.mkdtemp(prefix="repro-", dir="/var/tmp")
os.environ.update(HOME=home, BRZ_HOME=home, BRZ_EMAIL="T <t@example.com>", BRZ_PLUGIN_PATH="-user:-site")
sys.path.insert(0, os.environ.get("VERIF_REPO", "/repo"))
import breezy
breezy.initialize()
import breezy.bzr, breezy.bzr.bzrdir, breezy.bzr.groupcompress_repo  # noqa
from breezy import plugin, ui, trace, transport
plugin.load_plugins(); ui.ui_factory = ui.SilentUIFactory(); trace.be_quiet(True)
from breezy.branchbuilder import BranchBuilder
from breezy.controldir import ControlDir, format_registry
from breezy.repository import Repository

src_fmt = format_registry.make_controldir("pack-0.92")
bs = {}
for h in "AB":
    os.mkdir(os.path.join(home, h))
    bs[h] = BranchBuilder(transport.get_transport(os.path.join(home, h)), format=src_fmt)
ra, rb = bs["A"].get_branch().repository, bs["B"].get_branch().repository
bs["A"].build_snapshot([], [("add", ("", b"root-id", "directory", None)), ("add", ("f", b"f-id", "file", b"one\n")),
                            ("add", ("g", b"g-id", "file", b"g\n")), ("add", ("k1", b"k1-id", "file", b"k1\n")),
                            ("add", ("k2", b"k2-id", "file", b"k2\n"))], revision_id=b"r01")
bs["A"].build_snapshot([b"r01"], [("modify", ("f", b"seven\n"))], revision_id=b"r07")
rb.fetch(ra, revision_id=b"r01")
bs["B"].build_snapshot([b"r01", b"r07"], [("modify", ("g", b"h\n")), ("modify", ("k1", b"k1 h\n")),
                                          ("modify", ("k2", b"k2 h\n"))], revision_id=b"h")      # r07 is a ghost in B
T = ControlDir.create(os.path.join(home, "T"), format=format_registry.make_controldir("2a")).create_repository()
T.fetch(Repository.open(os.path.join(home, "B")), revision_id=b"h")                          # T: r01, h; lacks r07
ra.fetch(rb, revision_id=b"h")
# the merge takes h's side for g, k1, k2: its tree is closest to h's (which the target has), so h is the delta basis
bs["A"].build_snapshot([b"r07", b"h"], [("modify", ("g", b"h\n")), ("modify", ("k1", b"k1 h\n")),
                                       ("modify", ("k2", b"k2 h\n"))], revision_id=b"tip")
rc = 0
try:
    Repository.open(os.path.join(home, "T")).fetch(Repository.open(os.path.join(home, "A")), revision_id=b"tip",
                                                   find_ghosts=False)
    t = Repository.open(os.path.join(home, "T"))
    print("fetch succeeded; target revisions:", sorted(t.all_revision_ids()))
except Exception as e:
    print("REPRODUCED: %s: %s" % (type(e).__name__, e))
    rc = 1
    try:
        Repository.open(os.path.join(home, "T")).fetch(Repository.open(os.path.join(home, "A")), revision_id=b"tip",
                                                       find_ghosts=True)
        print("the same fetch with find_ghosts=True succeeds; target revisions:",
              sorted(Repository.open(os.path.join(home, "T")).all_revision_ids()))
    except Exception as e2:
        print("with find_ghosts=True: %s: %s" % (type(e2).__name__, e2))
shutil.rmtree(home, ignore_errors=True)
sys.exit(rc)
