#!/venv/bin/python
"""C34 repro: family `commit-text-noncanonical`.
A git commit whose text is valid for git and for dulwich's parser but is not what dulwich's
serialiser writes (timezone `+100`, zero-padded time, committer line before author line,
`encoding` header first, duplicated header, missing tree ...) is accepted by
BzrGitMappingv1.import_commit (strict); export_commit of the imported revision gives different
bytes and a different SHA-1 (or raises).
Run:  /venv/bin/python repro_c34_noncanonical.py [repo-path]      exits 1 when the defect is present."""
import os, sys, tempfile
repo = sys.argv[1] if len(sys.argv) > 1 else "/repo"
sys.path.insert(0, repo)
h = tempfile.mkdtemp(prefix="c34repro", dir="/var/tmp")
os.environ.update(HOME=h, BRZ_HOME=h, BRZ_EMAIL="t <t@x>")
import breezy
breezy.initialize()
import breezy.bzr, breezy.git
from breezy.git.mapping import BzrGitMappingv1
from dulwich.objects import Commit

m = BzrGitMappingv1()
T = b"tree cc9462f7f8263ef5adfbeff2fb936bb36b504cba\n"
CASES = {
    "control (canonical)": T + b"author A <a@x> 10 +0100\ncommitter C <c@x> 12 +0000\n\nmsg\n",
    "timezone +100": T + b"author A <a@x> 10 +100\ncommitter C <c@x> 12 +0000\n\nmsg\n",
    "time 0010": T + b"author A <a@x> 0010 +0100\ncommitter C <c@x> 12 +0000\n\nmsg\n",
    "committer before author": T + b"committer C <c@x> 12 +0000\nauthor A <a@x> 10 +0100\n\nmsg\n",
    "encoding first": b"encoding latin1\n" + T + b"author A <a@x> 10 +0100\ncommitter C <c@x> 12 +0000\n\nmsg\n",
    "author twice": T + b"author B <b@x> 1 +0000\nauthor A <a@x> 10 +0100\ncommitter C <c@x> 12 +0000\n\nmsg\n",
    "no tree": b"author A <a@x> 10 +0100\ncommitter C <c@x> 12 +0000\n\nmsg\n",
    "ident without '> '": T + b"author A <a@x> 10 +0100\ncommitter C 12 +0000\n\nmsg\n",
}
bad = 0
for name, raw in CASES.items():
    c1 = Commit.from_string(raw)
    try:
        rev, _, _ = m.import_commit(c1, m.revision_id_foreign_to_bzr, strict=True)
    except Exception as e:
        print("%-26s import refused: %r" % (name, e)); continue
    try:
        c2 = m.export_commit(rev, c1.tree, lambda r: m.revision_id_bzr_to_foreign(r)[0], True, None)
        raw2 = c2.as_raw_string()
    except Exception as e:
        print("%-26s import accepted, export raises %r" % (name, e)); bad += 1; continue
    print("%-26s import accepted, byte-identical=%s  sha %s -> %s" % (name, raw2 == raw, c1.id.decode()[:10], c2.id.decode()[:10]))
    bad += raw2 != raw
sys.exit(1 if bad else 0)
