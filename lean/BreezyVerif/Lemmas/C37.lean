import BreezyVerif.Model.C37
/-! C37 — lemmas about association lists, `readRef`, `follow`. -/
namespace BreezyVerif.C37

variable {β : Type}

theorem lookup_insert_same (l : List (Nat × β)) (k : Nat) (v : β) : lookup (insert l k v) k = some v := by
  induction l with
  | nil => simp [insert, lookup]
  | cons e rest ih =>
    obtain ⟨k', v'⟩ := e
    simp only [insert]
    split
    · simp [lookup]
    · rename_i h; simp [lookup, h, ih]

theorem lookup_insert_other (l : List (Nat × β)) (k k' : Nat) (v : β) (h : k' ≠ k) :
    lookup (insert l k v) k' = lookup l k' := by
  induction l with
  | nil => simp [insert, lookup, h.symm]
  | cons e rest ih =>
    obtain ⟨k0, v0⟩ := e
    simp only [insert]
    split
    · rename_i h0; subst h0; simp [lookup, h.symm]
    · simp only [lookup, ih]

theorem lookup_erase_same (l : List (Nat × β)) (k : Nat) : lookup (erase l k) k = none := by
  induction l with
  | nil => simp [erase, lookup]
  | cons e rest ih =>
    obtain ⟨k0, v0⟩ := e
    simp only [erase]
    split
    · exact ih
    · rename_i h; simp [lookup, h, ih]

theorem lookup_erase_other (l : List (Nat × β)) (k k' : Nat) (h : k' ≠ k) :
    lookup (erase l k) k' = lookup l k' := by
  induction l with
  | nil => simp [erase, lookup]
  | cons e rest ih =>
    obtain ⟨k0, v0⟩ := e
    simp only [erase]
    split
    · rename_i h0; subst h0; simp [lookup, h.symm, ih]
    · simp only [lookup, ih]

theorem readRef_write_same (s : Store) (r new : Nat) : readRef (write s r new) r = some (.sha new) := by
  simp [readRef, write, lookup_insert_same]

theorem readRef_write_other (s : Store) (r m new : Nat) (h : m ≠ r) :
    readRef (write s r new) m = readRef s m := by
  simp [readRef, write, lookup_insert_other _ _ _ _ h]

theorem current_write_same (s : Store) (r new : Nat) : current (write s r new) r = .sha new := by
  simp [current, write, lookup_insert_same]

theorem readRef_del_same (s : Store) (n : Nat) : readRef (del s n) n = none := by
  simp [readRef, del, lookup_erase_same]

theorem readRef_del_other (s : Store) (n m : Nat) (h : m ≠ n) : readRef (del s n) m = readRef s m := by
  simp [readRef, del, lookup_erase_other _ _ _ h]

/-- the last name of a successful `follow` is terminal: it does not exist, or holds the SHA returned -/
theorem followAux_last (s : Store) (fuel m : Nat) (acc names : List Nat) (res : Option Nat)
    (h : followAux s fuel m acc = some (names, res)) :
    ∃ r, names.getLast? = some r ∧ readRef s r = res.map Val.sha ∧ acc.length < names.length := by
  induction fuel generalizing m acc with
  | zero =>
    unfold followAux at h
    cases hr : readRef s m with
    | none =>
      simp only [hr, Option.some.injEq, Prod.mk.injEq] at h
      obtain ⟨rfl, rfl⟩ := h
      exact ⟨m, by simp, by simp [hr], by simp⟩
    | some v => simp [hr] at h
  | succ fuel ih =>
    unfold followAux at h
    cases hr : readRef s m with
    | none =>
      simp only [hr, Option.some.injEq, Prod.mk.injEq] at h
      obtain ⟨rfl, rfl⟩ := h
      exact ⟨m, by simp, by simp [hr], by simp⟩
    | some v =>
      simp only [hr] at h
      cases v with
      | sha x =>
        simp only [Option.some.injEq, Prod.mk.injEq] at h
        obtain ⟨rfl, rfl⟩ := h
        exact ⟨m, by simp, by simp [hr], by simp⟩
      | sym t =>
        obtain ⟨r, h1, h2, h3⟩ := ih t (acc ++ [m]) h
        exact ⟨r, h1, h2, by simp at h3; omega⟩

/-- writing the terminal name of a chain keeps the chain and makes it end in the new SHA,
provided the chain is within the symref depth limit -/
theorem followAux_write (s : Store) (fuel m : Nat) (acc names : List Nat) (res : Option Nat) (r new : Nat)
    (h : followAux s fuel m acc = some (names, res)) (hr : names.getLast? = some r)
    (hlen : names.length ≤ acc.length + fuel) :
    followAux (write s r new) fuel m acc = some (names, some new) := by
  induction fuel generalizing m acc with
  | zero =>
    obtain ⟨_, _, _, h3⟩ := followAux_last s 0 m acc names res h
    omega
  | succ fuel ih =>
    unfold followAux at h ⊢
    cases hrd : readRef s m with
    | none =>
      simp only [hrd, Option.some.injEq, Prod.mk.injEq] at h
      obtain ⟨rfl, rfl⟩ := h
      have : r = m := by simpa using hr.symm
      subst this
      simp [readRef_write_same]
    | some v =>
      simp only [hrd] at h
      cases v with
      | sha x =>
        simp only [Option.some.injEq, Prod.mk.injEq] at h
        obtain ⟨rfl, rfl⟩ := h
        have : r = m := by simpa using hr.symm
        subst this
        simp [readRef_write_same]
      | sym t =>
        obtain ⟨r', h1, h2, _⟩ := followAux_last s fuel t (acc ++ [m]) names res h
        have hrr : r' = r := by rw [h1] at hr; exact Option.some.inj hr
        subst hrr
        have hne : m ≠ r' := by
          intro e; subst e
          rw [hrd] at h2
          cases res <;> simp at h2
        rw [readRef_write_other s r' m new hne, hrd]
        simp only
        exact ih t (acc ++ [m]) h (by simp; omega)

end BreezyVerif.C37
