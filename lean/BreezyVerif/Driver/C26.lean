import BreezyVerif.Common
import BreezyVerif.Driver.C26Lib
namespace BreezyVerif.C26

/-- `run n cfgs held events` | `kd hostEq isLocalhost userEq pidRecorded pidDead` -/
def handle : List String → String
  | ["run", n, cfgs, held, evs] =>
    match n.toNat?, (splitList cfgs).mapM parseCfg, parseHeld held, (splitList evs).mapM parseEv with
    | some n, some cs, some h, some evs =>
      if cs.length = n then "|".intercalate (traceWith (·.show n) (Sys.init (cfgFun cs) h) evs) else "bad-op"
    | _, _, _, _ => "bad-op"
  | ["kd", a, b, c, d, e] =>
    match parseBool a, parseBool b, parseBool c, parseBool d, parseBool e with
    | some a, some b, some c, some d, some e => showBool (knownDead a b c d e)
    | _, _, _, _, _ => "bad-op"
  | _ => "bad-op"

end BreezyVerif.C26

def main : IO Unit := BreezyVerif.runDriver BreezyVerif.C26.handle
