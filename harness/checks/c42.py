"""C42 — exports contain exactly the exported tree.

Mechanism: breezy/export.py:_export_iter_entries (sub-directory selection by
string prefix, `.bzr*` / `.git*` paths skipped, single-file selection),
dir_exporter_generator, breezy/archive/tar.py:prepare_tarball_item /
tarball_generator and the compressed wrappers, breezy/archive/zip.py:
zip_archive_generator, export.get_root_name, osutils.pathjoin(root, path),
breezy/filter_tree.py:ContentFilterTree (per-file content filters).

T2: revision trees (bzr 2a and git) over a namespace of unusual names (spaces,
leading dots, `.bzr*`/`.git*`, unicode, > 100 bytes, a name that is a string
prefix of its sibling, `x` + `x.lnk`), files (empty, binary, large, executable),
empty directories, symlinks (relative, dangling, unicode, long targets), are
exported with the real `export()` in every format {dir, tar, tgz, tbz2, txz,
tlzma, zip} x roots (None -> derived from the destination name, "", nested,
trailing slash, unicode, long) x sub-directory selections (none, "", every
directory, trailing slashes, a file, a symlink, a missing path, a string prefix
of a sibling, a directory whose own path recurs deeper inside it - `lib/vendor/lib/x`,
`lib/mylib/x` -, "/", and selections that are no tree path: `/a`, `//a`, `./a`, `a/.`,
`a//b`) x {plain, ContentFilterTree}.  The archive is read back with
the Python stdlib and the ORDERED member list (name, kind, content, executable
bit, link target) is compared with the Lean model run on the real
`iter_entries_by_dir()` stream (for `dir` the walked directory, sorted).
`get_root_name` is compared on a table of destination names plus generated
`<dir>/<stem><registered ext>` names (stems that themselves end in an
extension), the registered extension list (order!) is compared with the model's,
`str.split("/")` with the model's `splitSlash`.  The
well-formedness hypothesis of the theorems (names free of `/`, unique paths,
parent directories first) is checked on every real entry stream.

Oracle (independent of _export_iter_entries and of the model): the expected
members are computed from the revision tree by COMPONENT paths (entries
strictly below the selection, or the selected non-directory itself, minus the
paths special to the format) and compared as a set with what was extracted:
RAW member names `<root>/<final path>` for tar and zip (exactly one separator after
the root, no `//`; only the one trailing `/` marking a zip directory is removed),
kinds, contents (after the per-file filter), executable bits, link targets (zip:
`<name>.lnk` text members, as the exporter documents).  For selections that are no
tree path (`/a`, `./a`, `a//b`, `a/.`) the oracle accepts "nothing" (what the code
does; proved + tied) or the normalised selection's sub-tree; anything else is a
violation.  get_root_name: exactly the one registered extension is stripped.
"Same contents and executable bits" is true BY CONSTRUCTION in the model (the
members copy the entry's attributes); for that clause the evidence is T2 + oracle
over the stdlib containers, not a theorem.
Families: only `zip-symlink-lnk-name-collision` (known finding) is classified; the
defects fixed by commits 7bb265d (zip exec bit) and c02101e (ContentFilterTree
delegation) are plain violations if they return ("fix reverted" mutants checked).

Mutants this was built against (scratch worktrees):
 * `path.startswith(subdir + "/")` -> `path.startswith(subdir)` (sibling `ab` of
   the selected `a` leaks in);
 * `final_path = path[len(subdir) + 1:]` -> `path[len(subdir):]`;
 * `if entry.kind == "directory": continue` dropped for `path == subdir`;
 * `subdir.rstrip("/")` dropped;
 * tar: executable test inverted / mode always 0644;
 * tar: `item.linkname` taken from the final path instead of the tree path's target;
 * zip: directory member without the trailing `/`;
 * dir: `mode = 0o777` branch dropped;
 * `pathjoin(root, final_path)` -> `root + final_path`;
 * get_root_name: strips the first matching extension anywhere (`find`) instead of `endswith`;
 * harmless: `for ... in sorted-equivalent order` rewrites, `rstrip` via while-loop.
Second-round seed C42b: `final_path = path.rpartition(subdir + "/")[2]` (strips up to the LAST
occurrence): oracle, for the selections counted as `subdir:dir+path-recurs-inside` (60 % of the trees).
Improvement round (raw-name oracle, end-to-end theorems, root names):
 * tar: `pathjoin(root, p)` -> `root + "/" + p` when root ends in `/` (`r//x`): oracle;
 * zip: `pathjoin(root, dp)` -> `root + "/" + dp`: oracle (`r//in-a`);
 * get_root_name: `dest[:-len(ext)]` -> `dest.split(ext)[0]` (`a.tgz.tgz` -> `a`): oracle;
 * `subdir.rstrip("/")` -> `subdir.strip("/")` (`//a` selects `a`): fine for the property
   (oracle accepts), reported as a T2 tie break (model = the code as it is);
 * harmless: extensions tried shortest first (the registered list is suffix-free): clean.
"""
import io
import os
import shutil
import stat
import tarfile
import zipfile

from vlib import env

THEOREMS = [
    "pathStr_injective", "step_eq_spec", "export_exact", "export_whole_tree", "export_slash_only_empty",
    "export_members", "export_finals_nodup", "export_dirs_first", "subdir_is_subtree",
    "subdir_single_file", "root_prefix", "root_prefix_under", "dir_eq_tar_rootless", "specialOf_mono",
    "zip_names_nodup_partial", "zip_lnk_collision_witness", "prefix_sibling_witness",
    "zip_exec_dropped_witness", "zip_exec_kept",
    "finals_rel", "export_iter_eq_spec", "tar_export_exact", "dir_export_exact", "zip_export_exact",
    "root_prefix_export", "tar_export_names_nodup", "zip_export_names_nodup_partial",
    "export_nonempty_selection_is_path", "export_selection_empty_component", "export_selection_not_in_tree",
    "rootName_strips_ext", "rootName_no_ext", "rootName_witness", "recurring_name_witness",
]
RULE = ("case = (generated revision tree, format, root, sub-directory selection, filtered?); trees are drawn from a "
        "namespace of unusual names; non-trivial = the selection exports >= 2 members; distinct by the canonical "
        "entry stream + format + root + selection + filter")
ASSUMPTIONS = [
    "the real iter_entries_by_dir() stream is well-formed (names non-empty and free of '/', unique paths, parent "
    "directories first) - checked on every case",
    "tar/zip container encodings are the Python stdlib's (tarfile, zipfile, gzip, bz2, lzma); archives are read back with the same stdlib",
    "tree.has_filename(path) holds for every entry of a revision tree (checked on every case)",
]
TRUSTED = ["stdlib tarfile/zipfile writers and readers", "Python str operations as List Char operations",
           "time stamps are outside the property and not compared"]

FORMATS = ["dir", "tar", "tgz", "tbz2", "txz", "tlzma", "zip"]
EXT = {"dir": "", "tar": ".tar", "tgz": ".tar.gz", "tbz2": ".tbz2", "txz": ".tar.xz", "tlzma": ".tar.lzma", "zip": ".zip"}
LONG = "L" * 118 + "ng"
NAMES = ["a", "ab", "a b", "b", "sub", ".hid", ".bzrignore", ".bzrx", ".gitx", ".github", "ünï",
         "日本", LONG, "x", "x.lnk", "-n", "a;b|c", "q?*", "tr.", " lead", "up.txt", "c.TXT", "d.txt"]
TARGETS = ["a", "../x", "ünï/日", "T" * 150, "/abs/olute", "sub/none", "x"]
FILTER_SUFFIX = ".txt"


def hx(s):
    b = s.encode("utf-8") if isinstance(s, str) else s
    return b.hex() or "-"


# --------------------------------------------------------------------------
# tree generation

def gen_spec(rng):
    """{relpath: (kind, data, exec)}; parents are always present"""
    spec = {}

    def fill(prefix, depth):
        n = rng.randint(2, 5) if depth == 0 else rng.randint(0, 3)
        for name in rng.sample(NAMES, n):
            rel = prefix + name
            r = rng.random()
            if r < (0.35 if depth < 3 else 0):
                spec[rel] = ("d", None, False)
                fill(rel + "/", depth + 1)
            elif r < 0.5:
                spec[rel] = ("l", rng.choice(TARGETS), False)
            else:
                c = rng.random()
                if c < 0.1:
                    data = b""
                elif c < 0.2:
                    data = bytes(rng.randrange(256) for _ in range(rng.randint(1, 40)))
                elif c < 0.25:
                    data = rng.randbytes(rng.choice([511, 512, 513, 20000]))
                else:
                    data = ("text of %s\r\nline two\n" % name).encode("utf-8")
                spec[rel] = ("f", data, rng.random() < 0.3)
    fill("", 0)
    # make the prefix-sibling and the .lnk corner frequent (each in >= 25 % of the trees), at any depth
    if rng.random() < 0.45:
        dirs = sorted(k for k, v in spec.items() if v[0] == "d" and not k.split("/")[0].startswith((".bzr", ".git")))
        if dirs and rng.random() < 0.7:
            base = rng.choice(dirs)
        else:
            base = "a"
            if spec.get("a", ("d",))[0] != "d":
                base = "zz-dir"
            spec.setdefault(base, ("d", None, False))
        if not any(k.startswith(base + "/") for k in spec):
            spec[base + "/in-" + base.split("/")[-1]] = ("f", b"inside\n", False)
        sib = base + rng.choice(["b", ".lnk", " ", "-x", ".d", "\u00fc"])
        if sib not in spec:
            if rng.random() < 0.5:
                spec[sib] = ("d", None, False)
                spec[sib + "/in-sibling"] = ("f", b"in the sibling\n", False)
            else:
                spec[sib] = ("f", b"sibling\n", rng.random() < 0.5)
    if rng.random() < 0.6:
        # the path of a directory recurs deeper inside that directory, exactly (`lib/vendor/lib/util`) or as the
        # end of a longer name (`lib/mylib/mod`): `subdir + "/"` then occurs more than once in the tree path, so
        # anything but "strip the LEADING subdir/" (rpartition, replace, split ...) re-roots those entries wrongly
        dirs = sorted(k for k, v in spec.items() if v[0] == "d" and not k.split("/")[0].startswith((".bzr", ".git"))
                      and k.count("/") < 2)
        if dirs and rng.random() < 0.75:
            base = rng.choice(dirs)
        else:
            base = "lib" if spec.get("lib", ("d",))[0] == "d" else "zz-lib"
            spec.setdefault(base, ("d", None, False))
        comps = base.split("/")
        for variant in rng.sample(["exact", "suffix", "suffix"], rng.randint(1, 2)) + ["exact"][:rng.random() < 0.5]:
            mid = rng.choice(["vendor", "a b", "\u00fc", "3rd"])
            first = comps[0] if variant == "exact" else rng.choice(["my", "x", ".", "-"]) + comps[0]
            chain = ([base, mid] if variant == "exact" or rng.random() < 0.5 else [base]) + [first] + comps[1:]
            cur = ""
            for c in chain:
                cur = c if not cur else cur + "/" + c
                if spec.get(cur, ("d",))[0] != "d":
                    break
                spec.setdefault(cur, ("d", None, False))
            else:
                leaf = cur + "/" + rng.choice(["util.py", "mod", "d.txt"])
                spec.setdefault(leaf, ("f", ("deep in %s\n" % cur).encode("utf-8"), rng.random() < 0.3))
                if rng.random() < 0.5:
                    spec.setdefault(cur + "/deep", ("d", None, False))
                    spec.setdefault(cur + "/deep/data.bin", ("f", b"\x00\x01data", False))
    if rng.random() < 0.3:
        # the zip exporter stores the symlink `x` as a text member `x.lnk`
        links = sorted(k for k, v in spec.items() if v[0] == "l" and not k.split("/")[0].startswith((".bzr", ".git")))
        if links and rng.random() < 0.6:
            lk = rng.choice(links)
        else:
            lk = "x" if "x" not in spec else "zz-link"
            spec[lk] = ("l", "a", False)
        if lk + ".lnk" not in spec:
            spec[lk + ".lnk"] = ("f", b"a file called like the link + .lnk\n", False)
    if ".bzrignore" in spec:
        for k in [k for k in spec if k.startswith(".bzrignore/")]:
            del spec[k]
        spec[".bzrignore"] = ("f", b"zz-never\n", False)
    return spec


def build_tree(fmt, spec):
    wt = env.make_tree(fmt)
    root = wt.basedir
    for rel in sorted(spec, key=lambda p: p.split("/")):
        kind, data, ex = spec[rel]
        full = os.path.join(root, rel)
        if kind == "d":
            os.mkdir(full)
        elif kind == "l":
            os.symlink(data, full)
        else:
            with open(full, "wb") as f:
                f.write(data)
            if ex:
                os.chmod(full, 0o755)
    wt.smart_add([root])
    wt.commit("export me")
    return wt


def entries_of(tree):
    """the real entry stream with the attributes the exporters ask for"""
    out = []
    with tree.lock_read():
        for path, ie in tree.iter_entries_by_dir():
            k = {"file": "f", "directory": "d", "symlink": "l"}.get(ie.kind, "o")
            content, ex, target = b"", False, ""
            if k == "f":
                content = tree.get_file_text(path)
                ex = bool(tree.is_executable(path))
            elif k == "l":
                target = tree.get_symlink_target(path)
            out.append(dict(path=path, name=ie.name, kind=k, content=content, exec=ex, target=target,
                            has=bool(tree.has_filename(path)) if path else True))
    return out


def wf_problems(ents):
    seen = {}
    bad = []
    for e in ents:
        p = e["path"]
        comps = p.split("/") if p else []
        if p in seen:
            bad.append("duplicate path %r" % p)
        if any(c == "" for c in comps):
            bad.append("empty component in %r" % p)
        if (comps[-1] if comps else "") != e["name"]:
            bad.append("name %r is not the last component of %r" % (e["name"], p))
        if len(comps) > 1 and seen.get("/".join(comps[:-1])) != "d":
            bad.append("parent of %r not yielded before it as a directory" % p)
        if not e["has"]:
            bad.append("has_filename(%r) is false" % p)
        seen[p] = e["kind"]
    return bad


def enc_ents(ents):
    return ";".join("%s|%s|%s|%s|%s|%s" % (hx(e["path"]), hx(e["name"]), e["kind"], hx(e["content"]),
                                           "T" if e["exec"] else "F", hx(e["target"])) for e in ents) or "-"


# --------------------------------------------------------------------------
# reading exports back

def read_tar(data):
    out = []
    with tarfile.open(fileobj=io.BytesIO(data), mode="r:*") as tf:
        for m in tf.getmembers():
            if m.isreg():
                out.append((m.name, "f", tf.extractfile(m).read(), bool(m.mode & 0o100), ""))
            elif m.isdir():
                out.append((m.name, "d", b"", False, ""))
            elif m.issym():
                out.append((m.name, "l", b"", False, m.linkname))
            else:
                out.append((m.name, "o", b"", False, ""))
    return out


def read_zip(data):
    out = []
    with zipfile.ZipFile(io.BytesIO(data)) as zf:
        for i in zf.infolist():
            mode = i.external_attr >> 16
            if i.filename.endswith("/"):
                out.append((i.filename, "d", zf.read(i), False, ""))
            else:
                out.append((i.filename, "f", zf.read(i), bool(mode & 0o100), ""))
    return out


def read_dir(dest):
    out = []
    for dp, dns, fns in os.walk(dest):
        for n in sorted(dns + fns):
            full = os.path.join(dp, n)
            rel = os.path.relpath(full, dest)
            st = os.lstat(full)
            if stat.S_ISLNK(st.st_mode):
                out.append((rel, "l", b"", False, os.readlink(full)))
            elif stat.S_ISDIR(st.st_mode):
                out.append((rel, "d", b"", False, ""))
            else:
                with open(full, "rb") as f:
                    out.append((rel, "f", f.read(), bool(st.st_mode & 0o100), ""))
        # os.walk does not descend into symlinked directories (followlinks=False)
    return sorted(out)


def show_members(ms):
    return "ok " + (";".join("%s|%s|%s|%s|%s" % (hx(n), k, hx(c), "T" if x else "F", hx(t)) for n, k, c, x, t in ms) or "-")


def parse_members(reply):
    if not reply.startswith("ok "):
        return None
    body = reply[3:]
    if body == "-":
        return []
    out = []
    for m in body.split(";"):
        n, k, c, x, t = m.split("|")
        out.append((n, k, c, x, t))
    return out


# --------------------------------------------------------------------------
# the filtered view

def _upper_writer(chunks, context=None):
    return [b"".join(chunks).upper()]   # bytes.upper() touches ASCII letters only


def filtered_view(tree):
    from breezy.filter_tree import ContentFilterTree
    from breezy.filters import ContentFilter
    stack = [ContentFilter(None, _upper_writer)]

    def callback(path):
        return stack if path.endswith(FILTER_SUFFIX) else []
    return ContentFilterTree(tree, callback)


# --------------------------------------------------------------------------
# independent expectation

def root_dir(root):
    """the directory prefix "under the requested root" puts in front of every member name"""
    if not root:
        return ""
    return root if root.endswith("/") else root + "/"


def expected_members(ents, cls, root, subdir, special, filtered):
    """{RAW member name: [(kind, content, exec, target)]} computed on component paths.  tar / zip member names
    are compared raw (`<root>/<final path>`, exactly one separator, no `//`, no `./`); only the single trailing
    `/` that marks a zip directory member is removed by the reader side (`raw_name`)."""
    sc = [c for c in (subdir or "").split("/")] if subdir else []
    while sc and sc[-1] == "":
        sc.pop()
    whole = not subdir
    rd = root_dir(root) if cls != "dir" else ""
    exp = {}
    for e in ents:
        comps = e["path"].split("/") if e["path"] else []
        if not comps:
            continue
        if special is not None and comps[0].startswith(special):
            continue
        if whole:
            rel = comps
        elif comps == sc:
            if e["kind"] == "d":
                continue
            rel = comps[-1:]
        elif len(comps) > len(sc) and comps[:len(sc)] == sc and sc:
            rel = comps[len(sc):]
        else:
            continue
        name = rd + "/".join(rel)
        content = e["content"]
        if filtered and e["kind"] == "f" and e["path"].endswith(FILTER_SUFFIX):
            content = content.upper()
        if cls == "zip" and e["kind"] == "l":
            exp.setdefault(name + ".lnk", []).append(("f", e["target"].encode("utf-8"), False, ""))
        else:
            exp.setdefault(name, []).append((e["kind"], content if e["kind"] == "f" else b"", e["exec"] if e["kind"] == "f" else False,
                                             e["target"] if e["kind"] == "l" else ""))
    return exp


def norm_name(n):
    return "/".join(c for c in n.split("/") if c)


def raw_name(n, kind, cls):
    """the member name as stored; a zip directory member is marked by ONE trailing `/`"""
    if cls == "zip" and kind == "d" and n.endswith("/"):
        return n[:-1]
    if cls == "dir":
        return norm_name(n)
    return n


# --------------------------------------------------------------------------

_FAMILY_SEEN = {}


def _violation(ctx, case, what, family=None):
    """family-tagged (reported, awaiting triage) violations are recorded at most
    3x per run so that they cannot crowd out a new one"""
    if family is not None:
        _FAMILY_SEEN[family] = _FAMILY_SEEN.get(family, 0) + 1
        ctx.count("finding:" + family)
        if _FAMILY_SEEN[family] > 3:
            return
    ctx.violation(case, what, family=family)


def fmt_class(fmt):
    return "dir" if fmt == "dir" else "zip" if fmt == "zip" else "tar"


def run_export(tree, fmt, dest, root, subdir):
    """-> ('ok', members) | ('raised', exception)"""
    import warnings
    from breezy.export import export
    try:
        with warnings.catch_warnings():
            warnings.simplefilter("ignore", UserWarning)   # zipfile: "Duplicate name" (reported by the oracle)
            export(tree, dest, fmt, root=root, subdir=subdir)
    except Exception as e:   # noqa: BLE001 - classified by the caller
        return "raised", e
    if fmt == "dir":
        ms = read_dir(dest)
        shutil.rmtree(dest, ignore_errors=True)
    else:
        with open(dest, "rb") as f:
            data = f.read()
        os.unlink(dest)
        ms = read_zip(data) if fmt == "zip" else read_tar(data)
    return "ok", ms


AMBIGUOUS = ("leading-slash", "dot-prefix", "dot-suffix", "double-slash")


def normalise_selection(subdir):
    return "/".join(c for c in subdir.split("/") if c not in ("", "."))


def compare_members(exp, got, cls):
    """None if the extraction is exactly the expectation, else (what, family) for the first difference"""
    for n in sorted(set(exp) | set(got)):
        e_, g_ = exp.get(n, []), got.get(n, [])
        if e_ == g_ and len(g_) <= 1:
            continue
        fam = None
        if not g_:
            what = "member %r (%s) of the tree is missing from the export" % (n, e_[0][0])
        elif not e_:
            what = "export contains %r which is not in the selected tree" % (n,)
        elif len(e_) > 1 or len(g_) > 1:
            what = "member name %r occurs %d times in the export (%d tree entries map to it)" % (n, len(g_), len(e_))
            if cls == "zip" and n.endswith(".lnk") and len(e_) == len(g_) and sorted(e_) == sorted(g_):
                fam = "zip-symlink-lnk-name-collision"
        else:
            (ek, ec, ex_, et), (gk, gc, gx, gt) = e_[0], g_[0]
            if (ek, ec, et) == (gk, gc, gt) and ex_ != gx:
                what = "executable bit of %r is %s in the export, %s in the tree" % (n, gx, ex_)
            elif ek != gk:
                what = "%r is exported as kind %s, the tree has %s" % (n, gk, ek)
            elif ec != gc:
                what = "content of %r differs (%d bytes exported, %d expected)" % (n, len(gc), len(ec))
            else:
                what = "link target of %r is %r, the tree has %r" % (n, gt, et)
        return what, fam
    return None


def check_one(ctx, T, fmt, root, subdir, filtered, destname=None, oracle=True):
    """one export: returns (case, line, impl_out) for the model comparison, or None"""
    from breezy.export import get_root_name
    rt = T["tree"]
    ents = T["ents"]
    cls = fmt_class(fmt)
    special = T["special"]
    tree = rt
    if filtered:
        tree = filtered_view(rt)
        # probe: does the filtered view answer is_special_path like the tree it wraps?
        probe = special + "ignore"
        if not tree.is_special_path(probe):
            special_impl = None
        else:
            special_impl = special
    else:
        special_impl = special
    d = env.fresh_dir("c42")
    dest = os.path.join(d, (destname or "exp") + EXT[fmt])
    eff_root = get_root_name(dest) if root is None else root
    case = dict(tree=T["id"], fmt=fmt, root=root, subdir=subdir, filtered=filtered, dest=os.path.basename(dest))
    status, res = run_export(tree, fmt, dest, root, subdir)
    shutil.rmtree(d, ignore_errors=True)
    exp = expected_members(ents, cls, eff_root, subdir, special, filtered)
    ctx.count("fmt:" + fmt)
    ctx.count("subdir:" + T["subkinds"].get(subdir, "none" if subdir is None else "other"))
    ctx.count("filtered" if filtered else "plain")
    ctx.case(dict(ents=T["key"], fmt=fmt, root=root, subdir=subdir, filtered=filtered, dest=case["dest"]),
             nontrivial=sum(len(v) for v in exp.values()) >= 2)
    if status == "raised":
        e = res
        ctx.count("raised:" + type(e).__name__)
        fam = None      # no export may raise (the ContentFilterTree crash on symlinks is fixed: plain violation if it returns)
        selected_kinds = {v[0][0] for v in exp.values()} | ({"l"} if any(n.endswith(".lnk") for n in exp) and cls == "zip" else set())
        if oracle and subdir != "/":
            _violation(ctx, case, "export raised %s: %s (selection has kinds %s)" % (type(e).__name__, str(e)[:120], sorted(selected_kinds)),
                       family=fam)
        return None
    ms = res
    # ---- oracle ----------------------------------------------------------
    if oracle and subdir != "/":
        got = {}
        for n, k, c, x, t in ms:
            got.setdefault(raw_name(n, k, cls), []).append((k, c, x, t))
        verdicts = [compare_members(exp, got, cls)]
        if verdicts[0] and T["subkinds"].get(subdir) in AMBIGUOUS:
            # a selection that is no tree path (`/a`, `./a`, `a//b`, `a/.`): the code exports nothing (proved:
            # export_selection_empty_component / export_selection_not_in_tree, tied by T2); the property itself is
            # equally satisfied by an exporter that normalises the selection first
            alt = expected_members(ents, cls, eff_root, normalise_selection(subdir), special, filtered)
            verdicts.append(compare_members(alt, got, cls))
        if all(verdicts):
            what, fam = verdicts[0]
            _violation(ctx, case, what, family=fam)
        # every directory member precedes its children (archives keep the order)
        if cls != "dir":
            seen = set()
            rootn = len([c for c in (eff_root or "").split("/") if c])
            for n, k, c, x, t in ms:
                comps = norm_name(n).split("/")
                if len(comps) - rootn > 1 and "/".join(comps[:-1]) not in seen:
                    ctx.violation(case, "member %r comes before its directory" % n)
                    break
                if k == "d":
                    seen.add("/".join(comps))
    # ---- model line --------------------------------------------------------
    line = "exp %s %s %s %s %s %s" % (
        ("zipx" if _ZIP_KEEPS_EXEC[0] else "zip") if cls == "zip" else cls, "~" if special_impl is None else hx(special_impl), hx(FILTER_SUFFIX) if filtered else "~",
        hx(eff_root), "~" if subdir is None else hx(subdir), T["enc"])
    if cls == "dir":
        impl = show_members(ms)
    elif cls == "zip":
        impl = show_members(ms)
    else:
        impl = show_members(ms)
    return case, line, impl, cls


def canon_model(reply, cls):
    """the dir exporter's order is not observable: sort the model's members like the walk"""
    if cls != "dir" or not reply.startswith("ok ") or reply == "ok -":
        return reply
    ms = reply[3:].split(";")
    ms.sort(key=lambda m: bytes.fromhex(m.split("|")[0].replace("-", "")).decode("utf-8"))
    return "ok " + ";".join(ms)


def subdir_choices(ents, rng):
    """{subdir: kind-of-choice}"""
    out = {None: "none", "": "empty"}
    dirs = [e["path"] for e in ents if e["kind"] == "d" and e["path"]]
    files = [e["path"] for e in ents if e["kind"] == "f"]
    links = [e["path"] for e in ents if e["kind"] == "l"]
    for p in dirs:
        out[p] = "dir"
    for p in rng.sample(dirs, min(2, len(dirs))):
        out[p + "/"] = "dir-slash"
        out[p + "//"] = "dir-slash"
    for p in rng.sample(files, min(2, len(files))):
        out[p] = "file"
    for p in rng.sample(links, min(1, len(links))):
        out[p] = "symlink"
    out["no/such"] = "missing"
    out["/"] = "slash-only"
    # selections that are no tree path: leading slash, doubled separator, `.` components
    # (the theorems export_selection_empty_component / export_selection_not_in_tree: nothing is exported)
    allp = [e["path"] for e in ents if e["path"] and not e["path"].startswith((".bzr", ".git"))]
    for p in rng.sample(allp, min(2, len(allp))):
        out.setdefault("/" + p, "leading-slash")
    for p in rng.sample(allp, min(1, len(allp))):
        out.setdefault("./" + p, "dot-prefix")
    for p in rng.sample(dirs, min(1, len(dirs))):
        out.setdefault(p + "/.", "dot-suffix")
        out.setdefault("//" + p, "leading-slash")
    nested = [p for p in allp if "/" in p]
    for p in rng.sample(nested, min(2, len(nested))):
        out.setdefault(p.replace("/", "//", 1), "double-slash")
        out.setdefault(p.rsplit("/", 1)[0] + "//", "dir-slash")
    for p in dirs:
        # the selection's own path recurs deeper inside it (`lib/vendor/lib/...`, `lib/mylib/...`)
        if any(e["path"].startswith(p + "/") and e["path"].find(p + "/", 1) > 0 for e in ents):
            out[p] = "dir+path-recurs-inside"
    paths = {e["path"] for e in ents}
    for p in sorted(paths):
        # a selection that is a proper string prefix of a sibling name
        if p and any(q != p and q.startswith(p) and not q.startswith(p + "/") for q in paths):
            out.setdefault(p, "string-prefix-of-sibling")
            if out[p] in ("dir", "dir+path-recurs-inside"):
                out[p] = out[p] + "+string-prefix-of-sibling"
    return out


_ZIP_KEEPS_EXEC = [None]


def probe_zip_exec(ctx):
    """which zip exporter is under test: the one that records every file as
    0644 (as found; the oracle reports each lost bit) or one that records the
    executable bit?  Selects the model variant only."""
    from breezy.export import export
    wt = env.make_tree("2a")
    with open(os.path.join(wt.basedir, "p"), "wb") as f:
        f.write(b"#!/bin/sh\n")
    os.chmod(os.path.join(wt.basedir, "p"), 0o755)
    wt.smart_add([wt.basedir])
    wt.commit("probe")
    d = env.fresh_dir("c42p")
    dest = os.path.join(d, "p.zip")
    export(wt.branch.basis_tree(), dest, "zip", root="")
    with open(dest, "rb") as f:
        ms = read_zip(f.read())
    shutil.rmtree(d, ignore_errors=True)
    shutil.rmtree(wt.basedir, ignore_errors=True)
    _ZIP_KEEPS_EXEC[0] = bool(ms and ms[0][3])
    ctx.extra["zip_exporter_variant"] = "records-exec-bit" if _ZIP_KEEPS_EXEC[0] else "always-0644"


ROOTS = [None, "", "r", "r/s", "r/", "ünï r", "R" * 110]
DESTS = ["exp", "my exp", "üx", "x.tar", ".tar"]


def make_T(ctx, fmt, seed):
    import random
    rng = random.Random(repr(seed))
    spec = gen_spec(rng)
    wt = build_tree(fmt, spec)
    rt = wt.branch.basis_tree()
    rt.lock_read()
    ents = entries_of(rt)
    T = dict(id=list(seed), tree=rt, ents=ents, enc=enc_ents(ents), special=".bzr" if fmt == "2a" else ".git",
             wt=wt, rng=rng)
    import hashlib
    T["key"] = hashlib.sha1(T["enc"].encode()).hexdigest()[:16] + ":" + fmt
    T["subkinds"] = subdir_choices(ents, rng)
    bad = wf_problems(ents)
    if bad:
        ctx.violation(dict(tree=T["id"]), "iter_entries_by_dir stream is not well-formed: %s" % bad[:3])
    for e in ents:
        ctx.count("kind:" + e["kind"])
    ctx.count("tree-entries:%d" % min(len(ents), 20))
    return T


def drop_T(T):
    try:
        T["tree"].unlock()
    except Exception:   # noqa: BLE001
        pass
    shutil.rmtree(T["wt"].basedir, ignore_errors=True)


def root_table(ctx):
    from breezy import archive
    from breezy.export import get_root_name, guess_format
    rng = ctx.rng
    dests = ["-", "a", "a.tar", "d/a.tar.gz", "a.tgz", "a.tar.bz2", "a.tbz2", "a.tar.lzma", "a.tar.xz", "a.zip",
             "a.tar.zip", "a.zip.tar", "a.tar.gz.old", ".tar", "tar", "x/.zip", "a.tar/b", "a.TAR", "d.zip/", "a.tgz.tgz",
             "ü.tar.xz", "a b.zip", "a.tar.", "a.tar.g", "gz", "a.gz", "a.bz2", "-.tar", "--"]
    exts = list(archive.format_registry.extensions)
    stems = ["a", "a b", "\u00fc", "a.tar", "x.tgz", ".hidden", "a.", "-"]
    for ext in exts:
        for st in rng.sample(stems, 3):
            dests.append(rng.choice(["", "d/", "/abs/d.zip/", "./"]) + st + ext)
    cases, lines, impls = [], [], []
    # the registered extensions, in registration order (first match wins in get_root_name)
    cases.append(dict(op="exts")); lines.append("exts"); impls.append("|".join(hx(e) for e in exts))
    if any(a != b and a.endswith(b) for a in exts for b in exts):
        ctx.assumptions.append("registered archive extensions are NOT suffix-free on this tree: rootName_strips_ext does not apply")
        ctx.mismatch(dict(op="exts"), "|".join(exts), "suffix-free list expected (theorem ext_suffix_free)")
    for t in ["", "/", "a", "a/b", "/a", "a//b", "a/", "//", "./a", "a/.", "\u00fc/ b/", "a/b//c/d"]:
        cases.append(dict(op="split", s=t)); lines.append("split %s" % hx(t)); impls.append("|".join(hx(c) for c in t.split("/")))
    for d in dests:
        if d != "-" and "/" not in os.path.basename(d):
            for ext in exts:
                b = os.path.basename(d)
                if b.endswith(ext) and get_root_name(d) != b[:-len(ext)]:
                    # rootName_strips_ext: exactly the one registered extension is stripped, whatever the stem
                    ctx.violation(dict(op="root", dest=d), "get_root_name(%r) = %r, expected %r" % (d, get_root_name(d), b[:-len(ext)]))
    for d in dests:
        cases.append(dict(op="root", dest=d))
        lines.append("root %s" % hx(d))
        impls.append(hx(get_root_name(d)))
        ctx.case(dict(op="root", dest=d), nontrivial=True)
        # oracle: the root is the basename without the extension of the guessed format
        fmt = guess_format(d)
        b = os.path.basename(d)
        r = get_root_name(d)
        if d != "-" and not (b.startswith(r) and (b == r or fmt != "dir")):
            ctx.violation(cases[-1], "get_root_name(%r) = %r is not the basename minus the archive extension" % (d, r))
    ctx.diff(cases, lines, impls)


NOTHING = AMBIGUOUS + ("missing", "slash-only")


def combos_for(ctx, T, n):
    rng = T["rng"]
    real = [s for s, k in T["subkinds"].items() if k not in NOTHING]
    nothing = [s for s, k in T["subkinds"].items() if k in NOTHING]
    rng.shuffle(nothing)
    # every real selection once and up to n/4 selections that denote nothing; formats round robin
    subs = real + nothing[:max(3, n // 4)]
    out = []
    fmts = FORMATS[:]
    rng.shuffle(fmts)
    i = 0
    for s in subs:
        out.append((fmts[i % len(fmts)], rng.choice(ROOTS), s, rng.random() < 0.2))
        i += 1
    while len(out) < n:
        out.append((rng.choice(FORMATS), rng.choice(ROOTS), rng.choice(real), rng.random() < 0.25))
    if len(out) > n:
        keep = [o for o in out if "+" in T["subkinds"].get(o[2], "")]      # the aimed corners are never dropped
        rest = [o for o in out if o not in keep]
        rng.shuffle(rest)
        out = keep + rest[:max(0, n - len(keep))]
    return out


def run(ctx, ntrees=None, per_tree=None):
    os.umask(0o022)
    _FAMILY_SEEN.clear()
    probe_zip_exec(ctx)
    root_table(ctx)
    ntrees = ntrees or ctx.pick(48, 300)
    per_tree = per_tree or ctx.pick(16, 40)
    cases, lines, impls, clss = [], [], [], []
    for i in range(ntrees):
        fmt = "git" if i % 4 == 3 else "2a"
        try:
            T = make_T(ctx, fmt, (ctx.seed, fmt, i))
        except Exception as e:   # noqa: BLE001 - a tree the format refuses
            ctx.count("tree-build-failed:" + type(e).__name__)
            continue
        try:
            for (f, root, sub, filtered) in combos_for(ctx, T, per_tree):
                dn = T["rng"].choice(DESTS) if root is None else None
                r = check_one(ctx, T, f, root, sub, filtered, destname=dn)
                if r:
                    cases.append(r[0]); lines.append(r[1]); impls.append(r[2]); clss.append(r[3])
        finally:
            drop_T(T)
    if lines:
        outs = ctx.model(lines)
        for c, l, i_, m, cls in zip(cases, lines, impls, outs, clss):
            ctx.traces += 1
            m2 = canon_model(m, cls)
            if i_ != m2:
                ctx.mismatch(c, _short(i_), _short(m2), line=l if len(l) < 4000 else l[:4000] + "...")


def _short(s):
    return s if len(s) < 3000 else s[:3000] + "..."


def widen(ctx):
    run(ctx, ntrees=120, per_tree=30)


def replay(ctx, case):
    os.umask(0o022)
    if case.get("op") == "root":
        from breezy.export import get_root_name
        m = ctx.model(["root %s" % hx(case["dest"])])[0]
        return dict(case=case, impl=hx(get_root_name(case["dest"])), model=m)
    if case.get("op") == "exts":
        from breezy import archive
        return dict(case=case, impl="|".join(hx(e) for e in archive.format_registry.extensions), model=ctx.model(["exts"])[0])
    if case.get("op") == "split":
        return dict(case=case, impl="|".join(hx(c) for c in case["s"].split("/")), model=ctx.model(["split %s" % hx(case["s"])])[0])
    probe_zip_exec(ctx)
    seed = tuple(case["tree"])
    T = make_T(ctx, seed[1], seed)
    try:
        dn = case.get("dest")
        if dn:
            for ext in sorted(EXT.values(), key=len, reverse=True):
                if ext and dn.endswith(ext):
                    dn = dn[:-len(ext)]
                    break
        r = check_one(ctx, T, case["fmt"], case["root"], case["subdir"], case["filtered"], destname=dn)
        out = dict(case=case, entries=[(e["path"], e["kind"]) for e in T["ents"]],
                   oracle_failures=[v["what"] for v in ctx.violations])
        if r:
            m = canon_model(ctx.model([r[1]])[0], r[3])
            out.update(impl=_short(r[2]), model=_short(m), agree=(m == r[2]))
        return out
    finally:
        drop_T(T)
