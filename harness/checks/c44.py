"""C44 — fast-export followed by fast-import preserves history.

Mechanism: breezy/plugins/fastimport/exporter.py (BzrFastExporter: interesting_history, preprocess_commit /
marks, _get_commit_command (from / merge, committer via parseaddr), _get_filecommands,
_process_renames_and_deletes, emit_tags), processors/generic_processor.py (GenericProcessor: commit / reset /
tag handlers, branch updates), bzr_commit_handler.py (CommitHandler: parents from marks, build_revision,
modify / delete / rename handlers), revision_store.py.  The stream syntax (parser, command classes) is the
external `fastimport` package.

Model (lean/BreezyVerif/Model/C44.lean): a tree is a list of entries (file id, path token, own (parent id,
name) token, is-directory, value token = kind+content+exec); `exportCmds` is the exporter's file-command list
for (first-parent tree, tree) in plain mode as the code computes it: for the entries whose own (parent,
name) changed, in old-path order, `D new` when the new path is a deleted path, then `R old new`
(directories: nothing); the remaining deletes; then `M path value` for added entries, entries whose value
changed and kind changes.  Nothing is emitted for an entry that only sits below a renamed directory.
`applyCmds` is the importer on path space: D removes, R moves (replacing the target), M sets.  A history is
a topologically ordered commit list; `exportGraph` gives every commit its mark, `from` and `merge` list
(ghost and unexported parents dropped), `importGraph` maps marks back to the new revisions.

`renamePass` + the remaining deletes + the `M` commands are proved faithful for every pair of trees whose renamed
entries are files/symlinks without chains (`export_import_tree_rename_partial`).  Metadata: the committer
string is modelled character by character (`splitCommitter` = `_get_name_email`'s pattern, `formatWho` =
`format_who_when`, `parseWho` = the parser's `([^<]*)<(.*)> (.+)` with the right-strip, `joinWho` =
`_format_name_email`), the zone as `formatZone` / `parseZone` (sign, `//3600`, `//60 - h*60`; `sign*60*(60h+m)`),
tags as `exportTags` (mark + `check_ref_format` filter in the plain format, `validRef` byte by byte) and
`importTags` (`reset refs/tags/…` binds the name to the mark's revision).

T2: generated histories (the generator of C40: merges, ghost parents after the first, renames, directory moves,
swaps, deletions, symlinks, exec bits, unicode names, odd messages and committers - among them the bare
`<email>` form; integral timestamps; zones with minutes and both signs) get tags and a branch tip, are
exported by the real exporter in both formats (plain = the command's default: model + oracle; rich =
--no-plain: oracle, graph correspondence and revision properties), the stream is parsed with the real parser and imported into a fresh shared repository by the real
GenericProcessor.  Per commit the model's command list is compared with the real one (rename/delete prefix in
order, modifications as a set), the model's `applyCmds` of the real commands on the imported first-parent
tree with the imported tree, the model's marks / from / merge lists with the stream, the model's
`importAll (exportAll h)` parents with the parents of the imported revisions (`igraph`), the zone field the
exporter wrote and the offset the parser read with `formatZone` / `parseZone`, the committer of the imported
revision with `committerRoundtrip` (variant probed: does the importer join an empty name without the blank),
the stream's `reset refs/tags/…` commands with `exportTags` and the imported tag table with `importTags`.
Besides the random histories every run contains 6 (thorough: all 32) variants of a directed merge family: the
mainline renames an entry a -> b, a side branch keeps it at a, and the merge creates an unrelated NEW entry at
the vacated path a (sub-directory or not, with or without a further rename b -> c in the merge, side branch
modifying the entry or not, file / symlink on either side) - relative to the first parent an addition while
another parent's inventory still holds the renamed entry's file id at that path (seeded change C44b: the
importer then reuses that id: InconsistentDelta, or the renamed entry silently disappears).
Independently of the histories: `check_ref_format` against `validRef` on ~300 names built from the characters
the rules mention, `_get_name_email` against `splitCommitter` and the parser's `_who_when` against `parseWho`
on ~170 committers / committer lines built from `<`, `>`, blanks, tabs and address syntax (strings the
pattern does not match go to `parseaddr`, which is not modelled: counted, not compared).

Oracle (independent of the model): the imported repository has as many revisions as the exported branch's
ancestry; under mark ↦ new revision id every revision has the mapped parent list (ghosts dropped), the same
message, committer, timestamp, timezone, the same tree (paths, kinds, contents, exec bits, symlink targets;
empty directories are outside the comparison); the imported branch tip is the image of the tip; the tags are the
images of the tags that point into the exported ancestry.

Mutants this was built against (scratch worktree /var/tmp/wt-C44): exporter drops the merge lines; exporter
uses the last parent as `from`; exporter omits the `D new` before a rename onto a deleted path (T2: needs
`rm a; mv b a` in one commit); importer's delete handler is a no-op; importer ignores the committer's
timezone; emit_tags names the branch tip for every tag; kind_to_mode loses the executable bit; importer
keeps only the first parent; exporter emits no `M` for a renamed file whose executable bit alone changed
(T2).  Harmless (stays clean): set-comprehension rewrite of deleted_paths.  Fix-reverted runs (each a plain
VIOLATION): d152a8f (committer split), f3af31c (bytes property names of rich streams).

Mutants of the improvement round (worktree with the committer patch applied; each caught): emit_tags without the
check_ref_format filter (T2 xtags + tags, oracle "tags differ"), check_ref_format without the `..` rule (T2 xtags /
tags; the `ref` stream when the seed draws such a name), _get_name_email splitting at the FIRST `<` (T2 split),
importer keeps only the first parent (T2 igraph + oracle), importer drops the zone's sign (oracle, -0330 / -0500),
exporter emits a ghost parent as `merge :1` (T2 graph + igraph, oracle parents).  Harmless (stays clean): emit_tags
iterating the tags sorted.

Families (classifiers below, all computed from the abstract history): known — export-rename-chain-or-swap,
plain-export-directory-rename-leaves-children-behind,
plain-export-directory-renamed-onto-deleted-path-drops-the-delete,
rich-import-change-below-directory-renamed-in-same-commit, rich-import-directory-rename-in-a-merge-revision;
found here and fixed by 1e7b782 (plain violations if they return; each checked by reverting the hunk):
committer-email-only-gains-leading-blank, import-new-entry-at-path-vacated-by-rename (the apply correspondence now
covers `R a b` + `M a`), import-rename-to-path-below-own-old-path-does-not-terminate (`R sub sub/d/f`: the importer
gave the directory it creates at `sub` the renamed file's id; CHKInventory.create_by_apply_delta then looped and
allocated without bound).
Every import therefore runs in a forked child with a CPU-time limit (30 s of CPU, not wall time) and an
address-space limit (3 GB): a child killed by a limit is "does not terminate" (a violation with the commit it
was processing); a wall-clock timeout without CPU exhaustion is an infrastructure error (exit 2).  Fixed and therefore plain violations if they
return: d152a8f, f3af31c, 753774b (import-rename-of-file-below-directory-renamed-earlier).
"""
import collections
import hashlib
import os
import random
import re
import shutil

from vlib import env
from checks import c40

THEOREMS = ["committer_roundtrip_name_email", "committer_roundtrip_plain", "committer_defects_witness",
            "export_import_tree_norename", "export_import_tree_rename_partial", "rename_swap_witness",
            "directory_rename_witness", "import_export_graph", "import_export_iso_partial",
            "import_export_iso_of_fine_partial", "zone_roundtrip", "zone_seconds_lost_witness", "tags_preserved"]
RULE = ("scenario = (seed, index): a generated history of 5-8 revisions with tags, or ('m', seed, variant): the directed "
        "merge family (mainline renames an entry, the merge re-adds its old path), or ('x', seed, variant): the directed "
        "single-entry metadata family (rename / move / chmod / symlink-retarget combinations, one entry per revision), exported from its tip in both "
        "formats and imported into a fresh repository; case = one commit of the stream (its file commands, its "
        "parents, its imported tree) or the whole-history comparison; non-trivial = the commit has a rename, a "
        "deletion or >= 2 parents; distinct by canonical (old tree, new tree) / history")
ASSUMPTIONS = [
    "timestamps are whole seconds and timezones whole minutes (the stream format cannot carry more)",
    "committers have the form 'Name <email>' without RFC 822 specials in the name, or contain no '<' at all "
    "(the exporter splits them with email.utils.parseaddr); other forms are reported under their own family",
    "the fastimport package's parser and command serialisation round-trip (exercised, not modelled)",
]
TRUSTED = [
    "file ids, per-file graphs, inventories and repository storage of the importer are observed through the "
    "imported trees only; the model is on path space",
    "vcsgraph's merge_sort (the export order) is external: the model takes the exported order as given and "
    "requires it to be topological (checked per case)",
]

NULL = b"null:"


# ------------------------------------------------------------------ real export / import
def do_export(branch, plain=True, **kw):
    from io import BytesIO
    from breezy.plugins.fastimport import exporter as _exp, load_fastimport
    load_fastimport()
    out = BytesIO()
    ex = _exp.BzrFastExporter(branch, outf=out, ref=b"refs/heads/master", checkpoint=10000, plain_format=plain, **kw)
    ex.run()
    return out.getvalue(), ex


def parse_stream(stream):
    from io import BytesIO
    from fastimport import parser
    return list(parser.ImportParser(BytesIO(stream), verbose=False).iter_commands())


def do_import(stream):
    from io import BytesIO
    from fastimport import parser
    from breezy.plugins.fastimport.helpers import open_destination_directory
    from breezy.plugins.fastimport.processors import generic_processor
    d = env.fresh_dir("imp")
    control = open_destination_directory(d, format=None, verbose=False)
    params = {b"info": None, b"trees": False, b"count": -1, b"checkpoint": 10000, b"autopack": 4,
              b"inv-cache": -1, b"mode": "default", b"import-marks": None, b"export-marks": None}
    proc = generic_processor.GenericProcessor(verbose=False, bzrdir=control, params=params)
    proc.process(parser.ImportParser(BytesIO(stream), verbose=False).iter_commands)
    return d, proc


IMPORT_CPU_S = 30          # CPU seconds (not wall time: the machine may be loaded); a normal import needs < 2
IMPORT_AS = 3 << 30        # bytes of address space
IMPORT_WALL_S = 1500


def do_import_isolated(stream, marks):
    """the import in a forked child with a CPU-time and an address-space limit: native code that loops cannot
    be interrupted by a Python signal handler, and a runaway import must not take the machine down.
    -> dict(status="ok", dir=…, marks={mark: revid}) | dict(status="raised", exc=…, msg=…, log=…, last_mark=…)
     | dict(status="killed", signal=…, last_mark=…) | dict(status="wall-timeout")"""
    import contextlib
    import io
    import json
    import resource
    import signal
    import time
    from io import BytesIO
    from fastimport import commands, parser
    from breezy.plugins.fastimport.helpers import open_destination_directory
    from breezy.plugins.fastimport.processors import generic_processor
    d = env.fresh_dir("imp")
    res_path, prog_path = d + ".res", d + ".progress"
    pid = os.fork()
    if pid == 0:
        code = 0
        try:
            resource.setrlimit(resource.RLIMIT_CPU, (IMPORT_CPU_S, IMPORT_CPU_S + 5))
            resource.setrlimit(resource.RLIMIT_AS, (IMPORT_AS, IMPORT_AS))
            signal.signal(signal.SIGALRM, signal.SIG_DFL)
            signal.alarm(0)
            log = io.StringIO()
            prog = open(prog_path, "w")

            def cmds():
                for c in parser.ImportParser(BytesIO(stream), verbose=False).iter_commands():
                    if isinstance(c, commands.CommitCommand):
                        prog.write("%s\n" % c.mark.decode())
                        prog.flush()
                    yield c
            try:
                with contextlib.redirect_stdout(log):
                    control = open_destination_directory(d, format=None, verbose=False)
                    params = {b"info": None, b"trees": False, b"count": -1, b"checkpoint": 10000, b"autopack": 4,
                              b"inv-cache": -1, b"mode": "default", b"import-marks": None, b"export-marks": None}
                    proc = generic_processor.GenericProcessor(verbose=False, bzrdir=control, params=params)
                    proc.process(cmds)
                got = {}
                for m in marks:
                    try:
                        got[str(m)] = proc.cache_mgr.lookup_committish(b":%d" % m).decode("latin-1")
                    except Exception:   # noqa: BLE001
                        got[str(m)] = None
                res = dict(status="ok", marks=got)
            except MemoryError:
                res = dict(status="killed", signal="MemoryError")
            except Exception as e:   # noqa: BLE001 - reported by the parent
                res = dict(status="raised", exc=type(e).__name__, msg=str(e)[:400], log=log.getvalue()[-2000:])
            with open(res_path, "w") as f:
                json.dump(res, f)
        except BaseException:   # noqa: BLE001
            code = 1
        finally:
            os._exit(code)
    t0 = time.time()
    status = None
    while time.time() - t0 < IMPORT_WALL_S:
        p, st = os.waitpid(pid, os.WNOHANG)
        if p:
            status = st
            break
        time.sleep(0.05)
    last_mark = None
    try:
        last_mark = int(open(prog_path).read().split()[-1])
    except Exception:   # noqa: BLE001
        pass
    for f in (prog_path,):
        with contextlib.suppress(OSError):
            os.unlink(f)
    if status is None:
        os.kill(pid, signal.SIGKILL)
        os.waitpid(pid, 0)
        return dict(status="wall-timeout", dir=d)
    if os.WIFSIGNALED(status):
        return dict(status="killed", signal=os.WTERMSIG(status), last_mark=last_mark, dir=d)
    try:
        res = json.load(open(res_path))
        os.unlink(res_path)
    except Exception:   # noqa: BLE001
        return dict(status="killed", signal="exit %d without a result" % os.WEXITSTATUS(status), last_mark=last_mark, dir=d)
    res["dir"] = d
    res["last_mark"] = last_mark
    if res.get("status") == "ok":
        res["marks"] = {int(k): (v.encode("latin-1") if v is not None else None) for k, v in res["marks"].items()}
    return res


def tree_dump(tree, dirs=False):
    out = {}
    with tree.lock_read():
        for p, ie in tree.iter_entries_by_dir():
            if ie.kind == "file":
                out[p] = ("file", tree.get_file_text(p), bool(ie.executable))
            elif ie.kind == "symlink":
                out[p] = ("symlink", ie.symlink_target, False)
            elif dirs and p:
                out[p] = ("directory", None, False)
    return out


_BARE = [False]


def probe_join(ctx):
    """does the importer write `<email>` (without the separating blank) for an empty name?  selects the model
    variant of `_format_name_email` only; the oracle reports the changed committer itself"""
    from breezy.branch import Branch
    stream = b"commit refs/heads/master\nmark :1\ncommitter <x@y> 1 +0000\ndata 1\nm\n\n"
    d, _proc = do_import(stream)
    try:
        b = Branch.open(os.path.join(d, "trunk"))
        _BARE[0] = b.repository.get_revision(b.last_revision()).committer == "<x@y>"
    finally:
        shutil.rmtree(d, ignore_errors=True)
    ctx.extra["importer_joins_empty_name_without_blank"] = bool(_BARE[0])


def hx(s):
    return s.encode("utf-8").hex() or "-"


def _tok(x, n=7):
    return int(hashlib.sha1(repr(x).encode()).hexdigest()[:n], 16)


# ------------------------------------------------------------------ abstract entries
def entries_of(tree):
    """fid -> (path, own key, is_dir, value) of an abstract tree (c40 representation), root left out"""
    paths = c40.tree_paths(tree)
    out = {}
    for fid, e in tree.items():
        if e[0] is None:
            continue
        val = (e[2], e[3], bool(e[4]) if e[2] == "file" else False)
        out[fid] = (paths[fid], (e[0], e[1]), e[2] == "directory", val)
    return out


class Tokens:
    """path tokens ordered like the path strings (the exporter sorts renames by old path)"""

    def __init__(self, paths):
        self.p = {p: i + 1 for i, p in enumerate(sorted(set(paths)))}

    def path(self, p):
        return self.p[p]


def enc_ents(ents, tk, fidn):
    return ";".join("%d.%d.%d.%s.%d" % (fidn[f], tk.path(e[0]), _tok(e[1]), "d" if e[2] else "f", _tok(e[3]))
                    for f, e in sorted(ents.items())) or "-"


def enc_flat(dump, tk):
    return ";".join("%d.%d" % (tk.path(p), _tok(v)) for p, v in sorted(dump.items())) or "-"


def dump_value(v):
    """value token source of a real tree dump entry, same shape as entries_of's val"""
    return (v[0], v[1], v[2])


# ------------------------------------------------------------------ families
def classify_tree_diff(old_ents, new_ents, plain=True):
    """families of exporter defects a (first-parent tree, tree) pair falls into, from the entries alone
    (the directory-rename family is a defect of the plain format only)"""
    fams = set()
    moved_dirs = [f for f, e in new_ents.items() if e[2] and f in old_ents and old_ents[f][0] != e[0]]
    for f, e in new_ents.items():
        if plain and f in old_ents and not e[2] and old_ents[f][0] != e[0] and old_ents[f][1] == e[1]:
            fams.add("plain-export-directory-rename-leaves-children-behind")
    # entries (files, symlinks and directories) renamed by their own name / parent
    own = [(old_ents[f][0], e[0]) for f, e in new_ents.items()
           if f in old_ents and old_ents[f][1] != e[1]]
    olds = {o for o, _n in own}
    if any(n in olds for _o, n in own):
        fams.add("export-rename-chain-or-swap")
    # plain format: a directory renamed onto the path of a deleted entry consumes that delete without
    # emitting it (the directory itself is not exported), so the deleted entry survives
    if plain:
        gone = {e[0] for f, e in old_ents.items() if f not in new_ents and not e[2]}
        if any(e[2] and f in old_ents and old_ents[f][1] != e[1] and e[0] in gone for f, e in new_ents.items()):
            fams.add("plain-export-directory-renamed-onto-deleted-path-drops-the-delete")
    # a path that is deleted (or vacated by a directory that moved) and re-used by a different entry
    old_paths = {e[0]: f for f, e in old_ents.items()}
    for f, e in new_ents.items():
        if e[0] in old_paths and old_paths[e[0]] != f and not e[2]:
            of = old_paths[e[0]]
            if plain and of in new_ents and old_ents[of][1] == new_ents[of][1] and old_ents[of][0] != new_ents[of][0]:
                fams.add("plain-export-directory-rename-leaves-children-behind")
    return fams


def classify_rich_import(old_ents, new_ents):
    """rich format: the importer cannot take a change below a directory that the same commit renames
    (`R a z` followed by `M z/child`: the new path is looked up in the basis inventory)"""
    for f, e in new_ents.items():
        if e[2] and f in old_ents and old_ents[f][1] != e[1]:            # a directory renamed by its own name / parent
            prefix = e[0] + "/"
            for g, ge in new_ents.items():
                if ge[0].startswith(prefix) and (g not in old_ents or old_ents[g][3] != ge[3] or old_ents[g][1] != ge[1]):
                    return {"rich-import-change-below-directory-renamed-in-same-commit"}
    return set()


# ------------------------------------------------------------------ scenario
TAGS = ["v1", "release-1.0", "with space", "été", "a/b", "x..y"]


def git_valid_tag(name):
    """the plain format only carries tags whose name is a valid git ref (documented: others are skipped
    with a warning unless --rewrite-tag-names is given)"""
    b = name.encode("utf-8")
    if b.startswith(b".") or b"/." in b or b".." in b or b"@{" in b or b"\\" in b or b.endswith((b"/", b".", b".lock")):
        return False
    return not any(c < 0o40 or c in b"\177 ~^:?*[" for c in b)


def merge_readd_history(rng, variant):
    """a directed family every run contains: the mainline RENAMES an entry (a -> b) while a side branch
    keeps it at `a`; the MERGE of the side branch creates an unrelated new entry at the vacated path `a` -
    relative to the first parent an addition, while the other parent's inventory still has the renamed entry's
    file id at that path.  Variants (bits of `variant`): the entries live in a sub-directory; the merge also
    renames the entry on (b -> c); the side branch modifies the entry at its old path; the new entry is a
    file / symlink; the renamed entry is a file / symlink.  Names and contents are drawn from the seed."""
    root = c40.ROOT_ID
    names = rng.sample(["a", "b", "c", "d", "e", "f1", "with space", "\u00e9t\u00e9", "x-y", "n0"], 5)
    a, b, c_, other, extra = names
    in_dir, further, side_mod = variant & 1, variant & 2, variant & 4
    new_kind = "symlink" if variant & 8 else "file"
    x_kind = "symlink" if variant & 16 else "file"
    X, O, D, N, E = b"f-1", b"f-2", b"d-3", b"f-4", b"f-5"
    xdata = "target" if x_kind == "symlink" else c40.gen_content(rng, "guarded")
    base = {root: (None, "", "directory", None, False)}
    par = root
    if in_dir:
        base[D] = (root, rng.choice(["dir", "sub"]), "directory", None, False)
        par = D
    base[X] = (par, a, x_kind, xdata, False)
    base[O] = (root, other, "file", c40.gen_content(rng, "guarded"), False)
    t2 = dict(base)
    t2[X] = (par, b, x_kind, xdata, False)                                    # mainline: a -> b
    t3 = dict(base)
    t3[O] = (root, other, "file", c40.gen_content(rng, "guarded"), True)      # side branch: the entry stays at a
    if side_mod and x_kind == "file":
        t3[X] = (par, a, "file", c40.mutate_content(rng, xdata, "guarded"), False)
    t4 = dict(t2)
    t4[O] = t3[O]
    if side_mod and x_kind == "file":
        t4[X] = (par, b, "file", t3[X][3], False)
    t4[N] = (par, a, new_kind, "a/b" if new_kind == "symlink" else c40.gen_content(rng, "guarded"), False)   # merge: a NEW entry at a
    if further:
        t4[X] = (par, c_, t4[X][2], t4[X][3], False)                          # ... and the renamed entry moves on: b -> c
    t5 = dict(t4)
    t5[E] = (root, extra, "file", c40.gen_content(rng, "guarded"), False)
    trees = [("r01", [], base, ["init"]), ("r02", ["r01"], t2, ["rename"]), ("r03", ["r01"], t3, ["modify"]),
             ("r04", ["r02", "r03"], t4, ["merge-readd" + ("+rename" if further else "")]), ("r05", ["r04"], t5, ["add"])]
    revs = []
    for i, (rid, parents, tree, ops) in enumerate(trees):
        revs.append(dict(rid=rid.encode(), parents=[p.encode() for p in parents], tree=tree, ops=ops,
                         msg=rng.choice(c40.MESSAGES), ts=float(1500000000 + i * 1000),
                         tz=rng.choice([0, 3600, -18000, 19800, -12600]), committer=rng.choice(c40.COMMITTERS), props={}))
    return revs


def meta_history(rng, variant):
    """a second directed family every run contains: a linear history in which every revision touches ONE entry
    (so no rename chain, swap or directory rename is involved and no known exporter/importer defect can mask the
    comparison) with one combination of {rename, move to another directory, executable-bit flip, content
    change, symlink retarget}: in particular rename + chmod with unchanged content in both directions, chmod
    alone, and rename + retarget of a symlink.  `variant` permutes the order and picks names/contents."""
    root = c40.ROOT_ID
    names = rng.sample(["a", "b", "c", "d", "e", "f1", "with space", "\u00e9t\u00e9", "x-y", "n0", "tool.sh", "run"], 10)
    D1, D2 = b"d-1", b"d-2"
    base = {root: (None, "", "directory", None, False),
            D1: (root, names[0], "directory", None, False), D2: (D1, names[1], "directory", None, False)}
    fids = [b"f-%d" % i for i in range(1, 7)]
    for i, f in enumerate(fids[:4]):
        base[f] = (rng.choice([root, D1]), names[2 + i] + ("" if i % 2 else ".sh"), "file", c40.gen_content(rng, "guarded"), bool((variant >> i) & 1))
    base[fids[4]] = (root, names[6], "symlink", "target", False)
    base[fids[5]] = (D1, names[7], "file", c40.gen_content(rng, "guarded"), False)
    steps = [
        ("rename+chmod", lambda e: (e[0], e[1] + "-r", e[2], e[3], not e[4]), fids[0]),
        ("move+chmod", lambda e: (D2, e[1], e[2], e[3], not e[4]), fids[1]),
        ("chmod", lambda e: (e[0], e[1], e[2], e[3], not e[4]), fids[2]),
        ("rename+chmod+content", lambda e: (e[0], "n-" + e[1], e[2], c40.mutate_content(rng, e[3], "guarded"), not e[4]), fids[3]),
        ("symlink-rename+retarget", lambda e: (D1, e[1] + "-l", e[2], "a/b", False), fids[4]),
        ("rename", lambda e: (root, e[1] + "-m", e[2], e[3], e[4]), fids[5]),
        ("rename+chmod-back", lambda e: (e[0], e[1] + "2", e[2], e[3], not e[4]), fids[0]),
    ]
    k = variant % len(steps)
    steps = steps[k:] + steps[:k]
    trees = [("r01", [], base, ["init"])]
    cur = base
    for i, (op, fn, fid) in enumerate(steps):
        cur = dict(cur)
        cur[fid] = fn(cur[fid])
        trees.append(("r%02d" % (i + 2), ["r%02d" % (i + 1)], cur, [op]))
    revs = []
    for i, (rid, parents, tree, ops) in enumerate(trees):
        revs.append(dict(rid=rid.encode(), parents=[p.encode() for p in parents], tree=tree, ops=ops,
                         msg=rng.choice(c40.MESSAGES), ts=float(1500000000 + i * 1000),
                         tz=rng.choice([0, 3600, -18000, 19800, -12600]), committer=rng.choice(c40.COMMITTERS), props={}))
    return revs


def build(key):
    rng = random.Random(repr(tuple(key)))
    if key[0] == "m":
        revs = merge_readd_history(rng, key[2])
    elif key[0] == "x":
        revs = meta_history(rng, key[2])
    else:
        n = rng.randint(5, 8)
        revs = c40.gen_history(rng, n, dict(nul="guarded", merge=0.35, ghost=0.15))
        revs = c40._without_kind_changes(revs)
    for r in revs:
        r["ts"] = float(int(r["ts"]))
        r["props"] = {}
        if rng.random() < 0.06:
            r["committer"] = "<solo@example.com>"       # an email in angle brackets and no name
    d = env.fresh_dir("h")
    branch = c40.build_history(d, revs, "2a")
    tip = revs[-1]["rid"]
    branch.generate_revision_history(tip)
    by_id = {r["rid"]: r for r in revs}
    anc = c40._anc(by_id, tip)
    tags = {}
    for name in rng.sample(TAGS, rng.randint(0, 3)):
        tags[name] = rng.choice(revs)["rid"]
    for name, rid in tags.items():
        branch.tags.set_tag(name, rid)
    return dict(key=list(key), revs=revs, by_id=by_id, branch=branch, dir=d, tip=tip, anc=anc, tags=tags, rng=rng)


def file_cmds(cmd):
    from fastimport import commands
    out = []
    for fc in cmd.iter_files():
        if isinstance(fc, commands.FileDeleteCommand):
            out.append(("D", fc.path.decode("utf-8")))
        elif isinstance(fc, commands.FileRenameCommand):
            out.append(("R", fc.old_path.decode("utf-8"), fc.new_path.decode("utf-8")))
        elif isinstance(fc, commands.FileModifyCommand):
            mode = fc.mode
            kind = "symlink" if mode == 0o120000 else "directory" if mode == 0o040000 else "file"
            data = fc.data
            if kind == "symlink":
                val = ("symlink", data.decode("utf-8"), False)
            elif kind == "file":
                val = ("file", data, mode == 0o100755)
            else:
                val = ("directory", None, False)
            out.append(("M", fc.path.decode("utf-8"), val))
        else:
            out.append((type(fc).__name__,))
    return out


def run_scenario(args):
    import signal
    import traceback

    def _alarm(*_a):
        raise TimeoutError("scenario %r exceeded its time limit" % (args,))
    try:
        signal.signal(signal.SIGALRM, _alarm)
        signal.alarm(1500)
    except ValueError:
        pass
    try:
        return _run_scenario(args)
    except BaseException as e:
        if isinstance(e, (KeyboardInterrupt, SystemExit)):
            raise
        return dict(viol=[], t2=[], count={}, cases=[], crash="scenario %r: %s" % (args, traceback.format_exc()[-1500:]))
    finally:
        try:
            signal.alarm(0)
        except ValueError:
            pass


def _run_scenario(args):
    key, tier = args
    out = dict(viol=[], t2=[], count=collections.Counter(), cases=[])
    sc = build(tuple(key))
    for plain in (True, False):
        roundtrip(sc, plain, out)
    shutil.rmtree(sc["dir"], ignore_errors=True)
    return _plain(out)


def roundtrip(sc, plain, out):
    """export the scenario's branch in the plain or the rich (--no-plain) format, import the stream, run the
    oracle and queue the model lines (file-command model: plain format only)"""
    from fastimport import commands
    from breezy.branch import Branch
    cnt = out["count"]
    fmt = "plain" if plain else "rich"
    branch, revs, by_id = sc["branch"], sc["revs"], sc["by_id"]
    case0 = dict(scenario=sc["key"], fmt=fmt)
    src_repo = branch.repository
    try:
        stream, ex = do_export(branch, plain=plain)
    except Exception as e:
        out["viol"].append((case0, "fast-export (%s) raises %s: %s" % (fmt, type(e).__name__, str(e)[:120]), None))
        return
    cmds = parse_stream(stream)
    commits = [c for c in cmds if isinstance(c, commands.CommitCommand)]
    mark_of = {rid: int(m) for rid, m in ex.revid_to_mark.items() if m}
    rid_of = {m: rid for rid, m in mark_of.items()}
    order = [rid_of[int(c.mark)] for c in commits]
    if set(order) != sc["anc"] or len(order) != len(sc["anc"]):
        out["viol"].append((case0, "the %s stream has commits for %s, the branch's ancestry is %s" % (
            fmt, sorted(order), sorted(sc["anc"])), None))
    # ---- per-commit cases and (plain) model lines: command list ------------------------------------
    fidn = {}
    for r in revs:
        for f in r["tree"]:
            fidn.setdefault(f, len(fidn) + 1)
    fams_by_rid = {}
    real_cmds = {}
    for c in commits:
        rid = rid_of[int(c.mark)]
        rv = by_id[rid]
        old = entries_of(by_id[rv["parents"][0]]["tree"]) if rv["parents"] else {}
        new = entries_of(rv["tree"])
        fams_by_rid[rid] = classify_tree_diff(old, new, plain)
        real = file_cmds(c)
        paths = [e[0] for e in old.values()] + [e[0] for e in new.values()] + [x for fc in real for x in fc[1:3] if isinstance(x, str)]
        tk = Tokens(paths)
        nontrivial = any(fc[0] in "DR" for fc in real) or len(rv["parents"]) > 1
        case = dict(scenario=sc["key"], fmt=fmt, rev=rid.decode(), parents=[p.decode() for p in rv["parents"]])
        out["cases"].append((dict(case, cmds=[list(fc[:3]) if fc[0] != "M" else [fc[0], fc[1], _tok(fc[2])] for fc in real]), nontrivial))
        for fc in real:
            cnt["cmd:%s:%s" % (fmt, fc[0])] += 1
        real_cmds[rid] = real
        if not plain:
            continue
        pre = ",".join(("D.%d" % tk.path(fc[1])) if fc[0] == "D" else "R.%d.%d" % (tk.path(fc[1]), tk.path(fc[2]))
                       for fc in real if fc[0] in "DR") or "-"
        mods = ",".join(sorted("M.%d.%d" % (tk.path(fc[1]), _tok(fc[2])) for fc in real if fc[0] == "M")) or "-"
        # everything after the first M must be an M (the model prints the prefix and the set)
        seenM = False
        for fc in real:
            if fc[0] == "M":
                seenM = True
            elif seenM:
                pre += ",LATE"
        out["t2"].append((case, "cmds plain %s %s" % (enc_ents(old, tk, fidn), enc_ents(new, tk, fidn)),
                          "%s | %s" % (pre, mods)))
    # graph lines (both formats)
    idx = {rid: i + 1 for i, rid in enumerate(order)}
    gline = ";".join(".".join(str(idx.get(p, 0)) for p in by_id[rid]["parents"]) or "-" for rid in order) or "-"
    gimpl = ";".join("%s:%s" % ((c.from_ or b"~").decode().lstrip(":"),
                                ".".join(m.decode().lstrip(":") for m in (c.merges or [])) or "-") for c in commits) or "-"
    out["t2"].append((dict(case0, graph=True), "graph %s" % gline, gimpl))
    cnt["ghost-parents"] += sum(1 for rid in order for p in by_id[rid]["parents"] if p not in idx)
    # the zone field: what the exporter writes for the revision's offset, and what the parser reads back
    zones = re.findall(rb"^committer .*> -?\d+ ([+-]\d+)$", stream, re.M)
    zone_of = {}
    if len(zones) == len(commits):
        zone_of = {rid: z.decode() for z, rid in zip(zones, order)}
        for c, z, rid in zip(commits, zones, order):
            tz = by_id[rid]["tz"]
            zcase = dict(case0, rev=rid.decode(), zone=tz)
            out["t2"].append((zcase, "zone %d" % tz, z.decode()))
            out["t2"].append((zcase, "pzone %s" % z.decode(), "%d" % c.committer[3]))
            cnt["zone:%s" % z.decode()] += 1
    else:
        out["viol"].append((case0, "the %s stream has %d commits but %d committer lines with a zone" % (fmt, len(commits), len(zones)), None))
    # tags: the reset commands of the stream against the model's emit_tags
    tag_resets = sorted("%s:%s" % (c.ref.hex(), (c.from_ or b":0").decode().lstrip(":")) for c in cmds
                        if isinstance(c, commands.ResetCommand) and c.ref.startswith(b"refs/tags/"))
    tag_line = ",".join("%s:%d" % (k.encode("utf-8").hex(), idx.get(v, 0)) for k, v in sorted(sc["tags"].items())) or "-"
    out["t2"].append((dict(case0, tags=sorted(sc["tags"])), "xtags %s %s" % (fmt, tag_line), ",".join(tag_resets) or "-"))
    # ---- import ------------------------------------------------------------------------------------
    res = do_import_isolated(stream, sorted(mark_of.values()))
    dd = res.get("dir")
    if res["status"] == "wall-timeout":
        raise env.InfraError("the import of scenario %r (%s) did not finish within %d s of wall time although it used "
                             "less than %d s of CPU: machine overloaded?" % (sc["key"], fmt, IMPORT_WALL_S, IMPORT_CPU_S))
    if res["status"] != "ok":
        if res["status"] == "raised":
            m = re.search(r"processing commit b':(\d+)'", res.get("log") or "")
            rid = rid_of.get(int(m.group(1))) if m else rid_of.get(res.get("last_mark"))
            what_e = "raises %s" % res["exc"]
            detail = " ".join(res["msg"].split())[:160]
        else:
            rid = rid_of.get(res.get("last_mark"))
            what_e = "does not terminate (child killed: %s; limits %d s CPU, %d GB)" % (res["signal"], IMPORT_CPU_S, IMPORT_AS >> 30)
            detail = "last commit begun: mark %s" % res.get("last_mark")
        if dd:
            shutil.rmtree(dd, ignore_errors=True)
        fam = None
        case = dict(case0)
        if rid is not None:
            rv = by_id[rid]
            case = dict(case0, rev=rid.decode(), parents=[p.decode() for p in rv["parents"]], import_fails=True)
            fams = set(fams_by_rid.get(rid, set()))
            if not plain and rv["parents"]:
                o_, n_ = entries_of(by_id[rv["parents"][0]]["tree"]), entries_of(rv["tree"])
                fams |= classify_rich_import(o_, n_)
                if len(rv["parents"]) > 1 and any(e[2] and f in o_ and o_[f][1] != e[1] for f, e in n_.items()):
                    # a merge revision that renames a directory relative to its first parent
                    fams.add("rich-import-directory-rename-in-a-merge-revision")
            # an ancestor whose commands already fall into a family leaves a wrong tree behind: what the
            # importer does on top of it is attributed to that family (first such ancestor in export order)
            inherited = [fams_by_rid[a] for a in order if a != rid and a in c40._anc(by_id, rid) and fams_by_rid.get(a)]
            fam = sorted(inherited[0])[0] if inherited else (sorted(fams)[0] if fams else None)
        if res["status"] == "killed":
            fam = None          # non-termination is never attributed to a known family
        out["viol"].append((case, "fast-import of the exported %s stream %s at commit %s: %s" % (
            fmt, what_e, rid.decode() if rid else "?", detail), fam))
        cnt["import-%s:%s:%s" % ("raises" if res["status"] == "raised" else "killed", fmt, fam)] += 1
        return
    try:
        nb = Branch.open(os.path.join(dd, "trunk"))
    except Exception as e:
        out["viol"].append((case0, "the import created no trunk branch (%s): %s" % (type(e).__name__, sorted(os.listdir(dd))), None))
        shutil.rmtree(dd, ignore_errors=True)
        return
    dst_repo = nb.repository
    out["cases"].append((dict(case0, history=[[r["rid"].decode(), [p.decode() for p in r["parents"]]] for r in revs],
                              tags={k: v.decode() for k, v in sc["tags"].items()}), True))
    with src_repo.lock_read(), dst_repo.lock_read():
        new_of = {}
        for rid, m in mark_of.items():
            try:
                new_of[rid] = res["marks"].get(m)
                if new_of[rid] is None:
                    raise KeyError(m)
            except Exception:
                new_of[rid] = None
        n_dst = len(dst_repo.all_revision_ids())
        if n_dst != len(sc["anc"]):
            out["viol"].append((case0, "the imported repository has %d revisions, the exported history %d" % (n_dst, len(sc["anc"])), None))
        if new_of.get(sc["tip"]) != nb.last_revision():
            out["viol"].append((case0, "the imported branch tip is not the image of the exported tip", None))
        if len(set(new_of.values())) != len(new_of):
            out["viol"].append((case0, "two exported revisions were imported as one", None))
        dumps = {}
        damaged = set()
        for rid in order:
            nr = new_of.get(rid)
            case = dict(scenario=sc["key"], fmt=fmt, rev=rid.decode(), parents=[p.decode() for p in by_id[rid]["parents"]])
            if nr is None or not dst_repo.has_revision(nr):
                out["viol"].append((case, "exported revision %s has no imported counterpart" % rid.decode(), None))
                continue
            r1, r2 = src_repo.get_revision(rid), dst_repo.get_revision(nr)
            want_parents = [new_of[p] for p in r1.parent_ids if p in new_of]
            if want_parents != list(r2.parent_ids):
                out["viol"].append((case, "parents of %s: exported %s, imported counterpart has %d parents in another order / set" % (
                    rid.decode(), [p.decode() for p in r1.parent_ids], len(r2.parent_ids)), None))
            if r1.message != r2.message:
                out["viol"].append((case, "message of %s changed: %r -> %r" % (rid.decode(), r1.message, r2.message), None))
            if r1.committer != r2.committer:
                fam = None
                out["viol"].append((case, "committer of %s changed: %r -> %r" % (rid.decode(), r1.committer, r2.committer), fam))
                cnt["committer-changed:%s" % fam] += 1
            # the model's committer round trip (split, `Name <email> date` line, parse, join)
            date = "%d %s" % (int(r1.timestamp), zone_of.get(rid, "+0000"))
            out["t2"].append((dict(case, committer=r1.committer), "who %s %s %s" % ("T" if _BARE[0] else "F", hx(r1.committer), hx(date)), hx(r2.committer)))
            if (r1.timestamp, r1.timezone) != (r2.timestamp, r2.timezone):
                out["viol"].append((case, "timestamp/timezone of %s changed: %r -> %r" % (
                    rid.decode(), (r1.timestamp, r1.timezone), (r2.timestamp, r2.timezone)), None))
            if not plain and dict(r1.properties) != dict(r2.properties):
                out["viol"].append((case, "revision properties of %s changed in the rich format: %r -> %r" % (
                    rid.decode(), dict(r1.properties), dict(r2.properties)), None))
            # files and symlinks only: empty directories are outside the property (the plain format has no
            # directories, the importer prunes empty ones), non-empty ones are implied by their content
            t1 = tree_dump(src_repo.revision_tree(rid))
            t2 = tree_dump(dst_repo.revision_tree(nr))
            dumps[rid] = t2
            if t1 != t2:
                damaged.add(rid)
                diff = sorted(k for k in set(t1) | set(t2) if t1.get(k) != t2.get(k))
                p0 = r1.parent_ids[0] if r1.parent_ids else None
                if p0 in damaged:
                    # the first parent's imported tree is already wrong: what this commit's commands do on top
                    # of it is not judged (the violation is reported at the first damaged commit)
                    cnt["tree-differs:%s:inherited-from-first-parent" % fmt] += 1
                else:
                    fams = fams_by_rid.get(rid, set())
                    fam = sorted(fams)[0] if fams else None
                    out["viol"].append((case, "tree of %s differs after %s export+import at %r (e.g. %r -> %r); its first "
                                              "parent's tree was imported faithfully" % (
                        rid.decode(), fmt, diff[:4], _short(t1.get(diff[0])), _short(t2.get(diff[0]))), fam))
                    cnt["tree-differs:%s:%s" % (fmt, fam)] += 1
        # tags (the plain format skips names that are not valid git refs, by design)
        want_tags = {k: new_of[v] for k, v in sc["tags"].items() if v in new_of and (git_valid_tag(k) or not plain)}
        if plain:
            cnt["tags-not-valid-in-git"] += sum(1 for k in sc["tags"] if not git_valid_tag(k))
        got_tags = nb.tags.get_tag_dict()
        if want_tags != got_tags:
            out["viol"].append((case0, "tags differ (%s): exported %r (into the exported ancestry: %r), imported %r" % (
                fmt, sorted(sc["tags"]), sorted(want_tags), sorted(got_tags)), None))
        cnt["tags:%d" % len(sc["tags"])] += 1
        # the model's import of its own export: tag table and parents of the imported revisions
        back = {v: k for k, v in new_of.items() if v is not None}
        got_line = ",".join(sorted("%s:%d" % (k.encode("utf-8").hex(), idx.get(back.get(v), 0)) for k, v in got_tags.items())) or "-"
        out["t2"].append((dict(case0, tags=sorted(sc["tags"]), imported=True), "tags %s %d %s" % (fmt, len(order), tag_line), got_line))
        ig = []
        for rid in order:
            nr = new_of.get(rid)
            if nr is None or not dst_repo.has_revision(nr):
                ig = None
                break
            ig.append(".".join(str(idx.get(back.get(p), 0)) for p in dst_repo.get_revision(nr).parent_ids) or "-")
        if ig is not None:
            out["t2"].append((dict(case0, igraph=True), "igraph %s" % gline, ";".join(ig) or "-"))
        # ---- importer model lines (plain): apply the real commands to the imported first-parent tree ----
        for rid in order if plain else []:
            if rid not in dumps:
                continue
            rv = by_id[rid]
            p0 = next((p for p in rv["parents"] if p in mark_of), None)
            if p0 is not None and p0 not in dumps:
                continue
            base = dumps[p0] if p0 is not None else {}
            real = real_cmds[rid]
            srcs = [fc[1] for fc in real if fc[0] == "R"]
            if any(fc[0] == "R" and fc[2] in srcs for fc in real):
                # a rename whose target is another rename's source: the importer resolves paths against the
                # basis inventory and its pending changes; not modelled (the exporter must not emit this)
                cnt["apply-not-compared:rename-chain-in-stream"] += 1
                continue
            targets = [fc[2] if fc[0] == "R" else fc[1] for fc in real if fc[0] in "RM"]
            if any(b.startswith(t + "/") or t.startswith(b + "/") for t in targets for b in base):
                # a file lands where a directory (with content) was, or below a file: the importer drops the
                # subtree; path space has no directories (only met together with the directory-rename defect)
                cnt["apply-not-compared:file-replaces-directory"] += 1
                continue
            tk = Tokens(list(base) + list(dumps[rid]) + [x for fc in real for x in fc[1:3] if isinstance(x, str)])
            enc = ",".join(("D.%d" % tk.path(fc[1])) if fc[0] == "D" else
                           ("R.%d.%d" % (tk.path(fc[1]), tk.path(fc[2]))) if fc[0] == "R" else
                           "M.%d.%d" % (tk.path(fc[1]), _tok(fc[2])) for fc in real) or "-"
            case = dict(scenario=sc["key"], rev=rid.decode(), apply=True)
            out["t2"].append((case, "apply %s %s" % (enc_flat({p: dump_value(v) for p, v in base.items()}, tk), enc),
                              enc_flat({p: dump_value(v) for p, v in dumps[rid].items()}, tk)))
    shutil.rmtree(dd, ignore_errors=True)


def _short(v):
    if v is None:
        return None
    return (v[0], v[1][:30] if isinstance(v[1], (bytes, str)) else v[1], v[2])


def _plain(out):
    return dict(viol=out["viol"], t2=out["t2"], count=dict(out["count"]), cases=out["cases"])


REF_ATOMS = ["a", "b", "v1", ".", "/", "..", ".lock", "lock", "@", "{", "@{", "\\", " ", "~", "^", ":", "?", "*", "[", "\x7f", "\x1f",
             "\u00e9", "-", "refs/tags/", "/."]


def ref_cases(ctx, n):
    """check_ref_format against the model's validRef: tag refs and bare names built from the characters the rules name"""
    from breezy.plugins.fastimport.exporter import check_ref_format
    cases, lines, impls = [], [], []
    names = [t for t in TAGS] + ["".join(ctx.rng.choice(REF_ATOMS) for _ in range(ctx.rng.randint(1, 5))) for _ in range(n)]
    for nm in names:
        for ref in (b"refs/tags/" + nm.encode("utf-8"), nm.encode("utf-8")):
            if not ref:
                continue
            cases.append(dict(ref=ref.hex()))
            lines.append("ref %s" % ref.hex())
            impls.append("T" if check_ref_format(ref) else "F")
            ctx.count("ref-valid:%s" % impls[-1])
    return cases, lines, impls


WHO_ATOMS = ["Joe", "J\u00fcrgen M", "a", "b", " ", "  ", "<", ">", "<j@x>", "<>", "@", ".", ",", ":", "(c)", "\t", "x@y.z", "\"", "'"]


def who_cases(ctx, n):
    """the exporter's committer split and the parser's reading of the committer line against the model"""
    from io import BytesIO
    from fastimport import parser as fparser
    from breezy.plugins.fastimport.exporter import BzrFastExporter
    users = ["<joe@example.com>", "Joe  <joe@example.com>", "Joe <joe@example.com> ", "Joe <>", "a<b <c@d>", "Joe", "Joe ",
             "joe@example.com", "Joe <j@x> (comment)", "", " ", "<", ">", "A: B <c@d>", "Doe, John <j@x>"]
    users += ["".join(ctx.rng.choice(WHO_ATOMS) for _ in range(ctx.rng.randint(1, 5))) for _ in range(n)]
    replies = ctx.model(["split %s" % hx(u) for u in users])
    for u, m in zip(users, replies):
        ctx.traces += 1
        if m == "other":
            ctx.count("committer-split:pattern-does-not-match(parseaddr)")
            continue
        name, email = BzrFastExporter._get_name_email(None, u)
        impl = "%s|%s" % (name.hex() or "-", email.hex() or "-")
        ctx.count("committer-split:compared")
        ctx.case(dict(split=u), nontrivial="<" in u)
        if impl != m:
            ctx.mismatch(dict(split=u), impl, m, line="split %s" % hx(u))
    # committer lines: the ones the exporter would write for these users, and free-form ones
    lines = []
    for u in users:
        name, email = BzrFastExporter._get_name_email(None, u)
        if b"\n" in name + email:
            continue
        lines.append((name + (b" " if name else b"") + b"<" + email + b"> 1500000000 +0530").decode("utf-8"))
    lines += [u + " 12 -0330" for u in users if "\n" not in u]
    replies = ctx.model(["pwho %s" % hx(l) for l in lines])
    for l, m in zip(lines, replies):
        ctx.traces += 1
        p = fparser.ImportParser(BytesIO(b""), strict=True)
        try:
            a = p._who_when(l.encode("utf-8"), b"committer", b"x")
            impl = "%s|%s" % (a[0].hex() or "-", (a[1] or b"").hex() or "-")
        except Exception:   # noqa: BLE001 - the strict parser rejects the line
            impl = "nomatch"
        mm = "|".join(m.split("|")[:2]) if m != "nomatch" else m
        if m != "nomatch":
            dpart = m.split("|")[2]
            dtxt = bytes.fromhex(dpart).decode("utf-8") if dpart != "-" else ""
            if not re.fullmatch(r"\d+ [+-]\d{4}", dtxt):
                # the date field is not `secs zone`: the real parser goes on to its date parsers (not modelled)
                ctx.count("committer-line:date-field-not-raw")
                continue
        ctx.count("committer-line:%s" % ("parsed" if impl != "nomatch" else "rejected"))
        if impl != mm:
            ctx.mismatch(dict(pwho=l), impl, m, line="pwho %s" % hx(l))


def run(ctx, nscen=None):
    probe_join(ctx)
    t2, viol = [], []
    keys = [((ctx.seed, i), ctx.tier) for i in range(nscen or ctx.pick(30, 120))]
    # the directed merge family: 6 (thorough: all 32) of its variants, rotating with the seed; with and
    # without the further rename in every run
    nm = ctx.pick(6, 32)
    keys += [(("m", ctx.seed, (ctx.seed * 6 + 5 * i) % 32), ctx.tier) for i in range(nm)]
    # the directed single-entry metadata family (rename / move / chmod / retarget combinations, no chains)
    keys += [(("x", ctx.seed, (ctx.seed * 3 + 5 * i) % 16), ctx.tier) for i in range(ctx.pick(3, 16))]
    for o in ctx.pmap(run_scenario, keys, chunksize=1):
        if o.get("crash"):
            raise env.InfraError(o["crash"])
        for case, nontrivial in o["cases"]:
            ctx.case(case, nontrivial=nontrivial)
        for k, v in o["count"].items():
            ctx.count(k, v)
        viol.extend(o["viol"])
        t2.extend(o["t2"])
    # violations outside every family first: run.py reports the first one that is no committed known finding
    for case, what, fam in sorted(viol, key=lambda v: v[2] is not None):
        ctx.violation(case, what, family=fam)
    if t2 and ctx.model_available:
        ctx.diff([c for c, _l, _i in t2], [l for _c, l, _i in t2], [i for _c, _l, i in t2])
    if ctx.model_available:
        ctx.diff(*ref_cases(ctx, ctx.pick(150, 1500)))
        who_cases(ctx, ctx.pick(150, 1500))


def widen(ctx):
    run(ctx, nscen=40)


def replay(ctx, case):
    probe_join(ctx)
    o = run_scenario((tuple(case["scenario"]), "quick"))
    if o.get("crash"):
        return dict(case=case, crash=o["crash"])
    mine = [(c, w, f) for c, w, f in o["viol"] if c.get("rev") == case.get("rev") or "rev" not in case]
    for c, w, f in mine:
        ctx.violation(c, w, family=f)
    res = dict(case=case, oracle_failures=[w for _c, w, _f in mine])
    lines = [(c, l, i) for c, l, i in o["t2"] if c.get("rev") == case.get("rev")]
    if lines and ctx.model_available:
        ms = ctx.model([l for _c, l, _i in lines])
        res["impl"] = [i[:300] for _c, _l, i in lines]
        res["model"] = [m[:300] for m in ms]
    return res
