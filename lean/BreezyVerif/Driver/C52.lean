import BreezyVerif.Common
import BreezyVerif.Model.C52
/-
Line protocol of C52:

  chain <force T|F> <targets b,t,c,l,s,u comma list> <tree T|F> <dirty T|F> <branch u|b|r> <repo n|o|s>
        <sharedAbove T|F> <bindKnown T|F> <synced T|F>
    -> per step `<ok|E:kind>:<tree><dirty><branch><repo><bindKnown>:<treestate none|kept|clean>` joined by a space
  convert <from> <to>  -> `uptodate` | `ok <format>`
-/
namespace BreezyVerif.C52

def parseTarget (s : String) : Option Target :=
  if s == "b" then some .branch else if s == "t" then some .tree else if s == "c" then some .checkout
  else if s == "l" then some .lightweightCheckout else if s == "s" then some .standalone
  else if s == "u" then some .useShared else none

def parseBK (s : String) : Option BK :=
  if s == "u" then some .unbound else if s == "b" then some .bound else if s == "r" then some .reference else none

def parseRK (s : String) : Option RK :=
  if s == "n" then some .none else if s == "o" then some .own else if s == "s" then some .shared else none

def showBK : BK → String
  | .unbound => "u" | .bound => "b" | .reference => "r"

def showRK : RK → String
  | .none => "n" | .own => "o" | .shared => "s"

def showErr : Option Err → String
  | none => "ok"
  | some .already => "E:Already"
  | some .notSupported => "E:NotSupported"
  | some .uncommittedChanges => "E:UncommittedChanges"
  | some .unsyncedBranches => "E:UnsyncedBranches"
  | some .noBindLocation => "E:NoBindLocation"
  | some .noSharedRepository => "E:NoSharedRepository"

/-- the tree state relative to the start of the chain: code 0 = the original tree content -/
def showTreeState (l : Loc) : String :=
  if !l.tree then "none" else if l.treeCode == 0 then "kept" else "clean"

def showLoc (l : Loc) : String :=
  s!"{showBool l.tree}{showBool l.dirty}{showBK l.branch}{showRK l.repo}{showBool l.bindKnown}"

def steps (force : Bool) : List Target → Loc → List String
  | [], _ => []
  | t :: ts, l =>
    let r := reconfigure t force l
    s!"{showErr r.2}:{showLoc r.1}:{showTreeState r.1}" :: steps force ts r.1

def handle : List String → String
  | ["chain", force, ts, tree, dirty, br, repo, above, known, synced] =>
    match parseBool force, (splitList ts).mapM parseTarget, parseBool tree, parseBool dirty, parseBK br, parseRK repo,
          parseBool above, parseBool known, parseBool synced with
    | some force, some ts, some tree, some dirty, some br, some repo, some above, some known, some synced =>
      let l : Loc := ⟨tree, dirty, br, repo, above, known, synced, 0, 1, 0, 0, 0⟩
      " ".intercalate (steps force ts l)
    | _, _, _, _, _, _, _, _, _ => "bad-op"
  | ["convert", a, b] =>
    match a.toNat?, b.toNat? with
    | some a, some b =>
      match convert b ⟨true, false, .unbound, .own, false, false, true, a, 1, 0, 0, 0⟩ with
      | none => "uptodate"
      | some l => s!"ok {l.format}"
    | _, _ => "bad-op"
  | _ => "bad-op"

end BreezyVerif.C52

def main : IO Unit := BreezyVerif.runDriver BreezyVerif.C52.handle
