import BreezyVerif.Common
import BreezyVerif.Model.C18
namespace BreezyVerif.C18

/-- `tw b o t` | `lca allow b lcas o t` (values are naturals) -/
def handle : List String → String
  | ["tw", b, o, t] =>
    match b.toNat?, o.toNat?, t.toNat? with
    | some b, some o, some t => (threeWay b o t).toString
    | _, _, _ => "bad-op"
  | ["lca", a, b, ls, o, t] =>
    match parseBool a, b.toNat?, parseNatList ls, o.toNat?, t.toNat? with
    | some a, some b, some ls, some o, some t => (lcaMultiWay b ls o t a).toString
    | _, _, _, _, _ => "bad-op"
  | _ => "bad-op"

end BreezyVerif.C18

def main : IO Unit := BreezyVerif.runDriver BreezyVerif.C18.handle
