import BreezyVerif.Lemmas.C26Inv
/-!
C26 — directory locks provide mutual exclusion.

All theorems are about `Sys.run (Sys.init cfg held) evs` for an arbitrary event
list `evs` (every interleaving of every program of every locker, with crashes
and injected transport faults), an arbitrary number of lockers (`Nat → Locker`),
arbitrary per-locker identity / configuration `cfg` and an arbitrary initial
`held/`.
-/
namespace BreezyVerif.C26

/-- **Key invariant.**  Without `break_lock` and without `locks.steal_dead`, in every
reachable state — any number of lockers, any interleaving of their transport
calls, any crashes and injected transport errors, any initial `held/` — a
locker whose `_lock_held` is true (or that has just renamed its pending
directory into place) owns the `held/` directory on disk. -/
theorem claim_on_disk (cfg : Nat → Cfg) (h0 : Option Dir) (evs : List Ev)
    (hev : ∀ e ∈ evs, e.noBreak = true) (hsteal : ∀ j, (cfg j).steal = false) (i : Nat)
    (hcl : (((Sys.init cfg h0).run evs).lk i).claims = true) :
    ownerOf ((Sys.init cfg h0).run evs).held = some i := by
  have inv : Inv 0 ((Sys.init cfg h0).run evs) :=
    (Inv.init 0 cfg h0).run evs (fun e he => noBreak_breaksOnlyBy 0 (hev e he))
      (fun j hj => by simp [Sys.init, hsteal j] at hj)
  have nb : NoBreak ((Sys.init cfg h0).run evs) :=
    NoBreak.run ⟨fun _ => rfl, rfl, rfl⟩ evs hev (by simpa [Sys.init] using hsteal)
  rcases inv.claim i nb.alive hcl with h | ⟨_, h⟩
  · exact h
  · simp [nb.breaks] at h

/-- **Mutual exclusion without breaks**: at most one locker believes it holds the lock. -/
theorem mutex_no_break (cfg : Nat → Cfg) (h0 : Option Dir) (evs : List Ev)
    (hev : ∀ e ∈ evs, e.noBreak = true) (hsteal : ∀ j, (cfg j).steal = false) (i j : Nat)
    (hi : (((Sys.init cfg h0).run evs).lk i).held = true)
    (hj : (((Sys.init cfg h0).run evs).lk j).held = true) : i = j := by
  have a := claim_on_disk cfg h0 evs hev hsteal i (by simp [Locker.claims, hi])
  have b := claim_on_disk cfg h0 evs hev hsteal j (by simp [Locker.claims, hj])
  rw [a] at b; exact Option.some.inj b

/-- the hypotheses are satisfiable by a contended run in which both lockers end up having held the lock -/
example :
    let evs : List Ev := [.start 0 .attempt, .step 0, .start 1 .attempt, .step 1, .step 0, .step 1, .step 0,
      .step 1, .step 0, .step 1, .step 1, .step 1, .start 0 .unlock, .step 0, .step 0, .step 0, .step 0,
      .start 1 .attempt, .step 1, .step 1, .step 1, .step 1]
    (∀ e ∈ evs, e.noBreak = true) ∧
      (((Sys.init (fun _ => ⟨1, 1, false⟩)).run evs).lk 1).held = true ∧
      (((Sys.init (fun _ => ⟨1, 1, false⟩)).run evs).lk 1).last = .ok ∧
      (((Sys.init (fun _ => ⟨1, 1, false⟩)).run evs).lk 0).last = .ok := by
  decide +kernel

/-- **Mutual exclusion with breaks (partial: one breaker).**  If only locker `b` ever
breaks locks (calls `break_lock`, or has `locks.steal_dead` on) and no break was
decided against a holder that was still alive (`brokeAlive = false`), then at
most one *live* locker believes it holds the lock.  Missing for the full
statement: two or more breakers — there the code really fails, see
`break_race_witness`. -/
theorem mutex_single_breaker_partial (b : Nat) (cfg : Nat → Cfg) (h0 : Option Dir) (evs : List Ev)
    (hev : ∀ e ∈ evs, e.breaksOnlyBy b = true) (hsteal : ∀ j, (cfg j).steal = true → j = b)
    (hal : ((Sys.init cfg h0).run evs).brokeAlive = false) (i j : Nat)
    (hi : (((Sys.init cfg h0).run evs).lk i).held = true) (hic : ((Sys.init cfg h0).run evs).crashed i = false)
    (hj : (((Sys.init cfg h0).run evs).lk j).held = true) (hjc : ((Sys.init cfg h0).run evs).crashed j = false) :
    i = j := by
  have inv : Inv b ((Sys.init cfg h0).run evs) := (Inv.init b cfg h0).run evs hev hsteal
  have a := inv.claim i hal (by simp [Locker.claims, hi])
  have c := inv.claim j hal (by simp [Locker.claims, hj])
  simp only [hic, hjc, Bool.false_eq_true, false_and, or_false] at a c
  rw [a] at c; exact Option.some.inj c

/-- **`force_break` removes exactly the examined lock (partial: one breaker).**  Under the
same hypotheses, whenever a `force_break x` is about to rename `held/` away,
`held/` still carries the info `x` that was examined, its holder is dead, and the
rename removes precisely that directory.  Missing: several breakers (see
`break_race_witness`). -/
theorem break_removes_examined_partial (b : Nat) (cfg : Nat → Cfg) (h0 : Option Dir) (evs : List Ev)
    (hev : ∀ e ∈ evs, e.breaksOnlyBy b = true) (hsteal : ∀ j, (cfg j).steal = true → j = b)
    (hal : ((Sys.init cfg h0).run evs).brokeAlive = false) (i : Nat) (x : Nonce) (ret : Bool)
    (hpc : (((Sys.init cfg h0).run evs).lk i).pc = .bRename x ret)
    (hlive : ((Sys.init cfg h0).run evs).crashed i = false) :
    ((Sys.init cfg h0).run evs).held = some (some (.ok x)) ∧
      ((Sys.init cfg h0).run evs).crashed x.owner = true ∧
      (((Sys.init cfg h0).run evs).step (.step i)).held = none ∧
      ((((Sys.init cfg h0).run evs).step (.step i)).lk i).tmp = some (some (.ok x)) := by
  have inv : Inv b ((Sys.init cfg h0).run evs) := (Inv.init b cfg h0).run evs hev hsteal
  have h := inv.exp i x hal (by simp [hpc, Pc.expects])
  refine ⟨h.1, h.2, ?_, ?_⟩ <;> simp [Sys.step, hlive, hpc, lstep, h.1, okDir]

/-- non-vacuity: a single stealer takes over the lock of a crashed holder; the run satisfies all hypotheses,
passes through `bRename`, and ends with the stealer holding the lock -/
example :
    let cfg : Nat → Cfg := fun _ => ⟨1, 1, true⟩
    let evs : List Ev := [.start 0 .attempt, .step 0, .step 0, .step 0, .step 0, .crash 0,
      .start 1 .attempt, .step 1, .step 1, .step 1, .step 1, .step 1]
    (∀ e ∈ evs, e.breaksOnlyBy 1 = true) ∧ ((Sys.init cfg).run evs).brokeAlive = false ∧
      (((Sys.init cfg).run evs).lk 1).pc = .bRename ⟨0, 1⟩ true ∧ ((Sys.init cfg).run evs).crashed 1 = false ∧
      ((((Sys.init cfg).run evs).run [.step 1, .step 1, .step 1, .step 1, .step 1, .step 1]).lk 1).held = true := by
  decide +kernel

/-- **The race in `force_break` (finding F7).**  All four lockers run on our host as our user
with `locks.steal_dead` on.  Locker 0 takes the lock and dies.  Lockers 1 and 2
both find the dead holder and start `force_break`; 1 examines the lock, then 2
breaks it completely and acquires; now 1 renames `held/` — which is 2's — away,
notices the mismatch and raises, without restoring it; locker 3 acquires.  No
break was ever decided against a live holder, yet the live lockers 2 and 3 both
have `_lock_held`. -/
theorem break_race_witness :
    let cfg : Nat → Cfg := fun _ => ⟨1, 1, true⟩
    let evs : List Ev := [.start 0 .attempt, .step 0, .step 0, .step 0, .step 0, .crash 0,
      .start 1 .attempt, .step 1, .step 1, .step 1, .step 1, .step 1,
      .start 2 .attempt, .step 2, .step 2, .step 2, .step 2, .step 2, .step 2, .step 2, .step 2, .step 2,
      .step 2, .step 2,
      .step 1, .step 1, .step 1, .step 1,
      .start 3 .attempt, .step 3, .step 3, .step 3, .step 3]
    let s := (Sys.init cfg).run evs
    s.brokeAlive = false ∧ s.crashed 2 = false ∧ s.crashed 3 = false ∧
      (s.lk 2).held = true ∧ (s.lk 3).held = true ∧ (s.lk 1).last = .mismatch ∧
      ownerOf s.held = some 3 := by
  decide +kernel

/-- a steal (`force_break` called from `_handle_lock_contention`) starts only when the examined holder's
recorded host is ours and is not `localhost`, its user is ours, its process is dead, and
`locks.steal_dead` is on — in every state, hence in every reachable one -/
theorem steal_only_if_dead_and_ours (id : Nat) (cfg : Nat → Cfg) (crashed : Nat → Bool) (me : Locker)
    (held : Option Dir) (x : Nonce) (h : (lstep id cfg crashed me held).1.pc = .bPeek x true) :
    held = some (some (.ok x)) ∧ (cfg id).steal = true ∧ (cfg x.owner).host = (cfg id).host ∧
      (cfg x.owner).host ≠ 0 ∧ (cfg x.owner).user = (cfg id).user ∧ crashed x.owner = true := by
  have := lstep_steal id cfg crashed me held x h
  have hs := this.2.2.1
  simp only [stealable, knownDead, Bool.and_eq_true, beq_iff_eq, Bool.not_eq_true',
    beq_eq_false_iff_ne, ne_eq] at hs
  exact ⟨this.2.1, this.2.2.2, hs.1.1.1.1, hs.1.1.1.2, hs.1.1.2, hs.2⟩

example : (lstep 1 (fun _ => ⟨1, 1, true⟩) (fun i => i == 0)
    { pc := .aPeekC, pend := some (some (.ok ⟨1, 1⟩)), nonce := 1 } (some (some (.ok ⟨0, 1⟩)))).1.pc
      = .bPeek ⟨0, 1⟩ true := by decide

/-- the decision table of `LockHeldInfo.is_lock_holder_known_dead` -/
theorem known_dead_table (hostEq isLocalhost userEq pidRecorded pidDead : Bool) :
    knownDead hostEq isLocalhost userEq pidRecorded pidDead = true ↔
      (hostEq = true ∧ isLocalhost = false ∧ userEq = true ∧ pidRecorded = true ∧ pidDead = true) := by
  cases hostEq <;> cases isLocalhost <;> cases userEq <;> cases pidRecorded <;> cases pidDead <;> decide

end BreezyVerif.C26
