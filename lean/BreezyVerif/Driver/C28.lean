import BreezyVerif.Common
import BreezyVerif.Model.C28
namespace BreezyVerif.C28

def showMode : Option Mode → String
  | none => "-"
  | some .r => "r"
  | some .w => "w"

def showEv : Ev → Char
  | .acqR => 'R'
  | .acqW => 'W'
  | .acqT => 'T'
  | .rel => 'U'

def showLog (l : List Ev) : String := if l.isEmpty then "." else String.ofList (l.map showEv)

def showPhys (p : Phys) : String :=
  showMode p.held ++ (if p.viaTok then "t" else "f") ++ showOptNat p.disk ++ ":" ++ showLog p.log

def showCL (s : CL) : String :=
  ",".intercalate [showMode s.mode, toString s.count, showOptNat s.token, showPhys s.phys]

def showLF (s : LF) : String :=
  ",".intercalate [showMode s.mode, toString s.count, showMode s.txn, showOptNat s.tokenFromLock,
    showPhys s.phys]

def showRepo (s : Repo) : String :=
  ",".intercalate [toString s.wcount, showLF s.cf, toString s.fb, showLog s.fbLog]

def showBranch (s : Branch) : String := showLF s.cf ++ "|" ++ showRepo s.repo

def showRes : Res → String
  | .ok t => "ok:" ++ showOptNat t
  | .error .readOnly => "E:ReadOnly"
  | .error .notHeld => "E:LockNotHeld"
  | .error .tokenMismatch => "E:TokenMismatch"
  | .error .contention => "E:LockContention"
  | .error .lockError => "E:LockError"

def parseOp (s : String) : Option Op :=
  if s == "r" then some .lockRead
  else if s == "w" then some (.lockWrite none)
  else if s == "wA" then some (.lockWrite (some 7))
  else if s == "wB" then some (.lockWrite (some 9))
  else if s == "u" then some .unlock
  else none

def parseSOp (s : String) : Option SOp :=
  match s.toList with
  | 'b' :: rest => (parseOp (String.ofList rest)).map SOp.branch
  | 'p' :: rest => (parseOp (String.ofList rest)).map SOp.repo
  | _ => none

/-- run `ops` from `s`, reporting result and complete state after every step -/
def trace {σ ω : Type} (step : σ → ω → σ × Res) (sh : σ → String) : σ → List ω → List String
  | _, [] => []
  | s, o :: ops =>
    let (s', r) := step s o
    (showRes r ++ "/" ++ sh s') :: trace step sh s' ops

def reply (l : List String) : String := if l.isEmpty then "-" else ";".intercalate l

/-- `cl EXT OPS` | `lf EXT OPS` | `repo EXT OPS` | `branch EXT SOPS` | `branchG EXT SOPS`
(EXT `T`/`F`: a lock with the known nonce pre-exists on disk; OPS comma list of
`r w wA wB u`, SOPS the same prefixed with `b` (branch) or `p` (repository)) -/
def handle : List String → String
  | ["cl", e, ops] =>
    match parseBool e, (splitList ops).mapM parseOp with
    | some e, some ops => reply (trace CL.step showCL (CL.init e) ops)
    | _, _ => "bad-op"
  | ["lf", e, ops] =>
    match parseBool e, (splitList ops).mapM parseOp with
    | some e, some ops => reply (trace LF.step showLF (LF.init e) ops)
    | _, _ => "bad-op"
  | ["repo", e, ops] =>
    match parseBool e, (splitList ops).mapM parseOp with
    | some e, some ops => reply (trace Repo.step showRepo (Repo.init e) ops)
    | _, _ => "bad-op"
  | ["branch", e, ops] =>
    match parseBool e, (splitList ops).mapM parseSOp with
    | some e, some ops => reply (trace Branch.step showBranch (Branch.init e) ops)
    | _, _ => "bad-op"
  | ["branchG", e, ops] =>
    match parseBool e, (splitList ops).mapM parseSOp with
    | some e, some ops => reply (trace Branch.stepG showBranch (Branch.init e) ops)
    | _, _ => "bad-op"
  | _ => "bad-op"

end BreezyVerif.C28

def main : IO Unit := BreezyVerif.runDriver BreezyVerif.C28.handle
