import BreezyVerif.Model.C46
/-! C46 — lemmas about the layout model (lookups, walks, removal). -/
namespace BreezyVerif.C46
open Forest

theorem wf_cons {i : Info} {kids rest : Forest} (h : (cons i kids rest).wf = true) :
    i.name ∉ rest.names ∧ i.name ≠ "" ∧ i.name ≠ "." ∧ i.name ≠ ".." ∧ '/' ∉ i.name.toList ∧
      (i.kind = .dir ∨ kids = nil) ∧ kids.wf = true ∧ rest.wf = true := by
  simp only [Forest.wf, Bool.and_eq_true, Bool.not_eq_true', bne_iff_ne, ne_eq, Bool.or_eq_true,
    beq_iff_eq, List.contains_eq_mem, decide_eq_false_iff_not] at h
  obtain ⟨⟨⟨⟨⟨⟨⟨h1, h2⟩, h3⟩, h4⟩, h5⟩, h6⟩, h7⟩, h8⟩ := h
  exact ⟨h1, h2, h3, h4, h5, h6, h7, h8⟩

/-- every path of a layout starts with the name of a top-level entry -/
theorem paths_head {f : Forest} {q : Path} (h : q ∈ f.paths) : ∃ n t, q = n :: t ∧ n ∈ f.names := by
  induction f with
  | nil => simp [Forest.paths] at h
  | cons i kids rest _ ih2 =>
    simp only [Forest.paths, List.mem_cons, List.mem_append, List.mem_map] at h
    rcases h with (h | ⟨t, _, rfl⟩) | h
    · exact ⟨i.name, [], h, by simp [Forest.names]⟩
    · exact ⟨i.name, t, rfl, by simp [Forest.names]⟩
    · obtain ⟨n, t, e, hn⟩ := ih2 h
      exact ⟨n, t, e, by simp [Forest.names, hn]⟩

theorem items_head {f : Forest} {it : Item} (h : it ∈ items f) :
    ∃ n t, it.path = n :: t ∧ n ∈ f.names := by
  induction f with
  | nil => simp [items] at h
  | cons i kids rest _ ih2 =>
    simp only [items, List.mem_cons, List.mem_append, List.mem_map] at h
    rcases h with (h | ⟨t, _, rfl⟩) | h
    · exact ⟨i.name, [], by simp [h], by simp [Forest.names]⟩
    · exact ⟨i.name, t.path, rfl, by simp [Forest.names]⟩
    · obtain ⟨n, t, e, hn⟩ := ih2 h
      exact ⟨n, t, e, by simp [Forest.names, hn]⟩

theorem items_path_mem {f : Forest} {it : Item} (h : it ∈ items f) : it.path ∈ f.paths := by
  induction f generalizing it with
  | nil => simp [items] at h
  | cons i kids rest ih1 ih2 =>
    simp only [items, List.mem_cons, List.mem_append, List.mem_map] at h
    simp only [Forest.paths, List.mem_cons, List.mem_append, List.mem_map]
    rcases h with (h | ⟨t, ht, rfl⟩) | h
    · left; left; simp [h]
    · left; right; exact ⟨t.path, ih1 ht, rfl⟩
    · right; exact ih2 h

theorem get_cons_ne {i : Info} {kids rest : Forest} {n : String} {t : Path} (h : i.name ≠ n) :
    (cons i kids rest).get (n :: t) = rest.get (n :: t) := by
  simp [Forest.get, h]

theorem get_cons_self {i : Info} {kids rest : Forest} :
    (cons i kids rest).get [i.name] = some (i, kids) := by
  simp [Forest.get]

theorem get_cons_down {i : Info} {kids rest : Forest} {a : String} {t : Path} :
    (cons i kids rest).get (i.name :: a :: t) = kids.get (a :: t) := by
  simp [Forest.get]

/-- in a well-formed layout the entry listed at a path is the one found by lookup -/
theorem get_of_mem_items {f : Forest} {it : Item} (hw : f.wf = true) (h : it ∈ items f) :
    f.get it.path = some (it.info, it.kids) := by
  induction f generalizing it with
  | nil => simp [items] at h
  | cons i kids rest ih1 ih2 =>
    obtain ⟨hn, _, _, _, _, _, hk, hr⟩ := wf_cons hw
    simp only [items, List.mem_cons, List.mem_append, List.mem_map] at h
    rcases h with (h | ⟨t, ht, rfl⟩) | h
    · subst h; exact get_cons_self
    · obtain ⟨a, b, e, _⟩ := items_head ht
      have := ih1 hk ht
      simp only [Item.push, e] at this ⊢
      rw [get_cons_down]; exact this
    · obtain ⟨a, b, e, ha⟩ := items_head h
      have hne : i.name ≠ a := fun e' => hn (e' ▸ ha)
      rw [e, get_cons_ne hne, ← e]; exact ih2 hr h

theorem extrasB_sub {f : Forest} {it : Item} (h : it ∈ extrasB f) : it ∈ items f := by
  induction f generalizing it with
  | nil => simp [extrasB] at h
  | cons i kids rest ih1 ih2 =>
    simp only [extrasB, List.mem_append] at h
    simp only [items, List.mem_cons, List.mem_append, List.mem_map]
    rcases h with h | h
    · split at h
      · simp at h
      · split at h
        · simp at h; left; left; exact h
        · split at h
          · simp only [List.mem_map] at h
            obtain ⟨t, ht, rfl⟩ := h
            left; right; exact ⟨t, ih1 ht, rfl⟩
          · simp at h
    · right; exact ih2 h

theorem extrasB_unversioned {f : Forest} {it : Item} (h : it ∈ extrasB f) : it.info.versioned = false := by
  induction f generalizing it with
  | nil => simp [extrasB] at h
  | cons i kids rest ih1 ih2 =>
    simp only [extrasB, List.mem_append] at h
    rcases h with h | h
    · split at h
      · simp at h
      · split at h
        · rename_i hv
          simp at h; subst h; simpa using hv
        · split at h
          · simp only [List.mem_map] at h
            obtain ⟨t, ht, rfl⟩ := h
            exact ih1 (it := t) ht
          · simp at h
    · exact ih2 h

theorem filesG_sub {f : Forest} {it : Item} (h : it ∈ filesG f) : it ∈ items f := by
  induction f generalizing it with
  | nil => simp [filesG] at h
  | cons i kids rest ih1 ih2 =>
    simp only [filesG, List.mem_append] at h
    simp only [items, List.mem_cons, List.mem_append, List.mem_map]
    rcases h with h | h
    · split at h
      · split at h
        · simp at h
        · simp only [List.mem_map] at h
          obtain ⟨t, ht, rfl⟩ := h
          left; right; exact ⟨t, ih1 ht, rfl⟩
      · simp at h
      · split at h
        · simp at h
        · simp at h; left; left; exact h
    · right; exact ih2 h

/-- a walked git file is not a real directory and not a link to one -/
theorem filesG_kind {f : Forest} {it : Item} (h : it ∈ filesG f) :
    it.info.kind ≠ .dir ∧ it.info.kind ≠ .linkDir := by
  induction f generalizing it with
  | nil => simp [filesG] at h
  | cons i kids rest ih1 ih2 =>
    simp only [filesG, List.mem_append] at h
    rcases h with h | h
    · split at h
      · split at h
        · simp at h
        · simp only [List.mem_map] at h
          obtain ⟨t, ht, rfl⟩ := h
          exact ih1 (it := t) ht
      · simp at h
      · rename_i h1 h2
        split at h
        · simp at h
        · simp at h; subst h; exact ⟨h1, h2⟩
    · exact ih2 h

theorem extras_sub {fmt : Fmt} {f : Forest} {it : Item} (h : it ∈ extras fmt f) : it ∈ items f := by
  cases fmt with
  | bzr => exact extrasB_sub h
  | git => exact filesG_sub (List.mem_filter.mp h).1

theorem extras_unversioned {fmt : Fmt} {f : Forest} {it : Item} (h : it ∈ extras fmt f) :
    it.info.versioned = false := by
  cases fmt with
  | bzr => exact extrasB_unversioned h
  | git => simpa using (List.mem_filter.mp h).2

theorem selected_sub {keep : Item → Bool} {fmt : Fmt} {o : Opts} {f : Forest} {it : Item}
    (h : it ∈ selectedWith keep fmt o f) :
    it ∈ extras fmt f ∧ wanted o it = true ∧ keep it = true := by
  simp only [selectedWith, List.mem_filter] at h
  exact ⟨h.1.1, h.1.2, h.2⟩

/-! ### nothing versioned below an unversioned entry -/

theorem allUnv_get {k : Forest} {r : Path} {i : Info} {k' : Forest}
    (h : k.allUnversioned = true) (hg : k.get r = some (i, k')) : i.versioned = false := by
  induction k generalizing r with
  | nil => simp [Forest.get] at hg
  | cons j kids rest ih1 ih2 =>
    simp only [Forest.allUnversioned, Bool.and_eq_true, Bool.not_eq_true'] at h
    obtain ⟨⟨hj, hk⟩, hr⟩ := h
    cases r with
    | nil => simp [Forest.get] at hg
    | cons n q =>
      by_cases e : j.name = n
      · cases q with
        | nil =>
          subst e
          rw [get_cons_self] at hg
          simp at hg; rw [← hg.1]; exact hj
        | cons a b =>
          subst e
          rw [get_cons_down] at hg
          exact ih1 hk hg
      · rw [get_cons_ne e] at hg
        exact ih2 hr hg

theorem get_append {f : Forest} {p r : Path} {i : Info} {k : Forest}
    (hg : f.get p = some (i, k)) (hr : r ≠ []) : f.get (p ++ r) = k.get r := by
  induction f generalizing p with
  | nil => simp [Forest.get] at hg
  | cons j kids rest ih1 ih2 =>
    cases p with
    | nil => simp [Forest.get] at hg
    | cons n q =>
      by_cases e : j.name = n
      · subst e
        cases q with
        | nil =>
          rw [get_cons_self] at hg
          simp at hg
          obtain ⟨a, b, rfl⟩ := List.exists_cons_of_ne_nil hr
          simp only [List.cons_append, List.nil_append]
          rw [get_cons_down, hg.2]
        | cons a b =>
          rw [get_cons_down] at hg
          simp only [List.cons_append]
          rw [get_cons_down]
          exact ih1 hg
      · rw [get_cons_ne e] at hg
        simp only [List.cons_append]
        rw [get_cons_ne e]
        exact ih2 hg

theorem unvClosed_items {f : Forest} {it : Item} (hc : f.unvClosed = true) (h : it ∈ items f)
    (hv : it.info.versioned = false) : it.kids.allUnversioned = true := by
  induction f generalizing it with
  | nil => simp [items] at h
  | cons i kids rest ih1 ih2 =>
    simp only [Forest.unvClosed, Bool.and_eq_true, Bool.or_eq_true] at hc
    obtain ⟨⟨h1, h2⟩, h3⟩ := hc
    simp only [items, List.mem_cons, List.mem_append, List.mem_map] at h
    rcases h with (h | ⟨t, ht, rfl⟩) | h
    · subst h
      rcases h1 with h1 | h1
      · simp at hv; rw [hv] at h1; simp at h1
      · exact h1
    · exact ih1 (it := t) h2 ht hv
    · exact ih2 h3 h hv

theorem get_nil (r : Path) : Forest.nil.get r = none := by
  simp [Forest.get]

/-- `q ∈ paths` is the same as a successful lookup -/
theorem mem_paths_of_get {f : Forest} {q : Path} {x : Info × Forest} (h : f.get q = some x) :
    q ∈ f.paths := by
  induction f generalizing q with
  | nil => simp [Forest.get] at h
  | cons j kids rest ih1 ih2 =>
    simp only [Forest.paths, List.mem_cons, List.mem_append, List.mem_map]
    cases q with
    | nil => simp [Forest.get] at h
    | cons n t =>
      by_cases e : j.name = n
      · subst e
        cases t with
        | nil => left; left; rfl
        | cons a b =>
          rw [get_cons_down] at h
          left; right; exact ⟨a :: b, ih1 h, rfl⟩
      · rw [get_cons_ne e] at h
        right; exact ih2 h

end BreezyVerif.C46
